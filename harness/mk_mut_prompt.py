#!/usr/bin/env python3
"""Prints the prompt for an independent breakage-seeding sub-agent (property text only, nothing from /verif)."""
import json, sys
pid = sys.argv[1]; tests = sys.argv[2]; k = sys.argv[3] if len(sys.argv) > 3 else "3"
p = next(json.loads(l) for l in open('/verif/properties.jsonl') if json.loads(l)['id'] == pid)
wt = f"/tmp/mut-{pid.lower()}"
print(f"""You are testing how robust a Python library's test-suite is. You have your own scratch git worktree of the GPyTorch library at {wt} (run python as `/venv/bin/python` with `PYTHONPATH={wt}`; verify with `PYTHONPATH={wt} /venv/bin/python -c "import gpytorch; print(gpytorch.__file__)"` that it prints a path under {wt}). Work ONLY inside {wt} (and {wt}-out for your outputs). Do NOT read or touch /verif or /repo.

Here is a semantic property that the library is supposed to satisfy:

"{p['statement']}"
Quantified: {p['quantifier']['text']}
Relevant source files: {', '.join(p['anchors']['files'])}

TASK: produce {k} different, realistic code changes (the kind of regression a refactoring, an optimisation or a "small cleanup" could introduce) to the library source under {wt}/gpytorch, each of which BREAKS this property while the library still imports and the existing tests still pass. Prefer changes that need something specific to manifest — a particular configuration cell or settings combination, an unusual but legal input (shape, batch pattern, n != t, start != 0, a coincident point, a None/0 argument), a multi-step sequence of operations, or two cooperating edits that each look fine alone — NOT changes that ordinary use exposes at once or that make everything crash. The changes should exercise different mechanisms / code sites, and the numerical effect where applicable should be a genuine deviation (≥ 1e-4 relative), not rounding noise.

For each change i create directory {wt}-out/<i>/ containing:
 - `patch.diff`: `git diff` output (relative to the worktree's HEAD) of ONLY that change (reset between changes: `git -C {wt} checkout -- .`);
 - `demo.py`: a small standalone program (run as `PYTHONPATH={wt} /venv/bin/python demo.py`, float64) that prints PASS and exits 0 on the unchanged code and prints FAIL and exits non-zero with the change applied, demonstrating the violation of the property (compare against an independent dense/closed-form computation, not against recorded numbers);
 - `meta.json`: {{"property": "{pid}", "summary": one line, "needs": what specific condition is required for it to manifest, "tests_run": the exact pytest command you ran and its pass/fail summary with the change applied}}.
You MUST verify for each change: (a) with cwd {wt}: `PYTHONPATH={wt} /venv/bin/python -m pytest -q -p no:cacheprovider -x {tests}` passes with the change exactly as it does without it (run the baseline first; tests already failing without your change don't count), (b) demo.py passes without the change and fails with it. Leave the worktree clean at the end. Final message: for each change the one-line summary and the verification results.""")

#!/usr/bin/env python3
"""Populate corpus/<Cnn>/ from the replays kept next to the seeded changes (seeded/<id>/replays/*.json: the first concrete
failing inputs the check printed for that change).  One entry per seeded change (the first replay), tagged with its origin.
The corpus phase of run.py (thorough tier) replays every entry on the current tree; it must not fail again."""
import glob, json, os, re
ROOT = os.path.dirname(os.path.dirname(os.path.abspath(__file__)))
n = 0
for d in sorted(glob.glob(os.path.join(ROOT, "seeded", "C*-*"))):
    sid = os.path.basename(d)
    pid = sid.split("-")[0]
    reps = sorted(glob.glob(os.path.join(d, "replays", "*.json")),
                  key=lambda f: (0 if re.search(r"_1\.json$", f) else 1, f))
    reps = [r for r in reps if "unproved" not in os.path.basename(r)]
    if not reps:
        continue
    try:
        payload = json.load(open(reps[0]))
    except Exception:
        continue
    if "case" not in payload:
        continue
    payload["origin"] = f"seeded/{sid}"
    out = os.path.join(ROOT, "corpus", pid)
    os.makedirs(out, exist_ok=True)
    json.dump(payload, open(os.path.join(out, f"{sid}.json"), "w"))
    n += 1
print(n, "corpus entries")

#!/usr/bin/env python3
"""Round-2 prompt: like mk_mut_prompt.py plus a list of mechanisms already used in round 1 (from seeded/*/meta.json
summaries — these are descriptions of earlier seeded changes, not of the checks)."""
import json, sys, glob, subprocess
pid = sys.argv[1]; tests = sys.argv[2]
base = subprocess.check_output(['python3', '/verif/harness/mk_mut_prompt.py', pid, tests, '3'], text=True)
base = base.replace(f"/tmp/mut-{pid.lower()}", f"/tmp/mut2-{pid.lower()}")
used = []
for d in sorted(glob.glob(f'/verif/seeded/{pid}-*')):
    used.append('- ' + json.load(open(d + '/meta.json')).get('summary', '')[:300])
extra = ("\n\nThe following changes were already produced in an earlier round — do NOT reuse these mechanisms or code sites; "
         "find three NEW ones, in different functions/files where possible, again preferring changes that need a specific "
         "history, configuration cell, shape coincidence or unusual-but-legal input:\n" + "\n".join(used) +
         "\n\nDo not use `git stash` (it is shared between worktrees); use `git diff > file`, `git checkout -- .`, `git apply file`.")
print(base + extra)

"""G5b — symbolic executor for the hand-written *matrix* backward passes (C19), WITH in-place aliasing and views.

Source (from $VERIF_REPO's working tree):
  gpytorch/variational/natural_variational_distribution.py
      _phi_for_cholesky_, _cholesky_backward, _NaturalToMuVarSqrt._backward, _NaturalToMuVarSqrt.backward
  gpytorch/variational/tril_natural_variational_distribution.py
      _TrilNaturalToMuVarSqrt._forward / .forward (what is saved) / .backward (both outputs)
  gpytorch/variational/ciq_variational_strategy.py
      _NgdInterpTerms.forward (values and saved tensors) / .backward (all three outputs, KL terms included)

Output: lean/GPVerif/Gen/NaturalGrad.lean — one definition per function over `DMat` (one batch element), the body in
SSA form (`let name_k : type := …`), proved equal to the hand-written model of `Model/NaturalGrad.lean` by the `gen_*`
theorems of `Props/C19.lean` and executed by `drivers/C19.lean`.

Semantics that is modelled:
  * every tensor is an object with an identity, a symbolic shape over the dimension symbols `n` (inducing points),
    `d` (data points) and literals, and a *current* Lean term;  `x.op_(…)` replaces the term of that object (every
    alias sees it) and returns the same object;  `X.diagonal(offset=0, dim1=-2, dim2=-1)` is a VIEW: an in-place
    operation on it edits `X`;  a function call whose body is in the translated module is inlined on the very objects
    it is handed (so `_phi_for_cholesky_(A)` edits the caller's `A`);
  * 0-d tensors are scalars, 1-d tensors of shape `[x]` are `x × 1` columns (`unsqueeze(-1)` keeps the term,
    `unsqueeze(-2)` transposes it), elementwise `*`/`+`/`-` follow the broadcasting rule: a size-1 dimension is
    expanded by multiplication with an all-ones matrix (`NaturalGrad.ones`), `.sum(dim)` likewise;
  * primitives are parameters of the generated definition, their contract is a hypothesis of the theorems:
    `linear_cg(P.matmul, rhs, …)` ↦ `cgSolve P rhs`, `_triangular_inverse(X, upper=False)` ↦ `triInv X`;
  * batch bookkeeping (`torch.broadcast_shapes(a.shape[:-2], …)`, `.expand(*batch_shape, *own trailing dims)`) is the
    identity on one batch element; solver settings (`settings.….value()`) are not part of the value.
Anything else on the data path raises TranslateError (a broken tie, never silently skipped).
"""
import ast
import os
from fractions import Fraction


class TranslateError(Exception):
    pass


NAT = "gpytorch/variational/natural_variational_distribution.py"
TRIL = "gpytorch/variational/tril_natural_variational_distribution.py"
CIQ = "gpytorch/variational/ciq_variational_strategy.py"


# ----------------------------------------------------------------------------- symbolic values

_ALIVE = []


class Ten:
    """tensor object; shape = tuple of dimension strings ('n', 'd', '1', '1 + d'); term = Lean expression (atom or
    parenthesised); scalar = 0-d origin (a Lean `α` term) even after unsqueeze"""

    def __init__(self, shape, term, scalar=False):
        self.shape, self.term, self.scalar = tuple(shape), term, scalar
        _ALIVE.append(self)     # Exec.names is keyed by id(): objects must not be collected (and their ids reused) mid-run


class DiagView:
    def __init__(self, base):
        self.base = base


class Batch:          # the batch part of a shape (`x.shape[:-2]`, torch.broadcast_shapes of such)
    pass


class OwnDims:        # `x.shape[-k:]` / (x.size(-1),): the trailing dims of a tensor
    def __init__(self, dims):
        self.dims = tuple(dims)


class Opaque:         # a value that is not on the data path (settings, device, dtype, lambdas)
    def __init__(self, why):
        self.why = why


class Bound:          # bound method handed to a primitive (`prec.matmul`)
    def __init__(self, obj, meth):
        self.obj, self.meth = obj, meth


class CtxObj:
    def __init__(self, saved_in=None):
        self.saved_out = None          # forward: objects passed to save_for_backward
        self.saved_in = saved_in       # backward: tuple of Ten


def ty(shape):
    def p(x):
        return x if x.isalnum() else f"({x})"
    if len(shape) == 0:
        return "α"
    if len(shape) == 1:
        return f"DMat {p(shape[0])} 1 α"
    if len(shape) == 2:
        return f"DMat {p(shape[0])} {p(shape[1])} α"
    raise TranslateError(f"tensor of rank {len(shape)}")


def rat(x):
    if isinstance(x, bool):
        raise TranslateError("bool used as a number")
    if isinstance(x, int):
        q = Fraction(x)
    elif isinstance(x, float):
        q = Fraction(*x.as_integer_ratio())
    elif isinstance(x, Fraction):
        q = x
    else:
        raise TranslateError(f"not a numeric constant: {x!r}")
    if q.denominator == 1:
        return f"({q.numerator} : α)" if q >= 0 else f"(-{-q.numerator} : α)"
    s = f"({abs(q.numerator)} : α) / {q.denominator}"
    return f"({s})" if q >= 0 else f"(-({s}))"


def is_num(x):
    return isinstance(x, (int, float, Fraction)) and not isinstance(x, bool)


class Emit:
    def __init__(self):
        self.lines, self.k = [], 0

    def bind(self, base, t):
        """let-bind the current term of tensor `t` under a fresh name derived from `base`"""
        self.k += 1
        name = f"{base}_{self.k}"
        self.lines.append(f"  let {name} : {ty(t.shape) if not t.scalar else 'α'} := {t.term}")
        t.term = name


def _last2(vals):
    return sorted(vals) == [-2, -1]


class Exec:
    def __init__(self, module_fns, emit, env, where):
        self.fns, self.emit, self.env, self.where = module_fns, emit, dict(env), where
        self.ret, self.done = None, False
        self.names = {}       # id(Ten) -> python name it was first bound to

    def err(self, node, msg):
        raise TranslateError(f"{self.where}, line {getattr(node, 'lineno', '?')}: {msg}")

    # ---- statements
    def run(self, body):
        for st in body:
            if self.done:
                return
            self.stmt(st)

    def stmt(self, st):
        if isinstance(st, ast.Expr):
            if isinstance(st.value, ast.Constant) and isinstance(st.value.value, str):
                return
            self.ev(st.value)
        elif isinstance(st, ast.Assign):
            if len(st.targets) != 1:
                self.err(st, "chained assignment")
            self.assign(st.targets[0], self.ev_lazy(st.value), st)
        elif isinstance(st, ast.Return):
            self.ret = self.ev(st.value) if st.value is not None else None
            self.done = True
        elif isinstance(st, ast.Pass):
            pass
        else:
            self.err(st, f"statement {type(st).__name__} outside the vocabulary")

    def ev_lazy(self, e):
        """an assignment whose right-hand side is out of vocabulary binds an Opaque value; using it later on the data
        path raises (preconditioner pieces, batch shapes, settings are assigned but never enter the value)"""
        try:
            return self.ev(e)
        except TranslateError as ex:
            return Opaque(str(ex))

    def assign(self, tg, v, st):
        if isinstance(tg, ast.Name):
            if isinstance(v, Ten) and id(v) not in self.names:
                self.names[id(v)] = tg.id
                self.emit.bind(tg.id, v)
            self.env[tg.id] = v
        elif isinstance(tg, ast.Tuple):
            if not isinstance(v, tuple) or len(v) != len(tg.elts):
                self.err(st, "tuple assignment of a non-tuple / wrong length")
            for t, x in zip(tg.elts, v):
                self.assign(t, x, st)
        else:
            self.err(st, "assignment target outside the vocabulary")

    # ---- expressions
    def ev(self, e):
        m = getattr(self, "ev_" + type(e).__name__, None)
        if m is None:
            self.err(e, f"expression {type(e).__name__} outside the vocabulary")
        return m(e)

    def ten(self, e):
        v = self.ev(e)
        if isinstance(v, Opaque):
            self.err(e, f"value outside the vocabulary is used on the data path ({v.why})")
        if not isinstance(v, Ten):
            self.err(e, "tensor expected")
        return v

    def ev_Constant(self, e):
        return e.value

    def ev_Name(self, e):
        if e.id in self.env:
            return self.env[e.id]
        if e.id in ("torch", "settings", "math"):
            return Opaque(e.id)
        if e.id in self.fns or e.id in ("linear_cg", "_triangular_inverse", "_NaturalToMuVarSqrt", "_TrilNaturalToMuVarSqrt"):
            return Opaque("function " + e.id)
        self.err(e, f"unknown name {e.id}")

    def ev_Tuple(self, e):
        return tuple(self.ev(x) for x in e.elts)

    def ev_List(self, e):
        return [self.ev(x) for x in e.elts]

    def ev_Lambda(self, e):
        return Opaque("lambda")

    def ev_Starred(self, e):
        return ("*", self.ev(e.value))

    def ev_UnaryOp(self, e):
        v = self.ev(e.operand)
        if isinstance(e.op, ast.USub) and is_num(v):
            return -v
        if isinstance(e.op, ast.USub) and isinstance(v, Ten):
            return self.scale(v, -1)
        self.err(e, "unary operator outside the vocabulary")

    def ev_Attribute(self, e):
        o = self.ev(e.value)
        if isinstance(o, CtxObj) and e.attr == "saved_tensors":
            if o.saved_in is None:
                self.err(e, "ctx.saved_tensors not available here")
            return o.saved_in
        if isinstance(o, Ten):
            if e.attr in ("device", "dtype"):
                return Opaque(e.attr)
            if e.attr == "shape":
                return ("shape", o)
            if e.attr == "mT":
                return self.transpose(o, e)
            if e.attr == "matmul":
                return Bound(o, "matmul")
        if isinstance(o, Opaque):
            return Opaque(o.why + "." + e.attr)
        self.err(e, f"attribute .{e.attr} outside the vocabulary")

    def ev_Subscript(self, e):
        o = self.ev(e.value)
        s = e.slice
        if isinstance(o, tuple) and o and o[0] == "shape":
            t = o[1]
            if isinstance(s, ast.Slice) and s.step is None:
                lo = self.ev(s.lower) if s.lower is not None else None
                hi = self.ev(s.upper) if s.upper is not None else None
                r = len(t.shape)
                if lo is None and isinstance(hi, int) and hi == -r:
                    return Batch()
                if hi is None and isinstance(lo, int) and lo == -r:
                    return OwnDims(t.shape)
            self.err(e, "shape slice other than the batch part / the tensor's own dims")
        if isinstance(o, (tuple, list)) and not (o and o[0] == "shape"):
            i = self.ev(s)
            if not isinstance(i, int):
                self.err(e, "non-integer subscript of a tuple")
            return o[i]
        if isinstance(o, Ten):
            # T[..., k]  /  T[..., k:]
            if not (isinstance(s, ast.Tuple) and len(s.elts) == 2 and isinstance(s.elts[0], ast.Constant)
                    and s.elts[0].value is Ellipsis):
                self.err(e, "tensor subscript other than `[..., k]` / `[..., k:]`")
            ix = s.elts[1]
            if isinstance(ix, ast.Slice):
                if ix.upper is not None or ix.step is not None or ix.lower is None:
                    self.err(e, "slice other than `k:`")
                k = self.ev(ix.lower)
                if not (isinstance(k, int) and k >= 0) or len(o.shape) != 2:
                    self.err(e, "column slice of a non-matrix / negative start")
                return Ten((o.shape[0], self.dim_minus(o.shape[1], k, e)),
                           f"(NaturalGrad.cols {o.term} {k} : {ty((o.shape[0], self.dim_minus(o.shape[1], k, e)))})")
            k = self.ev(ix)
            if not (isinstance(k, int) and k >= 0):
                self.err(e, "non-literal index")
            if len(o.shape) == 2:
                return Ten((o.shape[0],), f"(NaturalGrad.cols {o.term} {k} : {ty((o.shape[0],))})")
            if len(o.shape) == 1:
                return Ten((), f"(DMat.toMatrix {o.term} ⟨{k}, by omega⟩ 0)", scalar=True)
        self.err(e, "subscript outside the vocabulary")

    def dim_minus(self, dim, k, node):
        if k == 0:
            return dim
        pre = f"{k} + "
        if dim.startswith(pre):
            return dim[len(pre):]
        self.err(node, f"cannot drop {k} leading columns of a dimension `{dim}`")

    def ev_BinOp(self, e):
        a, b = self.ev(e.left), self.ev(e.right)
        for v, n in ((a, e.left), (b, e.right)):
            if isinstance(v, Opaque):
                self.err(n, f"value outside the vocabulary is used on the data path ({v.why})")
        if isinstance(e.op, ast.MatMult):
            return self.matmul(a, b, e)
        if is_num(a) and is_num(b):
            if isinstance(e.op, ast.Mult):
                return a * b
            if isinstance(e.op, ast.Add):
                return a + b
            if isinstance(e.op, ast.Sub):
                return a - b
            if isinstance(e.op, ast.Div):
                return Fraction(a) / Fraction(b) if not isinstance(a, float) and not isinstance(b, float) else a / b
        if isinstance(e.op, ast.Mult):
            return self.times(a, b, e)
        if isinstance(e.op, (ast.Add, ast.Sub)):
            return self.plus(a, b, isinstance(e.op, ast.Sub), e)
        self.err(e, f"operator {type(e.op).__name__} outside the vocabulary")

    # ---- tensor algebra
    def matmul(self, a, b, node):
        if not (isinstance(a, Ten) and isinstance(b, Ten) and len(a.shape) == 2 and len(b.shape) == 2):
            self.err(node, "`@` of non-matrices")
        if a.shape[1] != b.shape[0]:
            self.err(node, f"`@` of shapes {a.shape} and {b.shape}")
        return Ten((a.shape[0], b.shape[1]), f"(DMat.mul {a.term} {b.term})")

    def transpose(self, a, node):
        if len(a.shape) != 2:
            self.err(node, "transpose of a non-matrix")
        return Ten((a.shape[1], a.shape[0]), f"(DMat.transpose {a.term})")

    def scale(self, a, c):
        if a.scalar:
            return Ten(a.shape, f"({rat(c)} * {a.term})", scalar=True)
        return Ten(a.shape, f"(DMat.smul {rat(c)} {a.term})")

    def as2d(self, t, other_rank):
        """(rows, cols, term) of a non-scalar tensor as a matrix, aligned from the right (broadcasting rule)"""
        if len(t.shape) == 2:
            return t.shape[0], t.shape[1], t.term
        if len(t.shape) == 1:
            if other_rank == 2:          # [x] against a matrix is a ROW
                return "1", t.shape[0], f"(DMat.transpose {t.term})"
            return t.shape[0], "1", t.term
        raise TranslateError("rank")

    def expand(self, r, c, term, R, C, node):
        if r != R:
            if r != "1":
                self.err(node, f"cannot broadcast dimension {r} to {R}")
            term = f"(DMat.mul (NaturalGrad.ones : {ty((R, '1'))}) {term})"
        if c != C:
            if c != "1":
                self.err(node, f"cannot broadcast dimension {c} to {C}")
            term = f"(DMat.mul {term} (NaturalGrad.ones : {ty(('1', C))}))"
        return term

    def bshape(self, a, b, node):
        rank = max(len(a.shape), len(b.shape))
        ra, ca, ta = self.as2d(a, len(b.shape))
        rb, cb, tb = self.as2d(b, len(a.shape))
        R = ra if ra != "1" else rb
        Cc = ca if ca != "1" else cb
        ta, tb = self.expand(ra, ca, ta, R, Cc, node), self.expand(rb, cb, tb, R, Cc, node)
        shape = (R, Cc) if rank == 2 else (R,)
        return shape, ta, tb

    def times(self, a, b, node):
        if is_num(a) and isinstance(b, Ten):
            return self.scale(b, a)
        if is_num(b) and isinstance(a, Ten):
            return self.scale(a, b)
        if not (isinstance(a, Ten) and isinstance(b, Ten)):
            self.err(node, "`*` of non-tensors")
        if a.scalar and b.scalar:
            return Ten((), f"({a.term} * {b.term})", scalar=True)
        if a.scalar or b.scalar:
            s, t = (a, b) if a.scalar else (b, a)
            return Ten(t.shape, f"(DMat.smul {s.term} {t.term})")
        shape, ta, tb = self.bshape(a, b, node)
        return Ten(shape, f"(DMat.hadamard {ta} {tb})")

    def plus(self, a, b, sub, node):
        if not (isinstance(a, Ten) and isinstance(b, Ten)) or a.scalar != b.scalar:
            self.err(node, "`+`/`-` of a tensor and a non-tensor")
        if a.scalar:
            return Ten((), f"({a.term} {'-' if sub else '+'} {b.term})", scalar=True)
        shape, ta, tb = self.bshape(a, b, node)
        return Ten(shape, f"(DMat.{'sub' if sub else 'add'} {ta} {tb})")

    def inplace(self, obj, new):
        """the object `obj` takes the value of the fresh tensor `new` (same shape), every alias sees it"""
        if obj.shape != new.shape:
            raise TranslateError(f"{self.where}: in-place operation changes the shape {obj.shape} -> {new.shape}")
        obj.term = new.term
        if id(obj) in self.names:
            self.emit.bind(self.names[id(obj)], obj)
        return obj

    # ---- calls
    def ev_Call(self, e):
        f = e.func
        kw = {k.arg: k.value for k in e.keywords}
        if isinstance(f, ast.Name):
            return self.call_named(f.id, e, kw)
        if not isinstance(f, ast.Attribute):
            self.err(e, "call form outside the vocabulary")
        # torch.*
        if isinstance(f.value, ast.Name) and f.value.id == "torch" and "torch" not in self.env:
            return self.call_torch(f.attr, e, kw)
        # Class._method of the translated modules
        if isinstance(f.value, ast.Name) and f.value.id in ("_NaturalToMuVarSqrt", "_TrilNaturalToMuVarSqrt"):
            key = f"{f.value.id}.{f.attr}"
            if key not in self.fns:
                self.err(e, f"{key} is not among the translated functions")
            return self.inline(key, [self.ev(a) for a in e.args], e)
        obj = self.ev(f.value)
        meth = f.attr
        if isinstance(obj, CtxObj):
            if meth == "save_for_backward":
                obj.saved_out = [self.ten(a) for a in e.args]
                return None
            self.err(e, f"ctx.{meth} outside the vocabulary")
        if isinstance(obj, Opaque):
            return Opaque(obj.why + "." + meth + "()")
        if isinstance(obj, DiagView):
            if meth in ("mul_",) and len(e.args) == 1 and not kw:
                c = self.ev(e.args[0])
                if not is_num(c):
                    self.err(e, "diagonal view scaled by a non-constant")
                b = obj.base
                self.inplace(b, Ten(b.shape, f"(NaturalGrad.scaleDiag {rat(c)} {b.term})"))
                return obj
            self.err(e, f"method .{meth} on a diagonal view")
        if not isinstance(obj, Ten):
            self.err(e, f"method .{meth} on a non-tensor")
        return self.call_method(obj, meth, e, kw)

    def call_method(self, obj, meth, e, kw):
        args = [self.ev(a) for a in e.args]
        if meth == "transpose" and len(args) == 2 and not kw:
            if not _last2(args):
                self.err(e, "transpose of dims other than the last two")
            return self.transpose(obj, e)
        if meth in ("mul", "mul_") and len(args) == 1 and not kw:
            new = self.times(obj, args[0], e)
            return self.inplace(obj, new) if meth == "mul_" else new
        if meth in ("add", "add_", "sub", "sub_") and len(args) == 1 and not kw:
            new = self.plus(obj, args[0], meth.startswith("sub"), e)
            return self.inplace(obj, new) if meth.endswith("_") else new
        if meth == "matmul" and len(args) == 1 and not kw:
            return self.matmul(obj, args[0], e)
        if meth == "tril_" and not args and not kw:
            if len(obj.shape) != 2 or obj.shape[0] != obj.shape[1]:
                self.err(e, "tril_ of a non-square tensor")
            return self.inplace(obj, Ten(obj.shape, f"(NaturalGrad.tril {obj.term})"))
        if meth == "diagonal":
            off = self.ev(kw["offset"]) if "offset" in kw else (args[0] if args else 0)
            d1 = self.ev(kw["dim1"]) if "dim1" in kw else (args[1] if len(args) > 1 else 0)
            d2 = self.ev(kw["dim2"]) if "dim2" in kw else (args[2] if len(args) > 2 else 1)
            if off != 0 or not _last2([d1, d2]) or len(obj.shape) != 2 or obj.shape[0] != obj.shape[1]:
                self.err(e, "diagonal view other than the main diagonal of the last two dims")
            return DiagView(obj)
        if meth in ("unsqueeze", "squeeze") and len(args) == 1 and not kw:
            return self.squeeze(obj, meth, args[0], e)
        if meth == "sum":
            dim = self.ev(kw["dim"]) if "dim" in kw else (args[0] if args else None)
            if len(obj.shape) != 2 or dim not in (-1, -2) or len(kw) > ("dim" in kw):
                self.err(e, ".sum other than over one of the last two dims of a matrix")
            r, c = obj.shape
            if dim == -1:
                return Ten((r,), f"(DMat.mul {obj.term} (NaturalGrad.ones : {ty((c, '1'))}))")
            return Ten((c,), f"(DMat.transpose (DMat.mul (NaturalGrad.ones : {ty(('1', r))}) {obj.term}))")
        if meth == "size" and args == [-1] and not kw:
            return ("dim", obj.shape[-1])
        if meth == "expand":
            # (*batch_shape, *own trailing dims): the identity on one batch element
            flat = []
            for a in args:
                if isinstance(a, tuple) and len(a) == 2 and a[0] == "*":
                    flat.append(a[1])
                else:
                    flat.append(a)
            if not flat or not isinstance(flat[0], Batch):
                self.err(e, ".expand whose leading part is not the batch shape")
            own = []
            for a in flat[1:]:
                if isinstance(a, OwnDims):
                    own += list(a.dims)
                elif isinstance(a, tuple) and a and a[0] == "dim":
                    own.append(a[1])
                else:
                    self.err(e, ".expand with a trailing size that is not the tensor's own")
            if tuple(own) != obj.shape:
                self.err(e, f".expand changes the trailing dims {obj.shape} -> {tuple(own)}")
            return obj
        if meth in ("clone", "contiguous", "detach") and not args:
            return Ten(obj.shape, obj.term, obj.scalar) if meth == "clone" else obj
        self.err(e, f"tensor method .{meth} outside the vocabulary")

    def squeeze(self, obj, meth, dim, e):
        if meth == "unsqueeze":
            if len(obj.shape) == 0 and dim == -1:
                return Ten((), obj.term, scalar=True)          # scalar-like, broadcasts against anything
            if obj.scalar and dim == -1:
                return obj
            if len(obj.shape) == 1 and dim == -1:
                return Ten((obj.shape[0], "1"), obj.term)
            if len(obj.shape) == 1 and dim == -2:
                return Ten(("1", obj.shape[0]), f"(DMat.transpose {obj.term})")
            self.err(e, f"unsqueeze({dim}) of a tensor of shape {obj.shape}")
        if len(obj.shape) == 2 and dim == -1 and obj.shape[1] == "1":
            return Ten((obj.shape[0],), obj.term)
        self.err(e, f"squeeze({dim}) of a tensor of shape {obj.shape}")

    def call_torch(self, fn, e, kw):
        args = [self.ev(a) for a in e.args]
        if fn == "eye":
            if not (args and isinstance(args[0], tuple) and args[0][0] == "dim") or len(args) > 2:
                self.err(e, "torch.eye of a size that is not a tensor dimension")
            k = args[0][1]
            return Ten((k, k), f"(DMat.one : {ty((k, k))})")
        if fn == "add" and len(args) == 2 and not kw:
            return self.plus(args[0], args[1], False, e)
        if fn == "cat":
            dim = self.ev(kw["dim"]) if "dim" in kw else (args[1] if len(args) > 1 else 0)
            parts = args[0]
            if dim != -1 or not isinstance(parts, list) or len(parts) != 2 or \
                    not all(isinstance(p, Ten) and len(p.shape) == 2 for p in parts) or parts[0].shape[0] != parts[1].shape[0]:
                self.err(e, "torch.cat other than of two matrices along the last dim")
            a, b = parts
            return Ten((a.shape[0], f"{a.shape[1]} + {b.shape[1]}"), f"(NaturalGrad.hcat {a.term} {b.term})")
        if fn == "broadcast_shapes":
            if all(isinstance(a, Batch) for a in args):
                return Batch()
            self.err(e, "torch.broadcast_shapes of something else than batch shapes")
        if fn == "zeros_like" and len(args) == 1 and isinstance(args[0], Ten):
            t = args[0]
            if t.scalar or len(t.shape) == 0:
                return Ten((), "(0 : α)", scalar=True)
            return Ten(t.shape, f"(DMat.zero : {ty(t.shape)})")
        self.err(e, f"torch.{fn} outside the vocabulary")

    def call_named(self, name, e, kw):
        if name == "linear_cg":
            args = [self.ev(a) for a in e.args]
            if len(args) != 2 or not isinstance(args[0], Bound) or args[0].meth != "matmul" or not isinstance(args[1], Ten):
                self.err(e, "linear_cg(<tensor>.matmul, rhs, …) expected")
            for k in kw:
                if k not in ("n_tridiag", "max_iter", "tolerance", "max_tridiag_iter", "preconditioner"):
                    self.err(e, f"linear_cg keyword {k}")
            P, rhs = args[0].obj, args[1]
            if len(P.shape) != 2 or P.shape[0] != P.shape[1] or len(rhs.shape) != 2 or rhs.shape[0] != P.shape[0]:
                self.err(e, "linear_cg shapes")
            return Ten(rhs.shape, f"(cgSolve {P.term} {rhs.term})")
        if name == "_triangular_inverse":
            args = [self.ev(a) for a in e.args]
            up = self.ev(kw["upper"]) if "upper" in kw else (args[1] if len(args) > 1 else False)
            if up is not False or not isinstance(args[0], Ten) or len(args[0].shape) != 2:
                self.err(e, "_triangular_inverse(X, upper=False) expected")
            return Ten(args[0].shape, f"(triInv {args[0].term})")
        if name in self.fns:
            return self.inline(name, [self.ev(a) for a in e.args], e)
        self.err(e, f"call of {name} outside the vocabulary")

    def inline(self, key, args, node):
        fn = self.fns[key]
        params = [a.arg for a in fn.args.args]
        if fn.args.vararg or fn.args.kwarg or fn.args.kwonlyargs or len(params) != len(args):
            self.err(node, f"call of {key}: signature outside the vocabulary")
        sub = Exec(self.fns, self.emit, dict(zip(params, args)), key)
        sub.names = self.names
        sub.run(fn.body)
        if not sub.done:
            self.err(node, f"{key} does not return")
        return sub.ret


# ----------------------------------------------------------------------------- drivers of the executor

def _module_fns(repo):
    fns = {}
    for rel in (NAT, TRIL, CIQ):
        p = os.path.join(repo, rel)
        tree = ast.parse(open(p).read(), p)
        for n in tree.body:
            if isinstance(n, ast.FunctionDef):
                fns.setdefault(n.name, n)
            elif isinstance(n, ast.ClassDef):
                for m in n.body:
                    if isinstance(m, ast.FunctionDef):
                        fns.setdefault(f"{n.name}.{m.name}", m)
    return fns


def _need(fns, key):
    if key not in fns:
        raise TranslateError(f"{key} not found")
    return fns[key]


def _params(fn, expect, key):
    names = [a.arg for a in fn.args.args]
    if names != expect or fn.args.vararg or fn.args.kwarg or fn.args.kwonlyargs:
        raise TranslateError(f"{key}: signature changed: {names} (expected {expect})")


def _result(ret, key, n_out=None, allow_none_tail=0):
    if isinstance(ret, Ten):
        ret = (ret,)
    if not isinstance(ret, tuple):
        raise TranslateError(f"{key}: does not return tensors")
    ret = list(ret)
    tail = 0
    while ret and ret[-1] is None and tail < allow_none_tail:
        ret.pop()
        tail += 1
    if not all(isinstance(r, Ten) for r in ret) or (n_out is not None and len(ret) != n_out):
        raise TranslateError(f"{key}: returns {len(ret)} tensors (expected {n_out})")
    return ret


def _define(name, doc, binders, emit, outs):
    rty = " × ".join(ty(o.shape) if not o.scalar else "α" for o in outs)
    val = outs[0].term if len(outs) == 1 else "(" + ", ".join(o.term for o in outs) + ")"
    body = "\n".join(emit.lines + [f"  {val}"])
    return f"/-- {doc} -/\ndef {name} {binders} :\n    {rty} :=\n{body}\n\n"


def _binders(inputs):
    return " ".join(f"({nm} : {ty(t.shape) if not t.scalar else 'α'})" for nm, t in inputs)


N2, N1 = ("n", "n"), ("n",)

HEADER = """/-
GENERATED by harness/translate/g5_natgrad.py from $VERIF_REPO — do not edit.
Sources: gpytorch/variational/natural_variational_distribution.py, tril_natural_variational_distribution.py,
         ciq_variational_strategy.py.
The hand-written matrix backward passes (one batch element; 1-d tensors are columns), in SSA form.  In-place tensor
semantics (aliasing, the diagonal view) has been resolved by the symbolic executor; `cgSolve` (linear_cg) and `triInv`
(_triangular_inverse) are parameters whose contract is a hypothesis of the theorems in Props/C19.lean.
-/
import GPVerif.Model.NaturalGrad

set_option linter.unusedVariables false

namespace Gen.NaturalGrad

variable {n d : Nat} {α : Type} [Field α]

"""


def translate(repo):
    fns = _module_fns(repo)
    out = [HEADER]

    def mk(names_shapes, scalars=()):
        return [(nm, Ten(sh, nm, scalar=nm in scalars)) for nm, sh in names_shapes]

    # ---- _phi_for_cholesky_
    key = "_phi_for_cholesky_"
    fn = _need(fns, key)
    _params(fn, ["A"], key)
    ins = mk([("A", N2)])
    em = Emit()
    ex = Exec(fns, em, dict(ins), key)
    ex.names = {id(t): nm for nm, t in ins}
    ex.run(fn.body)
    (r,) = _result(ex.ret, key, 1)
    out.append(_define("phiForCholesky", "`_phi_for_cholesky_(A)` (modifies `A` in place and returns it)", _binders(mk([("A", N2)])), em, [r]))

    # ---- _cholesky_backward
    key = "_cholesky_backward"
    fn = _need(fns, key)
    _params(fn, ["dout_dL", "L", "L_inverse"], key)
    sig = [("dout_dL", N2), ("L", N2), ("L_inverse", N2)]
    ins = mk(sig)
    em = Emit()
    ex = Exec(fns, em, dict(ins), key)
    ex.names = {id(t): nm for nm, t in ins}
    ex.run(fn.body)
    (r,) = _result(ex.ret, key, 1)
    out.append(_define("choleskyBackward", "`_cholesky_backward(dout_dL, L, L_inverse)`", _binders(mk(sig)), em, [r]))

    # ---- _NaturalToMuVarSqrt._backward
    key = "_NaturalToMuVarSqrt._backward"
    fn = _need(fns, key)
    _params(fn, ["dout_dmu", "dout_dL", "mu", "L", "C"], key)
    sig = [("dout_dmu", N1), ("dout_dL", N2), ("mu", N1), ("L", N2), ("C", N2)]
    ins = mk(sig)
    em = Emit()
    ex = Exec(fns, em, dict(ins), key)
    ex.names = {id(t): nm for nm, t in ins}
    ex.run(fn.body)
    r = _result(ex.ret, key, 2)
    if r[0].shape != N1 or r[1].shape != N2:
        raise TranslateError(f"{key}: result shapes {r[0].shape}, {r[1].shape}")
    out.append(_define("naturalBackward", "`_NaturalToMuVarSqrt._backward(dout_dmu, dout_dL, mu, L, C)`: `(dout_deta1, dout_deta2)`",
                       _binders(mk(sig)), em, r))

    # ---- _NaturalToMuVarSqrt.backward (saved = (mu, L); C = triInv L)
    key = "_NaturalToMuVarSqrt.backward"
    fn = _need(fns, key)
    _params(fn, ["ctx", "dout_dmu", "dout_dL"], key)
    sig = [("dout_dmu", N1), ("dout_dL", N2), ("mu", N1), ("L", N2)]
    ins = mk(sig)
    em = Emit()
    env = dict(ins[:2])
    env["ctx"] = CtxObj(saved_in=(ins[2][1], ins[3][1]))
    ex = Exec(fns, em, env, key)
    ex.names = {id(t): nm for nm, t in ins}
    ex.run(fn.body)
    r = _result(ex.ret, key, 2)
    out.append(_define("naturalFunctionBackward",
                       "`_NaturalToMuVarSqrt.backward` on the saved tensors `(mu, L)`; `triInv` = `_triangular_inverse(·, upper=False)`",
                       f"(triInv : {ty(N2)} → {ty(N2)}) " + _binders(mk(sig)), em, r))

    # ---- _TrilNaturalToMuVarSqrt: _forward, forward (saved tensors), backward
    key = "_TrilNaturalToMuVarSqrt.forward"
    fn = _need(fns, key)
    _params(fn, ["ctx", "nat_mean", "tril_nat_covar"], key)
    sig = [("nat_mean", N1), ("tril_nat_covar", N2)]
    ins = mk(sig)
    em = Emit()
    cx = CtxObj()
    env = dict(ins)
    env["ctx"] = cx
    ex = Exec(fns, em, env, key)
    ex.names = {id(t): nm for nm, t in ins}
    ex.run(fn.body)
    r = _result(ex.ret, key, 2)
    saved = cx.saved_out
    if saved is None or len(saved) != 3:
        raise TranslateError(f"{key}: expected three saved tensors")
    if r[0].shape != N1 or r[1].shape != N2 or [s.shape for s in saved] != [N1, N2, N2]:
        raise TranslateError(f"{key}: shapes of the results / saved tensors changed")
    out.append(_define("trilForward", "`_TrilNaturalToMuVarSqrt.forward`: `(mu, L)` followed by the three tensors saved for backward "
                       "(read when forward returns); `triInv` = `_triangular_inverse(·, upper=False)`",
                       f"(triInv : {ty(N2)} → {ty(N2)}) " + _binders(mk(sig)), em, r + list(saved)))

    key = "_TrilNaturalToMuVarSqrt.backward"
    fn = _need(fns, key)
    _params(fn, ["ctx", "dout_dmu", "dout_dL"], key)
    sig = [("dout_dmu", N1), ("dout_dL", N2), ("saved0", N1), ("saved1", N2), ("saved2", N2)]
    ins = mk(sig)
    em = Emit()
    env = dict(ins[:2])
    env["ctx"] = CtxObj(saved_in=tuple(t for _, t in ins[2:]))
    ex = Exec(fns, em, env, key)
    ex.names = {id(t): nm for nm, t in ins}
    ex.run(fn.body)
    r = _result(ex.ret, key, 2)
    if r[0].shape != N1 or r[1].shape != N2:
        raise TranslateError(f"{key}: result shapes {r[0].shape}, {r[1].shape}")
    out.append(_define("trilBackward", "`_TrilNaturalToMuVarSqrt.backward` on the saved tensors: `(dout_dnat1, dout_dtril)`",
                       _binders(mk(sig)), em, r))

    # ---- _NgdInterpTerms
    key = "_NgdInterpTerms.forward"
    fn = _need(fns, key)
    _params(fn, ["ctx", "interp_term", "natural_vec", "natural_mat"], key)
    sig = [("interp_term", ("n", "d")), ("natural_vec", N1), ("natural_mat", N2)]
    ins = mk(sig)
    em = Emit()
    cx = CtxObj()
    env = dict(ins)
    env["ctx"] = cx
    ex = Exec(fns, em, env, key)
    ex.names = {id(t): nm for nm, t in ins}
    ex.run(fn.body)
    r = _result(ex.ret, key, 3)
    saved = cx.saved_out
    want = [("n", "d"), ("n", "d"), ("d",), N1, N1, N2]
    if saved is None or [s.shape for s in saved] != want or [x.shape for x in r] != [("d",), ("d",), ()]:
        raise TranslateError(f"{key}: shapes of the results / saved tensors changed: "
                             f"{[x.shape for x in r]}, {None if saved is None else [s.shape for s in saved]}")
    cg = f"(cgSolve : {ty(N2)} → {ty(('n', '1 + d'))} → {ty(('n', '1 + d'))})"
    out.append(_define("ngdForward", "`_NgdInterpTerms.forward`: `(interp_mean, interp_var, kl_div)` followed by the six tensors saved "
                       "for backward; `cgSolve P rhs` = `linear_cg(P.matmul, rhs, …)`", cg + " " + _binders(mk(sig)), em, r + list(saved)))

    key = "_NgdInterpTerms.backward"
    fn = _need(fns, key)
    _params(fn, ["ctx", "interp_mean_grad", "interp_var_grad", "kl_div_grad"], key)
    sig = [("interp_mean_grad", ("d",)), ("interp_var_grad", ("d",)), ("kl_div_grad", ())] + \
          [(f"saved{i}", sh) for i, sh in enumerate(want)]
    ins = mk(sig, scalars=("kl_div_grad",))
    em = Emit()
    env = dict(ins[:3])
    env["ctx"] = CtxObj(saved_in=tuple(t for _, t in ins[3:]))
    ex = Exec(fns, em, env, key)
    ex.names = {id(t): nm for nm, t in ins}
    ex.run(fn.body)
    r = _result(ex.ret, key, 3, allow_none_tail=1)
    if [x.shape for x in r] != [("n", "d"), N1, N2]:
        raise TranslateError(f"{key}: result shapes {[x.shape for x in r]}")
    out.append(_define("ngdBackward", "`_NgdInterpTerms.backward` on the saved tensors: `(interp_term_grad, expec_vec_grad, expec_mat_grad)`",
                       _binders(mk(sig, scalars=("kl_div_grad",))), em, r))
    out.append("end Gen.NaturalGrad\n")
    return "".join(out)


def generate(repo, path, check=None):
    """Regenerate `path`; returns True when the text changed.  `check(text) -> error text | None` (optional) type-checks
    the candidate before it replaces the current file; a candidate that is not valid Lean is a TranslateError."""
    text = translate(repo)
    old = open(path).read() if os.path.exists(path) else None
    if old != text:
        if check is not None:
            err = check(text)
            if err:
                raise TranslateError("the regenerated Gen/NaturalGrad.lean does not type-check (kept the previous file): " + err)
        with open(path, "w") as fh:
            fh.write(text)
    return old != text


if __name__ == "__main__":
    import sys
    print(translate(sys.argv[1] if len(sys.argv) > 1 else os.environ.get("VERIF_REPO", "/repo")), end="")

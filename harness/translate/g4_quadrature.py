"""G4/G5 (quadrature part): Python AST -> lean/GPVerif/Gen/Quadrature.lean

Sources and what is read from them:
  * gpytorch/utils/quadrature.py :: GaussHermiteQuadrature1D.forward — the expression of the shifted locations
    (`sqrt(2.0 * variances) * locations + means`), of one weighted term (`(1 / sqrt(pi)) * (f * w)`), the fact that
    the result is the sum over the location axis; `_locs_and_weights`: numpy's `hermgauss`, stored through
    `torch.Tensor(...)` (float32) or otherwise; the default number of nodes (`settings.num_gauss_hermite_locs`).
  * gpytorch/functions/_log_normal_cdf.py :: LogNormalCDF.forward / backward — the three masks, the coefficient
    tables `c`, `r`, `q`, the Horner loops (unrolled), the scattered branch expressions, the saved
    numerator / denominator and both backward expressions.
  * gpytorch/likelihoods/bernoulli_likelihood.py — `marginal` (probit link), `forward`, the label map and
    the integrand of `expected_log_prob`.
  * gpytorch/likelihoods/beta_likelihood.py — `forward`: the Beta concentration parameters.
  * gpytorch/likelihoods/{laplace,student_t}_likelihood.py — `forward`: loc / scale (/ df) expressions.
Elementwise (scalar) meaning; masked_select / masked_scatter_ are the identity on the selected entries.
Out-of-vocabulary constructs raise TranslateError.
"""
import ast
import os
import re

from .g5_constraints import TranslateError, _bad, _src, _write, emit, emit_prop, lean_num

DEC = re.compile(r"^[0-9]+\.[0-9]+$")


class Ex:
    """Symbolic executor over the scalar IR of g5_constraints (plus ('phi', e) for the standard normal cdf and
    tables = python lists of IR)."""

    def __init__(self, src):
        self.src = src
        self.scatter = []     # (target, mask prop, expr)
        self.ctx_saved = {}
        # aliasing of in-place operations: every tensor-valued name / ctx attribute / saved tensor has a storage id;
        # `x.op_()` writes the storage, i.e. rebinds EVERY name (and ctx attribute) that shares it.  `store` holds the
        # current value of the storages somebody else can see after the call (inputs, ctx attributes, saved tensors).
        self.sid = {}         # name -> storage id
        self.store = {}       # storage id -> IR (only for the externally visible storages)
        self._fresh = 0

    VIEW_METHODS = ("expand_as", "view", "view_as", "t", "detach", "reshape", "squeeze", "unsqueeze", "contiguous")

    def fresh_sid(self):
        self._fresh += 1
        return f"loc:{self._fresh}"

    def bind_input(self, env, name, sid, value):
        env[name] = value
        self.sid[name] = sid
        self.store[sid] = value

    def storage_of(self, node):
        """storage id of the tensor a (sub)expression denotes, or None for a freshly allocated result."""
        if isinstance(node, ast.Name):
            return self.sid.get(node.id)
        if isinstance(node, ast.Attribute) and isinstance(node.value, ast.Name) and node.value.id == "ctx":
            return "ctx." + node.attr
        if isinstance(node, ast.Call) and isinstance(node.func, ast.Attribute):
            m = node.func.attr
            if (m.endswith("_") and not m.endswith("__")) or m in self.VIEW_METHODS:
                return self.storage_of(node.func.value)
        return None

    def write(self, sid, value, env):
        """an in-place operation stored `value` into storage `sid`."""
        for nm, s_ in self.sid.items():
            if s_ == sid:
                env[nm] = value
        if sid.startswith("ctx."):
            self.ctx_saved[sid[4:]] = value
        if sid in self.store or sid.startswith("ctx."):
            self.store[sid] = value

    def const(self, node):
        v = node.value
        if isinstance(v, float):
            text = ast.get_source_segment(self.src, node) or ""
            if DEC.match(text) and float(text) == v and float(text) != int(float(text)):
                return ("dec", text)
        return lean_num(v)

    def expr(self, node, env):
        if isinstance(node, ast.Constant):
            return self.const(node)
        if isinstance(node, ast.Name):
            if node.id in env:
                return env[node.id]
            _bad(node, "unknown variable")
        if isinstance(node, ast.List):
            return [self.expr(e, env) for e in node.elts]
        if isinstance(node, ast.UnaryOp) and isinstance(node.op, ast.USub):
            return ("neg", self.expr(node.operand, env))
        if isinstance(node, ast.UnaryOp) and isinstance(node.op, ast.Invert):
            return ("not", self.expr(node.operand, env))
        if isinstance(node, ast.BinOp):
            ops = {ast.Add: "+", ast.Sub: "-", ast.Mult: "*", ast.Div: "/"}
            if type(node.op) in ops:
                return ("bin", ops[type(node.op)], self.expr(node.left, env), self.expr(node.right, env))
            if isinstance(node.op, ast.BitOr):
                return ("or", self.expr(node.left, env), self.expr(node.right, env))
            if isinstance(node.op, ast.BitAnd):
                return ("and", self.expr(node.left, env), self.expr(node.right, env))
            _bad(node, "operator outside vocabulary")
        if isinstance(node, ast.Attribute):
            s = _src(node)
            if s == "math.pi":
                return ("pi",)
            if s.startswith("ctx.") and node.attr in self.ctx_saved:
                return self.ctx_saved[node.attr]
            if s.startswith("self.") and ("self." + node.attr) in env:
                return env["self." + node.attr]
            if isinstance(node.value, ast.Name) and node.value.id in env and node.attr in ("mean", "variance"):
                return ("var", {"mean": "m", "variance": "v"}[node.attr])
            _bad(node, "attribute outside vocabulary")
        if isinstance(node, ast.Call):
            return self.call(node, env)
        if isinstance(node, ast.Subscript) and isinstance(node.value, ast.Name) and isinstance(node.slice, ast.Name):
            mask = env.get(node.slice.id)
            if isinstance(mask, tuple) and mask[0] in ("lt", "not", "or", "and"):
                return self.expr(node.value, env)      # x[mask]: the entries selected by the mask (identity elementwise)
        _bad(node, "expression outside vocabulary")

    def call(self, node, env):
        f = _src(node.func)
        args = node.args
        kws = {k.arg: k.value for k in node.keywords}
        if f in ("math.sqrt", "torch.sqrt") and len(args) == 1:
            return ("app", "TransFn.sqrt", self.expr(args[0], env))
        if f in ("math.log", "torch.log") and len(args) == 1:
            return ("app", "TransFn.log", self.expr(args[0], env))
        if f == "torch.exp" and len(args) == 1:
            return ("app", "TransFn.exp", self.expr(args[0], env))
        if f == "torch.abs" and len(args) == 1:
            return ("app", "TransFn.abs", self.expr(args[0], env))
        if f == "torch.sigmoid" and len(args) == 1:
            return ("app", "ScalarFn.sigmoid", self.expr(args[0], env))
        if f == "torch.tensor" and len(args) == 1 and set(kws) <= {"dtype", "device"}:
            return self.expr(args[0], env)
        if f == "torch.zeros_like" and len(args) == 1:
            return ("nat", 0)
        if f in ("Normal(0.0, 1.0).cdf", "base_distributions.Normal(0, 1).cdf", "Normal(0, 1).cdf") and len(args) == 1:
            return ("phi", self.expr(args[0], env))
        if f == "log_normal_cdf" and len(args) == 1:
            return ("lncdf", self.expr(args[0], env))
        if f == "_pad_with_singletons":
            return self.expr(args[0], env)        # reshaping only
        if isinstance(node.func, ast.Attribute):
            recv = self.expr(node.func.value, env)
            m = node.func.attr
            a = [self.expr(x, env) for x in args]
            if kws:
                _bad(node, "keyword arguments outside vocabulary")
            inplace = m.endswith("_") and m not in ("masked_scatter_",)
            base = m[:-1] if inplace else m
            res = None
            if base == "pow" and len(a) == 1 and a[0] == ("nat", 2):
                res = ("bin", "*", recv, recv)
            elif base in ("div", "mul", "sub", "add") and len(a) == 1:
                res = ("bin", {"div": "/", "mul": "*", "sub": "-", "add": "+"}[base], recv, a[0])
            elif base in ("sqrt", "abs", "exp", "log") and not a:
                res = ("app", "TransFn." + base, recv)
            elif base == "neg" and not a:
                res = ("neg", recv)
            elif base == "lt" and len(a) == 1:
                return ("lt", recv, a[0])
            elif base == "eq" and len(a) == 1:
                return ("eq", recv, a[0])
            elif base in ("masked_select",) and len(a) == 1:
                return recv
            elif base in ("clone", "detach", "contiguous") and not a:
                return recv          # same values; `clone` has fresh storage (`storage_of`), `detach` shares it
            elif base in ("expand_as",) and len(a) == 1:
                return recv
            elif base == "tolist" and not a:
                return recv
            elif base == "t" and not a:
                return ("app", "transpose", recv)
            if res is None:
                _bad(node, "method outside vocabulary")
            if inplace:
                sid = self.storage_of(node.func.value)
                if sid is not None:
                    self.write(sid, res, env)     # every alias of the receiver's storage sees the new value
                elif isinstance(node.func.value, ast.Name):
                    env[node.func.value.id] = res
            return res
        _bad(node, "call outside vocabulary")

    def block(self, stmts, env):
        for st in stmts:
            if isinstance(st, ast.Expr) and isinstance(st.value, ast.Constant) and isinstance(st.value.value, str):
                continue
            if isinstance(st, ast.Assign) and len(st.targets) == 1:
                tgt = st.targets[0]
                if isinstance(tgt, ast.Name):
                    env[tgt.id] = self.expr(st.value, env)
                    self.sid[tgt.id] = self.storage_of(st.value) or self.fresh_sid()
                    continue
                if isinstance(tgt, ast.Attribute) and _src(tgt).startswith("ctx."):
                    self.ctx_saved[tgt.attr] = self.expr(st.value, env)
                    continue
                if isinstance(tgt, ast.Tuple) and _src(st.value) == "ctx.saved_tensors":
                    for i_, (t_, nm) in enumerate(zip(tgt.elts, self.ctx_saved.get("__saved__", []))):
                        self.bind_input(env, t_.id, f"saved:{i_}", nm)
                    continue
                if isinstance(tgt, ast.Subscript) and isinstance(tgt.value, ast.Name):
                    # grad[mask] = expr
                    if self.sid.get(tgt.value.id) in self.store:
                        _bad(st, "masked write into an input / saved tensor")
                    mask = self.expr(tgt.slice, env)
                    self.scatter.append((tgt.value.id, mask, self.sub_masked(st.value, env)))
                    continue
                _bad(st, "assignment target outside vocabulary")
            if isinstance(st, ast.If):
                # `if mask.sum() > 0:` — elementwise meaning: the body defines the entries selected by the mask
                if re.fullmatch(r"\w+\.sum\(\) > 0", _src(st.test)) and not st.orelse:
                    self.block(st.body, env)
                    continue
                _bad(st, "if-statement outside vocabulary")
            if isinstance(st, ast.For) and isinstance(st.target, ast.Name) and not st.orelse:
                table = self.expr(st.iter, env)
                if not isinstance(table, list):
                    _bad(st, "for-loop over something that is not a constant table")
                for item in table:
                    env[st.target.id] = item
                    self.sid[st.target.id] = self.fresh_sid()
                    self.block(st.body, env)
                continue
            if isinstance(st, ast.Expr) and isinstance(st.value, ast.Call):
                f = _src(st.value.func)
                if f.endswith(".masked_scatter_") and len(st.value.args) == 2:
                    tgt = _src(st.value.func.value)
                    if self.storage_of(st.value.func.value) in self.store:
                        _bad(st, "masked_scatter_ into an input / saved tensor")
                    self.scatter.append((tgt, self.expr(st.value.args[0], env), self.expr(st.value.args[1], env)))
                    continue
                if f == "ctx.save_for_backward":
                    self.ctx_saved["__saved__"] = [self.expr(a, env) if not (isinstance(a, ast.Name) and a.id == "log_phi_z")
                                                   else ("var", "logPhi") for a in st.value.args]
                    continue
                if f == "warnings.warn":
                    continue
                if isinstance(st.value.func, ast.Attribute) and st.value.func.attr.endswith("_") and \
                        not st.value.func.attr.endswith("__") and st.value.func.attr != "masked_scatter_":
                    self.expr(st.value, env)       # `x.op_(…)` as a statement: only the in-place write matters
                    continue
                _bad(st, "call statement outside vocabulary")
            if isinstance(st, ast.Return):
                return self.expr(st.value, env)
            _bad(st, "statement outside vocabulary")
        return None

    def sub_masked(self, node, env):
        """expr in which `x[mask]` means x restricted to the mask (identity elementwise)."""
        class T(ast.NodeTransformer):
            def visit_Subscript(s, n):
                return n.value if isinstance(n.value, ast.Name) else n
        return self.expr(T().visit(ast.parse(_src(node), mode="eval").body), env)



# ------------------------------------------------------------------ instance state written by a method

STATE_CALLS = ("setattr", "object.__setattr__", "delattr", "self.register_buffer", "self.register_parameter",
               "self.add_module", "self.register_module", "self.__setattr__", "self.__dict__.update",
               "self.__dict__.__setitem__", "self.__dict__.setdefault", "self.__dict__.pop", "vars(self).update")
MEMO_DECORATORS = ("cache", "lru_cache", "cached", "cached_property", "memoize", "functools.cache", "functools.lru_cache")
CAST_METHODS = ("to", "type_as", "double", "float", "half", "bfloat16", "cpu", "cuda", "type", "clone", "detach", "contiguous")


def _root(node):
    """root expression of an attribute / subscript / call-receiver chain"""
    while True:
        if isinstance(node, (ast.Attribute, ast.Subscript, ast.Starred)):
            node = node.value
        elif isinstance(node, ast.Call) and isinstance(node.func, ast.Attribute):
            node = node.func.value
        else:
            return node


def state_writes(fn, cls_name):
    """Every construct of the method `fn` that writes state which outlives the call: assignments / deletions / augmented
    assignments whose target is rooted at `self` (or at a local alias of a `self` attribute, at `type(self)`,
    `self.__class__`, the class name), in-place tensor methods (`x.op_()`) and container mutators on such receivers,
    `setattr`/`register_buffer`-style calls, `global`/`nonlocal`, and memoising decorators.  Pure AST walk (no vocabulary):
    an unknown construct can only add to the list.  Returns source snippets."""
    found = []
    alias = {"self"}
    klass = {cls_name}

    def rooted(node):
        r = _root(node)
        if isinstance(r, ast.Name) and (r.id in alias or r.id in klass):
            return not (isinstance(node, ast.Name))        # rebinding the local name itself writes nothing
        if isinstance(r, ast.Call) and _src(r) in ("type(self)", "vars(self)"):
            return True
        return False

    for d in fn.decorator_list:
        nm = _src(d.func if isinstance(d, ast.Call) else d)
        if nm.split(".")[-1] in MEMO_DECORATORS or nm in MEMO_DECORATORS:
            found.append("@" + _src(d))
    for n in ast.walk(fn):
        if isinstance(n, ast.Assign) and len(n.targets) == 1 and isinstance(n.targets[0], ast.Name):
            # alias of a self attribute (pure attribute chain, no call): writes through it are writes to the object
            v = n.value
            if isinstance(v, ast.Attribute) and isinstance(_root(v), ast.Name) and _root(v).id in alias and \
                    not any(isinstance(x, ast.Call) for x in ast.walk(v)):
                alias.add(n.targets[0].id)
            if _src(v) in ("type(self)", "self.__class__"):
                klass.add(n.targets[0].id)
    for n in ast.walk(fn):
        tgts = []
        if isinstance(n, ast.Assign):
            for t in n.targets:
                tgts += list(t.elts) if isinstance(t, (ast.Tuple, ast.List)) else [t]
        elif isinstance(n, (ast.AugAssign, ast.AnnAssign)):
            tgts = [n.target]
        elif isinstance(n, ast.Delete):
            tgts = list(n.targets)
        elif isinstance(n, (ast.Global, ast.Nonlocal)):
            found.append(_src(n))
        elif isinstance(n, ast.Call):
            f = _src(n.func)
            if f in STATE_CALLS and (not f.startswith(("setattr", "object.", "delattr")) or
                                     (n.args and rooted(ast.Attribute(value=n.args[0], attr="_", ctx=ast.Load())))):
                found.append(_src(n))
            elif isinstance(n.func, ast.Attribute):
                m = n.func.attr
                mut = (m.endswith("_") and not m.endswith("__")) or m in ("append", "extend", "update", "setdefault", "pop",
                                                                           "clear", "insert", "remove", "popitem", "add")
                if mut and rooted(n.func):
                    found.append(_src(n))
        for t in tgts:
            if not isinstance(t, ast.Name) and rooted(t):
                found.append(_src(n).split("\n")[0])
    return found


def _is_state_write_only(st):
    """a statement whose only effect is to write `self` state with values that are dtype / device casts of that state
    (identity in the exact, real-number meaning of the translated expressions)"""
    if isinstance(st, ast.If) :
        return all(_is_state_write_only(x) for x in st.body + st.orelse) and bool(st.body)
    if isinstance(st, ast.Assign) and len(st.targets) == 1 and isinstance(st.targets[0], ast.Attribute) and \
            isinstance(st.targets[0].value, ast.Name) and st.targets[0].value.id == "self":
        v = st.value
        while isinstance(v, ast.Call) and isinstance(v.func, ast.Attribute) and v.func.attr in CAST_METHODS:
            v = v.func.value
        return _src(v) == _src(st.targets[0])
    return False


def emit_x(e):
    """emit with the extra constructors."""
    if isinstance(e, tuple) and e[0] == "phi":
        return f"(Phi {emit_x(e[1])})"
    if isinstance(e, tuple) and e[0] == "lncdf":
        return f"(lncdf {emit_x(e[1])})"
    if isinstance(e, tuple) and e[0] in ("neg",):
        return f"(-{emit_x(e[1])})"
    if isinstance(e, tuple) and e[0] == "bin":
        return f"({emit_x(e[2])} {e[1]} {emit_x(e[3])})"
    if isinstance(e, tuple) and e[0] == "app":
        return f"({e[1]} {emit_x(e[2])})"
    return emit(e)


def emit_mask(p):
    k = p[0]
    if k == "lt":
        return f"({emit_x(p[1])} < {emit_x(p[2])})"
    if k == "or":
        return f"({emit_mask(p[1])} ∨ {emit_mask(p[2])})"
    if k == "and":
        return f"({emit_mask(p[1])} ∧ {emit_mask(p[2])})"
    if k == "not":
        return f"(¬ {emit_mask(p[1])})"
    raise TranslateError(f"cannot emit mask {p!r}")


def _cls(tree, name):
    for n in tree.body:
        if isinstance(n, ast.ClassDef) and n.name == name:
            return n
    raise TranslateError(f"class {name} not found")


def _fn(cls, name):
    for n in cls.body:
        if isinstance(n, ast.FunctionDef) and n.name == name:
            return n
    raise TranslateError(f"{cls.name}.{name} not found")


def _read(repo, rel):
    src = open(os.path.join(repo, rel)).read()
    return src, ast.parse(src)


def generate(repo, out_path):
    info = {}
    L = []
    A = L.append
    A("/-")
    A("GENERATED by harness/translate/g4_quadrature.py from gpytorch/utils/quadrature.py,")
    A("gpytorch/functions/_log_normal_cdf.py and gpytorch/likelihoods/{bernoulli,beta,laplace,student_t}_likelihood.py")
    A("— do not edit.  Elementwise (scalar) meaning of the translated expressions.")
    A("-/")
    A("import GPVerif.Model.ScalarFn")
    A("")
    A("set_option linter.unusedVariables false")
    A("")
    A("namespace Gen.Quadrature")
    A("open ScalarFn")
    A("")
    A("variable {α : Type} [Add α] [Sub α] [Mul α] [Div α] [Neg α] [NatCast α] [OfScientific α] [TransFn α]")
    A("")

    # ---------------- quadrature.py
    src, tree = _read(repo, "gpytorch/utils/quadrature.py")
    q = _cls(tree, "GaussHermiteQuadrature1D")
    fwd = _fn(q, "forward")
    ex = Ex(src)
    env = {"gaussian_dists": ("var", "dist"), "func": ("var", "func"), "self.locations": ("var", "t"),
           "self.weights": ("var", "w")}
    shifted = term = None
    summed = False
    ghq_writes = state_writes(fwd, "GaussHermiteQuadrature1D")
    attr_reads = [n.attr for n in ast.walk(fwd) if isinstance(n, ast.Attribute) and isinstance(n.ctx, ast.Load)
                  and isinstance(n.value, ast.Name) and n.value.id == "self"]
    for st in fwd.body:
        if isinstance(st, ast.Expr) and isinstance(st.value, ast.Constant):
            continue
        if _is_state_write_only(st):
            continue        # counted in `ghqForwardStateWrites`; a cast of the stored table is the identity on its exact values
        if isinstance(st, ast.Assign) and len(st.targets) == 1 and isinstance(st.targets[0], ast.Attribute) and \
                isinstance(st.targets[0].value, ast.Name) and st.targets[0].value.id == "self" and \
                st.targets[0].attr not in attr_reads and not any(isinstance(x_, ast.Call) for x_ in ast.walk(st.value)):
            continue        # stores a local value in an attribute this call never reads: counted as a state write, no value
        if isinstance(st, ast.Assign) and isinstance(st.targets[0], ast.Name):
            nm = st.targets[0].id
            if nm == "log_probs":
                if _src(st.value) != "func(shifted_locs)":
                    _bad(st, "integrand is not evaluated at the shifted locations")
                shifted = env["shifted_locs"]
                env[nm] = ("var", "fx")
                continue
            if nm == "res" and _src(st.value).startswith("res.sum("):
                if _src(st.value) != "res.sum(tuple(range(self.locations.dim())))":
                    _bad(st, "sum is not over the location axes")
                summed = True
                continue
            env[nm] = ex.expr(st.value, env)
            if nm == "res":
                term = env[nm]
            continue
        if isinstance(st, ast.Return):
            if _src(st.value) != "res":
                _bad(st, "unexpected return")
            continue
        _bad(st, "statement outside vocabulary")
    if shifted is None or term is None or not summed:
        raise TranslateError("GaussHermiteQuadrature1D.forward: shifted locations / weighted term / sum not found")
    A("/-- `GaussHermiteQuadrature1D.forward`: one shifted location (variance `v`, node `t`, mean `m`) -/")
    A(f"def ghShift (v t m : α) : α := {emit_x(shifted)}")
    A("/-- one weighted term of the rule (`fx` = integrand at the shifted location, `w` = Gauss–Hermite weight);")
    A("the result of `forward` is the sum of these over the nodes -/")
    A(f"def ghTerm (fx w : α) : α := {emit_x(term)}")
    A("")
    A("/-- `GaussHermiteQuadrature1D.forward`: number of constructs that write the rule object's state (assignment to /")
    A("in-place operation on / registration of an attribute of `self`, memoising decorator)" +
      (": " + " ; ".join("`" + w.replace("-/", "- /") + "`" for w in ghq_writes) if ghq_writes else "") + " -/")
    A(f"def ghqForwardStateWrites : Nat := {len(ghq_writes)}")
    A("")
    info["ghq_forward_state_writes"] = ghq_writes
    lw = _fn(q, "_locs_and_weights")
    body = "\n".join(_src(s) for s in lw.body if not (isinstance(s, ast.Expr) and isinstance(s.value, ast.Constant)))
    if "np.polynomial.hermite.hermgauss(num_locs)" not in body:
        raise TranslateError("_locs_and_weights: nodes are not numpy's hermgauss(num_locs)")
    info["node_storage"] = "float32" if "torch.Tensor(locations)" in body and "torch.Tensor(weights)" in body else "other"
    init = _fn(q, "__init__")
    if "settings.num_gauss_hermite_locs.value()" not in _src(init):
        raise TranslateError("__init__: default num_locs is not settings.num_gauss_hermite_locs.value()")

    # ---------------- _log_normal_cdf.py
    src, tree = _read(repo, "gpytorch/functions/_log_normal_cdf.py")
    c = _cls(tree, "LogNormalCDF")
    ex = Ex(src)
    env = {}
    ex.bind_input(env, "z", "in:z", ("var", "z"))
    ex.block(_fn(c, "forward").body, env)
    fwd_input_after = ex.store["in:z"]
    masks = {k: env.get(k) for k in ("z_near_zero", "z_is_small", "z_is_ordinary")}
    if any(v is None for v in masks.values()):
        raise TranslateError("LogNormalCDF.forward: masks z_near_zero / z_is_small / z_is_ordinary not found")
    fw = [(m, e) for (t, m, e) in ex.scatter if t == "log_phi_z"]
    if len(fw) != 3 or [m for m, _ in fw] != [masks["z_near_zero"], masks["z_is_small"], masks["z_is_ordinary"]]:
        raise TranslateError("LogNormalCDF.forward: expected three masked_scatter_ on log_phi_z in the order "
                             "near-zero, small, ordinary")
    for k in ("c", "r", "q"):
        if not isinstance(env.get(k), list):
            raise TranslateError(f"coefficient table {k} not found")
        info[f"len_{k}"] = len(env[k])
    num, den = ex.ctx_saved.get("numerator"), ex.ctx_saved.get("denominator")
    if num is None or den is None:
        raise TranslateError("ctx.numerator / ctx.denominator not saved")
    A("/-! ### `LogNormalCDF.forward` -/")
    A(f"def lncdfNearZeroMask [LT α] (z : α) : Prop := {emit_mask(masks['z_near_zero'])}")
    A(f"def lncdfSmallMask [LT α] (z : α) : Prop := {emit_mask(masks['z_is_small'])}")
    A(f"def lncdfOrdinaryMask [LT α] (z : α) : Prop := {emit_mask(masks['z_is_ordinary'])}")
    A("/-- near-zero branch (Horner loop over the table `c`, unrolled) -/")
    A(f"def lncdfNearZero (z : α) : α := {emit_x(fw[0][1])}")
    A("/-- saved for backward: `ctx.numerator`, `ctx.denominator` (Horner loops over `r`, `q`) -/")
    A(f"def lncdfSmallNum (z : α) : α := {emit_x(num)}")
    A(f"def lncdfSmallDen (z : α) : α := {emit_x(den)}")
    small = fw[1][1]
    A("/-- small branch -/")
    A(f"def lncdfSmall (z : α) : α := {emit_x(small)}")
    A("/-- ordinary branch (`Phi` = standard normal cdf, a torch primitive) -/")
    A(f"def lncdfOrdinary (Phi : α → α) (z : α) : α := {emit_x(fw[2][1])}")
    A("")
    # backward
    exb = Ex(src)
    exb.ctx_saved = {"numerator": ("var", "num"), "denominator": ("var", "den"),
                     "__saved__": [("var", "z"), ("var", "logPhi")]}
    envb = {}
    exb.bind_input(envb, "grad_output", "in:g", ("var", "g"))
    exb.store["ctx.numerator"], exb.store["ctx.denominator"] = ("var", "num"), ("var", "den")
    exb.store["saved:0"], exb.store["saved:1"] = ("var", "z"), ("var", "logPhi")
    ret = exb.block(_fn(c, "backward").body, envb)
    bwd_state_after = [exb.store[k_] for k_ in ("saved:0", "saved:1", "ctx.numerator", "ctx.denominator", "in:g")]
    bw = [(m, e) for (t, m, e) in exb.scatter if t == "log_phi_z_grad"]
    if len(bw) != 2:
        raise TranslateError("LogNormalCDF.backward: expected two masked assignments")
    if bw[0][0] != envb.get("z_is_small") or bw[1][0] != envb.get("z_is_not_small") or \
            envb.get("z_is_not_small") != ("not", envb.get("z_is_small")):
        raise TranslateError("LogNormalCDF.backward: masks are not z_is_small / ~z_is_small")
    if ret != ("bin", "*", ("nat", 0), ("var", "g")):
        # the returned value is log_phi_z_grad.mul(grad_output); log_phi_z_grad itself is the scattered tensor
        if not (isinstance(ret, tuple) and ret[0] == "bin" and ret[1] == "*" and ret[3] == ("var", "g")):
            raise TranslateError("LogNormalCDF.backward: return is not grad * grad_output")
    A("/-! ### `LogNormalCDF.backward` (per unit `grad_output`) -/")
    A(f"def lncdfBackwardSmallMask [LT α] (z : α) : Prop := {emit_mask(envb['z_is_small'])}")
    A(f"def lncdfBackwardSmall (num den : α) : α := {emit_x(bw[0][1])}")
    A(f"def lncdfBackwardNotSmall (z logPhi : α) : α := {emit_x(bw[1][1])}")
    A("/-! ### what the calls leave behind (in-place operations followed through every alias) -/")
    A("/-- `LogNormalCDF.forward`: the value of the INPUT tensor `z` after the call -/")
    A(f"def lncdfForwardInputAfter (z : α) : α := {emit_x(fwd_input_after)}")
    A("/-- `LogNormalCDF.backward`: the values of the saved tensors `z`, `log_phi_z`, of `ctx.numerator`, `ctx.denominator`")
    A("and of `grad_output` AFTER one backward pass, as functions of their values before it (a second pass through the")
    A("same graph reads these) -/")
    A("def lncdfBackwardStateAfter (z logPhi num den g : α) : α × α × α × α × α :=")
    A("  (" + ", ".join(emit_x(e_) for e_ in bwd_state_after) + ")")
    A("")

    # ---------------- bernoulli
    src, tree = _read(repo, "gpytorch/likelihoods/bernoulli_likelihood.py")
    b = _cls(tree, "BernoulliLikelihood")
    ex = Ex(src)
    env = {"function_dist": ("var", "dist")}
    mg = _fn(b, "marginal")
    ex.block([s for s in mg.body if not isinstance(s, ast.Return)], env)
    if "link" not in env or env.get("output_probs") != ("phi", env["link"]):
        raise TranslateError("BernoulliLikelihood.marginal: probs are not Normal(0,1).cdf(link)")
    if _src(mg.body[-1].value) != "base_distributions.Bernoulli(probs=output_probs)":
        _bad(mg.body[-1], "marginal does not return Bernoulli(probs=output_probs)")
    A("/-! ### `BernoulliLikelihood` -/")
    A("/-- `marginal`: argument of the standard normal cdf (mean `m`, variance `v`) -/")
    A(f"def bernoulliLink (m v : α) : α := {emit_x(env['link'])}")
    fw_ = _fn(b, "forward")
    env = {"function_samples": ("var", "f")}
    ex.block([s for s in fw_.body if not isinstance(s, ast.Return)], env)
    if env.get("output_probs") != ("phi", ("var", "f")):
        raise TranslateError("BernoulliLikelihood.forward: probs are not Normal(0,1).cdf(f)")
    elp = _fn(b, "expected_log_prob")
    lab = integrand = None
    for n in ast.walk(elp):
        if isinstance(n, ast.Assign) and _src(n.targets[0]) == "observations":
            lab = Ex(src).expr(n.value, {"observations": ("var", "y")})
        if isinstance(n, ast.Lambda) and "log_normal_cdf" in _src(n):
            integrand = Ex(src).expr(n.body, {"function_samples": ("var", "f"), "observations": ("var", "s")})
    if lab is None or integrand is None:
        raise TranslateError("BernoulliLikelihood.expected_log_prob: label map / integrand not found")
    # path condition of the label-map statement: the list of (test, polarity) of the enclosing `if`s
    def _guard(stmts, path):
        for st_ in stmts:
            if isinstance(st_, ast.Assign) and _src(st_.targets[0]) == "observations":
                return path
            if isinstance(st_, ast.If):
                r_ = _guard(st_.body, path + [(_src(st_.test), True)])
                if r_ is None:
                    r_ = _guard(st_.orelse, path + [(_src(st_.test), False)])
                if r_ is not None:
                    return r_
        return None
    guard = _guard(elp.body, [])
    n_label_assigns = sum(1 for n in ast.walk(elp) if isinstance(n, ast.Assign) and _src(n.targets[0]) == "observations")
    guard_ok = guard == [("torch.any(observations.eq(-1))", False)] and n_label_assigns == 1
    info["bernoulli_label_guard"] = guard
    A("/-- `expected_log_prob`: labels {0,1} -> signs {−1,+1} -/")
    A(f"def bernoulliSign (y : α) : α := {emit_x(lab)}")
    A("/-- `expected_log_prob`: integrand (argument handed to `log_normal_cdf`), `s` = sign -/")
    if integrand[0] != "lncdf":
        raise TranslateError("expected_log_prob integrand is not log_normal_cdf(...)")
    A(f"def bernoulliElpArg (f s : α) : α := {emit_x(integrand[1])}")
    A("/-- `expected_log_prob`: the label map is applied exactly on the path `not torch.any(observations.eq(-1))` — a test")
    A("of the observations of THIS call and of nothing else (path found: " +
      " ∧ ".join(("" if pol else "¬ ") + "`" + t.replace("-/", "- /") + "`" for t, pol in (guard or [])) + ") -/")
    A(f"def bernoulliLabelGuardIsCurrentInput : Bool := {'true' if guard_ok else 'false'}")
    A("")

    # ---------------- beta
    src, tree = _read(repo, "gpytorch/likelihoods/beta_likelihood.py")
    b = _cls(tree, "BetaLikelihood")
    fw_ = _fn(b, "forward")
    ex = Ex(src)
    env = {"function_samples": ("var", "f"), "self.scale": ("var", "s")}
    ex.block([s for s in fw_.body if not isinstance(s, ast.Return)], env)
    if _src(fw_.body[-1].value) != "base_distributions.Beta(concentration1=alpha, concentration0=beta)":
        _bad(fw_.body[-1], "BetaLikelihood.forward does not return Beta(concentration1=alpha, concentration0=beta)")
    A("/-! ### `BetaLikelihood.forward`: concentration parameters (latent `f`, scale `s`) -/")
    A(f"def betaAlpha (f s : α) : α := {emit_x(env['alpha'])}")
    A(f"def betaBeta (f s : α) : α := {emit_x(env['beta'])}")
    A("")

    # ---------------- laplace / student-t: loc, scale
    for rel, cname, dist, pfx in (("gpytorch/likelihoods/laplace_likelihood.py", "LaplaceLikelihood", "Laplace", "laplace"),
                                  ("gpytorch/likelihoods/student_t_likelihood.py", "StudentTLikelihood", "StudentT", "studentT")):
        src, tree = _read(repo, rel)
        fw_ = _fn(_cls(tree, cname), "forward")
        ret = fw_.body[-1]
        if not (isinstance(ret, ast.Return) and isinstance(ret.value, ast.Call) and _src(ret.value.func) == f"base_distributions.{dist}"):
            _bad(ret, f"{cname}.forward does not return base_distributions.{dist}(…)")
        kw = {k.arg: k.value for k in ret.value.keywords}
        ex = Ex(src)
        env = {"function_samples": ("var", "f"), "self.noise": ("var", "noise"), "self.deg_free": ("var", "df")}
        want = {"loc", "scale"} | ({"df"} if dist == "StudentT" else set())
        if set(kw) != want:
            _bad(ret, f"{cname}.forward: keywords {sorted(kw)} (expected {sorted(want)})")
        A(f"/-! ### `{cname}.forward` -/")
        A(f"def {pfx}Loc (f noise : α) : α := {emit_x(ex.expr(kw['loc'], env))}")
        A(f"def {pfx}Scale (f noise : α) : α := {emit_x(ex.expr(kw['scale'], env))}")
        if dist == "StudentT":
            A(f"def {pfx}Df (df : α) : α := {emit_x(ex.expr(kw['df'], env))}")
        A("")


    # ---------------- construction sites: GaussHermiteQuadrature1D.__init__, _OneDimensionalLikelihood
    src_q, tree_q = _read(repo, "gpytorch/utils/quadrature.py")
    qinit = _fn(_cls(tree_q, "GaussHermiteQuadrature1D"), "__init__")
    stm = [_src(x) for x in qinit.body if not (isinstance(x, ast.Expr) and isinstance(x.value, ast.Constant))]
    want_init = ["super().__init__()",
                 "if num_locs is None:\n    num_locs = settings.num_gauss_hermite_locs.value()",
                 "self.num_locs = num_locs",
                 "(locations, weights) = self._locs_and_weights(num_locs)",
                 "self.locations = locations", "self.weights = weights"]
    if [x.replace("locations, weights =", "(locations, weights) =") for x in stm] != want_init:
        raise TranslateError("GaussHermiteQuadrature1D.__init__ outside vocabulary: " + " | ".join(stm))
    if [a.arg for a in qinit.args.args] != ["self", "num_locs"] or _src(qinit.args.defaults[0]) != "None":
        raise TranslateError("GaussHermiteQuadrature1D.__init__ signature outside vocabulary")
    A("/-! ### where the rule is constructed -/")
    A("/-- `GaussHermiteQuadrature1D.__init__`: node count of the constructed object — the argument, or the value of")
    A("`settings.num_gauss_hermite_locs` read at construction -/")
    A("def ghqInitNumLocs (numLocs : Option Nat) (setting : Nat) : Nat :=")
    A("  match numLocs with")
    A("  | none => setting")
    A("  | some n => n")
    src_l, tree_l = _read(repo, "gpytorch/likelihoods/likelihood.py")
    od = _cls(tree_l, "_OneDimensionalLikelihood")
    for st in od.body:
        if isinstance(st, (ast.Assign, ast.AnnAssign)) and "quadrature" in _src(st):
            _bad(st, "class-level `quadrature` attribute (rule shared between instances)")
    oinit = _fn(od, "__init__")
    qas = [st for st in ast.walk(oinit) if isinstance(st, ast.Assign) and _src(st.targets[0]) == "self.quadrature"]
    if len(qas) != 1 or qas[0] not in oinit.body:
        raise TranslateError("_OneDimensionalLikelihood.__init__: expected exactly one top-level `self.quadrature = …`")
    qv = qas[0].value
    if not (isinstance(qv, ast.Call) and isinstance(qv.func, ast.Name) and qv.func.id == "GaussHermiteQuadrature1D"):
        _bad(qas[0], "the rule is not constructed per instance by a direct GaussHermiteQuadrature1D(...) call")
    # the name must be the class imported from utils.quadrature
    if not any(isinstance(n, ast.ImportFrom) and n.module and n.module.endswith("utils.quadrature")
               and any(a.name == "GaussHermiteQuadrature1D" and a.asname is None for a in n.names) for n in tree_l.body):
        raise TranslateError("likelihood.py: GaussHermiteQuadrature1D is not imported from utils.quadrature")
    if any(isinstance(n, (ast.FunctionDef, ast.ClassDef, ast.Assign)) and
           (getattr(n, "name", None) == "GaussHermiteQuadrature1D" or
            (isinstance(n, ast.Assign) and any(_src(t) == "GaussHermiteQuadrature1D" for t in n.targets))) for n in tree_l.body):
        raise TranslateError("likelihood.py rebinds the name GaussHermiteQuadrature1D")
    if not qv.args and not qv.keywords:
        qarg = "none"
    elif len(qv.args) + len(qv.keywords) == 1:
        a0 = qv.args[0] if qv.args else qv.keywords[0].value
        if not (isinstance(a0, ast.Constant) and isinstance(a0.value, int)):
            _bad(qv, "node-count argument outside vocabulary")
        qarg = f"some {a0.value}"
    else:
        _bad(qv, "constructor arguments outside vocabulary")
    A("/-- `_OneDimensionalLikelihood.__init__` builds its own rule object, `self.quadrature = GaussHermiteQuadrature1D(<arg>)`,")
    A("once per likelihood instance: the argument it passes -/")
    A(f"def likelihoodQuadratureArg : Option Nat := {qarg}")
    A("")

    # ---------------- _OneDimensionalLikelihood.expected_log_prob / log_marginal
    def od_expr(node, env):
        if isinstance(node, ast.Name):
            if node.id in env:
                return env[node.id]
            _bad(node, "unknown variable")
        if isinstance(node, ast.Lambda):
            if len(node.args.args) != 1:
                _bad(node, "lambda with several arguments")
            return ("lam", od_expr(node.body, dict(env, **{node.args.args[0].arg: ("var", "f")})))
        if isinstance(node, ast.Call) and isinstance(node.func, ast.Attribute):
            f = _src(node.func)
            if f == "self.forward":
                if not node.args or not isinstance(node.args[0], ast.Name):
                    _bad(node, "forward call outside vocabulary")
                return ("cond", od_expr(node.args[0], env))
            if f == "self.quadrature":
                if len(node.args) != 2 or _src(node.args[1]) != "function_dist" or node.keywords:
                    _bad(node, "quadrature call outside vocabulary")
                lam = od_expr(node.args[0], env)
                if lam[0] != "lam":
                    _bad(node, "quadrature is not applied to a lambda")
                return ("quad", lam[1])
            recv = od_expr(node.func.value, env)
            if node.func.attr == "log_prob" and [_src(a) for a in node.args] == ["observations"] and recv[0] == "cond":
                return ("logp", recv[1])
            if node.func.attr == "exp" and not node.args:
                return ("app", "TransFn.exp", recv)
            if node.func.attr == "log" and not node.args:
                return ("app", "TransFn.log", recv)
        _bad(node, "expression outside vocabulary")

    def od_emit(e):
        if e[0] == "var":
            return e[1]
        if e[0] == "logp":
            return f"(logp {od_emit(e[1])})"
        if e[0] == "app":
            return f"({e[1]} {od_emit(e[2])})"
        if e[0] == "quad":
            return f"(quad (fun f => {od_emit(e[1])}))"
        raise TranslateError(f"cannot emit {e!r}")

    def od_method(name):
        env = {}
        for st in _fn(od, name).body:
            if isinstance(st, ast.Assign) and isinstance(st.targets[0], ast.Name):
                env[st.targets[0].id] = od_expr(st.value, env)
            elif isinstance(st, ast.Return):
                return od_expr(st.value, env)
            elif isinstance(st, ast.Expr) and isinstance(st.value, ast.Constant) and isinstance(st.value.value, str):
                continue
            elif isinstance(st, (ast.Assign, ast.AugAssign)) and \
                    all(isinstance(_root(t_), ast.Name) and _root(t_).id == "self" and not isinstance(t_, ast.Name)
                        for t_ in (st.targets if isinstance(st, ast.Assign) else [st.target])) and \
                    not any(isinstance(x_, ast.Call) and "quadrature" in _src(x_) for x_ in ast.walk(st)):
                continue        # a write to instance state: counted in `likelihoodCallStateWrites`, no value
            else:
                _bad(st, "statement outside vocabulary")
        raise TranslateError(f"{name}: no return")
    A("/-! ### `_OneDimensionalLikelihood`: what is handed to the rule (`quad g` = `self.quadrature(g, function_dist)`,")
    A("`logp f` = `self.forward(f).log_prob(observations)`) -/")
    A(f"def oneDimExpectedLogProb (quad : (α → α) → α) (logp : α → α) : α := {od_emit(od_method('expected_log_prob'))}")
    A(f"def oneDimLogMarginal (quad : (α → α) → α) (logp : α → α) : α := {od_emit(od_method('log_marginal'))}")
    A("")

    # ---------------- instance state written by the call methods of the one-dimensional likelihoods
    CALLS = ("__call__", "forward", "marginal", "log_marginal", "expected_log_prob")
    rows = []
    for rel, cname in (("gpytorch/likelihoods/likelihood.py", "_OneDimensionalLikelihood"),
                       ("gpytorch/likelihoods/bernoulli_likelihood.py", "BernoulliLikelihood"),
                       ("gpytorch/likelihoods/laplace_likelihood.py", "LaplaceLikelihood"),
                       ("gpytorch/likelihoods/student_t_likelihood.py", "StudentTLikelihood"),
                       ("gpytorch/likelihoods/beta_likelihood.py", "BetaLikelihood")):
        _s, _t = _read(repo, rel)
        for n in _cls(_t, cname).body:
            if isinstance(n, ast.FunctionDef) and n.name in CALLS:
                rows.append((f"{cname}.{n.name}", state_writes(n, cname)))
    need = {"_OneDimensionalLikelihood.expected_log_prob", "_OneDimensionalLikelihood.log_marginal",
            "BernoulliLikelihood.expected_log_prob", "BernoulliLikelihood.log_marginal", "BernoulliLikelihood.marginal",
            "BernoulliLikelihood.forward", "LaplaceLikelihood.forward", "StudentTLikelihood.forward", "BetaLikelihood.forward"}
    if not need <= {r[0] for r in rows}:
        raise TranslateError("call methods not found: " + ", ".join(sorted(need - {r[0] for r in rows})))
    info["likelihood_state_writes"] = {k: v for k, v in rows if v}
    A("/-! ### instance state written by the call methods of the one-dimensional likelihoods -/")
    A("/-- number of constructs that write state of `self` (see `ghqForwardStateWrites`), per method, in the order")
    A(", ".join(f"`{k}`" for k, _ in rows))
    for k, v in rows:
        if v:
            A(f"  {k}: " + " ; ".join("`" + w.replace("-/", "- /") + "`" for w in v))
    A("-/")
    A("def likelihoodCallStateWrites : List Nat := [" + ", ".join(str(len(v)) for _, v in rows) + "]")
    A("")

    # ---------------- softmax
    src_s, tree_s = _read(repo, "gpytorch/likelihoods/softmax_likelihood.py")
    sf = _fn(_cls(tree_s, "SoftmaxLikelihood"), "forward")
    mix = [st for st in sf.body if isinstance(st, ast.If) and _src(st.test) == "self.mixing_weights is not None"]
    if len(mix) != 1 or [_src(x) for x in mix[0].body] != ["mixed_fs = function_samples @ self.mixing_weights.t()"] or \
            [_src(x) for x in mix[0].orelse] != ["mixed_fs = function_samples"]:
        raise TranslateError("SoftmaxLikelihood.forward: mixing branch outside vocabulary")
    tail = [_src(x) for x in sf.body[sf.body.index(mix[0]) + 1:]]
    if tail != ["res = base_distributions.Categorical(logits=mixed_fs)", "return res"]:
        raise TranslateError("SoftmaxLikelihood.forward: result is not Categorical(logits=mixed_fs): " + " | ".join(tail))
    A("/-! ### `SoftmaxLikelihood.forward`: logits of the returned Categorical (`matmulT f W` = `f @ W.t()`) -/")
    A("def softmaxLogits {F W : Type} (matmulT : F → W → F) (f : F) : Option W → F")
    A("  | some w => matmulT f w")
    A("  | none => f")
    A("")
    A("end Gen.Quadrature")
    text = "\n".join(L) + "\n"
    changed = _write(out_path, text)
    return info, changed


if __name__ == "__main__":
    import sys
    repo = sys.argv[1] if len(sys.argv) > 1 else "/repo"
    out = sys.argv[2] if len(sys.argv) > 2 else os.path.join(os.path.dirname(os.path.abspath(__file__)),
                                                             "../../lean/GPVerif/Gen/Quadrature.lean")
    print(generate(repo, os.path.abspath(out)))

"""G7c — Python-AST -> Lean translator for what `ExactGP.__call__` / `DefaultPredictionStrategy` do AROUND the prediction
algebra (C01, wave 3; the algebra itself is g7_exact_algebra.py, whose symbolic executor is reused here).

Reads `$VERIF_REPO/gpytorch/models/exact_gp.py` (`ExactGP.__call__`) and
`$VERIF_REPO/gpytorch/models/exact_prediction_strategies.py` (`DefaultPredictionStrategy.__init__`, `num_train`,
`train_shape`, `exact_prediction`, `_mean_cache`, `covar_cache`, `exact_predictive_covar`) and writes
`lean/GPVerif/Gen/ExactCall.lean`:

* `callMode : CallCfg → Outcome` — the decision tree of `__call__`: the training / prior / posterior branches with their
  `settings.debug` checks.  Conditions are Boolean formulas over the atoms {self.training, self.train_inputs is None,
  self.train_targets is None, settings.debug.on(), settings.prior_mode.on(), all(torch.equal(train_input, input) …),
  isinstance(full_output, MultivariateNormal)}; leaves are `raise RuntimeError(<message>)`, `return super().__call__(…)`
  (which inputs it was called on is tracked: `inputs` = the unsqueezed call inputs, `args` = the arguments as given) and
  the posterior computation (any statements without `return` / `raise`, ending in
  `return full_output.__class__(predictive_mean, predictive_covar)`); `warnings.warn(…, GPInputWarning)` sets `warn`.
* `catInputs` — the loop that builds `full_inputs`: a syntax-directed compilation of its body (shape comparison,
  `torch.broadcast_shapes`, `.expand(*batch_shape, *x.shape[-2:])`, `torch.cat([train_input, input], dim=-2)`) to the
  `Option` monad over `Bcast.T` (tensors of rows, shapes innermost-first: `x.shape[:-2]` is `x.shape.tail`).
* `numTrain`, `testShape`, `flattenLabels`, `testMean`, `viewPredMean` — the multitask reshaping: `_train_shape.numel()`,
  `torch.Size([joint_shape[0] - train_shape[0], *tasks_shape])`, `train_labels.reshape(*batch, numel)`,
  `joint_mean[..., num_train:]`, `predictive_mean.view(*batch_shape, *test_shape)` (one batch element).
* `meanCacheDetached`, `covarCacheDetached`, `solveOperandDetached` — which values are `.detach()`ed under
  `settings.detach_test_caches` on / off, found by running g7_exact_algebra's executor with `.detach()` recorded in the
  expression instead of dropped.

Anything outside this vocabulary raises `TranslateError` (a broken tie, never skipped).
"""
import ast
import os

from translate import g7_exact_algebra as g7
from translate.g7_exact_algebra import TranslateError


# ------------------------------------------------------------------ B1: the branches of ExactGP.__call__

ATOM_FIELD = {"training": "c.training", "hasInputs": "c.hasInputs", "hasTargets": "c.hasTargets", "debug": "c.debug",
              "priorMode": "c.priorMode", "inputsEqual": "c.inputsEqual", "outputIsMVN": "c.outputIsMVN"}
RAISES = (("train_inputs cannot be None in training mode", "raiseNoTrainInputs"),
          ("You must train on the training inputs", "raiseMustTrainOnTrainInputs"),
          ("must return a MultivariateNormal", "raiseNotMVN"))


def _cond(e):
    """Python condition -> Boolean formula ('atom', name) | ('not', f) | ('or', [f…]) | ('and', [f…])."""
    txt = ast.unparse(e)
    if txt == "self.training":
        return ("atom", "training")
    if isinstance(e, ast.UnaryOp) and isinstance(e.op, ast.Not):
        return ("not", _cond(e.operand))
    if isinstance(e, ast.BoolOp):
        return ("or" if isinstance(e.op, ast.Or) else "and", [_cond(v) for v in e.values])
    if isinstance(e, ast.Compare) and len(e.ops) == 1 and isinstance(e.comparators[0], ast.Constant) \
            and e.comparators[0].value is None and isinstance(e.ops[0], (ast.Is, ast.IsNot)):
        left = ast.unparse(e.left)
        name = {"self.train_inputs": "hasInputs", "self.train_targets": "hasTargets"}.get(left)
        if name is None:
            raise TranslateError(f"line {e.lineno}: `{txt}`: None-test of something else than the train data")
        return ("atom", name) if isinstance(e.ops[0], ast.IsNot) else ("not", ("atom", name))
    if txt in ("settings.debug.on()", "settings.debug().on()"):
        return ("atom", "debug")
    if txt in ("settings.debug.off()", "settings.debug().off()"):
        return ("not", ("atom", "debug"))
    if txt == "settings.prior_mode.on()":
        return ("atom", "priorMode")
    if txt == "settings.prior_mode.off()":
        return ("not", ("atom", "priorMode"))
    if txt == "all((torch.equal(train_input, input) for train_input, input in length_safe_zip(train_inputs, inputs)))":
        return ("atom", "inputsEqual")
    if txt == "isinstance(full_output, MultivariateNormal)":
        return ("atom", "outputIsMVN")
    raise TranslateError(f"line {e.lineno}: branch condition of ExactGP.__call__ outside the vocabulary: {txt[:100]}")


def _cond_lean(f):
    if f[0] == "atom":
        return ATOM_FIELD[f[1]]
    if f[0] == "not":
        return f"!({_cond_lean(f[1])})"
    op = " || " if f[0] == "or" else " && "
    return "(" + op.join(_cond_lean(g) for g in f[1]) + ")"


def _has_exit(node):
    return any(isinstance(n, (ast.Return, ast.Raise)) for n in ast.walk(node))


def _is_prior_call(e):
    """`super().__call__(*X, **kwargs)` -> 'X'."""
    if isinstance(e, ast.Call) and ast.unparse(e.func) == "super().__call__" and len(e.args) == 1 \
            and isinstance(e.args[0], ast.Starred) and isinstance(e.args[0].value, ast.Name) \
            and [k.arg for k in e.keywords] == [None]:
        return e.args[0].value.id
    return None


def _call_tree(stmts, env, warn):
    """Decision tree of a statement list: ('node', formula, then, else) | ('leaf', outcome-constructor text)."""
    if not stmts:
        raise TranslateError("ExactGP.__call__: a path ends without return / raise")
    s, rest = stmts[0], stmts[1:]
    if isinstance(s, ast.Expr) and isinstance(s.value, ast.Constant):
        return _call_tree(rest, env, warn)
    if isinstance(s, ast.Raise):
        txt = ast.unparse(s.exc) if s.exc is not None else ""
        if not txt.startswith("RuntimeError("):
            raise TranslateError(f"line {s.lineno}: raise of something else than RuntimeError")
        for key, name in RAISES:
            if key in txt:
                return ("leaf", "Outcome." + name)
        raise TranslateError(f"line {s.lineno}: unknown error message: {txt[:80]}")
    if isinstance(s, ast.Return):
        v = s.value
        if isinstance(v, ast.Name) and v.id in env and env[v.id][0] == "prior":
            which = env[v.id][1]
            if which == "inputs":
                return ("leaf", "Outcome.priorAtInputs")
            if which == "args":
                return ("leaf", "Outcome.priorAtArgs")
            raise TranslateError(f"line {s.lineno}: the prior is evaluated at `{which}` (neither inputs nor args)")
        if v is not None and ast.unparse(v) == "full_output.__class__(predictive_mean, predictive_covar)":
            if env.get("full_output", (None, None))[:2] != ("prior", "full_inputs*"):
                raise TranslateError(f"line {s.lineno}: the joint prior is not super().__call__(*full_inputs)")
            return ("leaf", f"Outcome.posterior {'true' if warn else 'false'}")
        raise TranslateError(f"line {s.lineno}: return value outside the vocabulary: {ast.unparse(s)[:80]}")
    if isinstance(s, ast.If):
        if not _has_exit(s) and not any(isinstance(n, ast.Call) and ast.unparse(n.func) == "warnings.warn"
                                        for n in ast.walk(s)):
            return _call_tree(rest, _opaque(s, env), warn)          # e.g. building the prediction strategy
        f = _cond(s.test)
        return ("node", f, _call_tree(list(s.body) + rest, dict(env), warn),
                _call_tree(list(s.orelse) + rest, dict(env), warn))
    if isinstance(s, ast.Expr) and isinstance(s.value, ast.Call) and ast.unparse(s.value.func) == "warnings.warn":
        if "GPInputWarning" not in ast.unparse(s.value):
            raise TranslateError(f"line {s.lineno}: warning of another category than GPInputWarning")
        return _call_tree(rest, env, True)
    if isinstance(s, ast.Assign) and len(s.targets) == 1 and isinstance(s.targets[0], ast.Name):
        name = s.targets[0].id
        env = dict(env)
        which = _is_prior_call(s.value)
        if which is not None:
            # where the prior is evaluated: `inputs` = the unsqueezed call inputs, `args` = the arguments as given,
            # `full_inputs*` = the list built by the concatenation loop
            src = env.get(which)
            if src is not None and src[0] == "alias":
                where = src[1]
            elif which in ("inputs", "args") and src == ("var", which):
                where = which
            elif which == "full_inputs" and src == ("var", "full_inputs"):
                where = "full_inputs*"
            else:
                raise TranslateError(f"line {s.lineno}: super().__call__(*{which}): cannot tell what `{which}` holds")
            env[name] = ("prior", where)
            return _call_tree(rest, env, warn)
        if isinstance(s.value, ast.Name) and s.value.id in ("args", "inputs"):
            env[name] = ("alias", s.value.id)
            return _call_tree(rest, env, warn)
        return _call_tree(rest, _opaque(s, env), warn)
    if isinstance(s, (ast.For, ast.With, ast.Assign, ast.AugAssign, ast.Expr)):
        if _has_exit(s):
            raise TranslateError(f"line {s.lineno}: return / raise inside a loop or with block")
        return _call_tree(rest, _opaque(s, env), warn)
    raise TranslateError(f"line {s.lineno}: statement of ExactGP.__call__ outside the vocabulary: {type(s).__name__}")


def _opaque(s, env):
    """A statement without return / raise: the names it binds are no longer known aliases / priors."""
    env = dict(env)
    for n in ast.walk(s):
        if isinstance(n, ast.Name) and isinstance(n.ctx, ast.Store):
            if n.id == "full_inputs":
                env[n.id] = ("var", "full_inputs")
            elif n.id in env:
                env[n.id] = ("unknown", n.id)
    return env


def _emit_call_tree(t, ind):
    pad = "  " * ind
    if t[0] == "leaf":
        return pad + t[1]
    return (f"{pad}if {_cond_lean(t[1])} then\n{_emit_call_tree(t[2], ind + 1)}\n{pad}else\n"
            f"{_emit_call_tree(t[3], ind + 1)}")


def _simplify_call(t):
    if t[0] == "leaf":
        return t
    a, b = _simplify_call(t[2]), _simplify_call(t[3])
    return a if a == b else ("node", t[1], a, b)


def _exact_gp_call(repo):
    mod = ast.parse(open(os.path.join(repo, "gpytorch/models/exact_gp.py")).read())
    cls = next((n for n in mod.body if isinstance(n, ast.ClassDef) and n.name == "ExactGP"), None)
    fn = next((n for n in cls.body if isinstance(n, ast.FunctionDef) and n.name == "__call__"), None) if cls else None
    if fn is None:
        raise TranslateError("ExactGP.__call__ not found")
    return fn


def call_mode(fn):
    body = list(fn.body)
    # the two preamble assignments
    pre = [ast.unparse(s) for s in body[:2]]
    want = ["train_inputs = list(self.train_inputs) if self.train_inputs is not None else []",
            "inputs = [i.unsqueeze(-1) if i.ndimension() == 1 else i for i in args]"]
    if pre != want:
        raise TranslateError("ExactGP.__call__: preamble (train_inputs / unsqueezed inputs) changed: " + " | ".join(pre)[:160])
    return _simplify_call(_call_tree(body[2:], {"inputs": ("var", "inputs"), "args": ("var", "args")}, False))


# ------------------------------------------------------------------ B2: the loop that builds full_inputs

def _shape_expr(e, tensors):
    """Batch-shape valued expression -> Lean (RShape, innermost-first)."""
    txt = ast.unparse(e)
    if isinstance(e, ast.Name) and e.id == "batch_shape":
        return "batch_shape"
    for t in tensors:
        if txt == f"{t}.shape[:-2]":
            return f"{tensors[t]}.shape.tail"
    if isinstance(e, ast.Call) and ast.unparse(e.func) == "torch.broadcast_shapes" and len(e.args) == 2 and not e.keywords:
        return ("bind", f"bcastR ({_shape_expr(e.args[0], tensors)}) ({_shape_expr(e.args[1], tensors)})")
    raise TranslateError(f"line {e.lineno}: shape expression outside the vocabulary: {txt[:80]}")


def _tensor_expr(e, tensors):
    txt = ast.unparse(e)
    for t in tensors:
        if txt == f"{t}.expand(*batch_shape, *{t}.shape[-2:])":
            return f"{tensors[t]}.expand ({tensors[t]}.shape.headD 0 :: batch_shape)"
    raise TranslateError(f"line {e.lineno}: tensor expression outside the vocabulary: {txt[:80]}")


STATE = "(batch_shape, train_input, input)"


def _loop_block(stmts, tensors, ind):
    """Statements of the loop body -> lines of a Lean `do` block over the state (batch_shape, train_input, input)."""
    pad = "  " * ind
    out = []
    for s in stmts:
        if isinstance(s, ast.Expr) and isinstance(s.value, ast.Constant):
            continue
        if isinstance(s, ast.Assign) and len(s.targets) == 1 and isinstance(s.targets[0], ast.Name):
            name = s.targets[0].id
            if name == "batch_shape":
                v = _shape_expr(s.value, tensors)
                out.append(f"{pad}let batch_shape ← {v[1]}" if isinstance(v, tuple) else f"{pad}let batch_shape := {v}")
            elif name in tensors:
                out.append(f"{pad}let {tensors[name]} := {_tensor_expr(s.value, tensors)}")
            else:
                raise TranslateError(f"line {s.lineno}: assignment to `{name}` inside the concatenation loop")
        elif isinstance(s, ast.If) and not s.orelse and isinstance(s.test, ast.Compare) and len(s.test.ops) == 1 \
                and isinstance(s.test.ops[0], (ast.NotEq, ast.Eq)):
            a = _shape_expr(s.test.left, tensors)
            b = _shape_expr(s.test.comparators[0], tensors)
            if isinstance(a, tuple) or isinstance(b, tuple):
                raise TranslateError(f"line {s.lineno}: broadcast inside a comparison")
            op = "≠" if isinstance(s.test.ops[0], ast.NotEq) else "="
            out.append(f"{pad}let {STATE} ← (if {a} {op} {b} then (do")
            out += _loop_block(s.body, tensors, ind + 2)
            out.append(f"{pad}    pure {STATE} : Option (RShape × T α × T α))")
            out.append(f"{pad}  else pure {STATE})")
        else:
            raise TranslateError(f"line {s.lineno}: statement of the concatenation loop outside the vocabulary: "
                                 f"{ast.unparse(s)[:80]}")
    return out


def cat_inputs(fn):
    loops = [n for n in ast.walk(fn) if isinstance(n, ast.For)]
    if len(loops) != 1:
        raise TranslateError(f"ExactGP.__call__: expected one loop (the concatenation of train and test inputs), found {len(loops)}")
    loop = loops[0]
    if ast.unparse(loop.target) != "(train_input, input)" or \
            ast.unparse(loop.iter) != "length_safe_zip(train_inputs, inputs)":
        raise TranslateError("concatenation loop: header changed: " + ast.unparse(loop).split("\n")[0])
    # the initial batch shape
    init = [n for n in ast.walk(fn) if isinstance(n, ast.Assign) and ast.unparse(n.targets[0]) == "batch_shape"
            and n.lineno < loop.lineno and n.lineno > loop.lineno - 4]
    if len(init) != 1 or ast.unparse(init[0].value) != "train_inputs[0].shape[:-2]":
        raise TranslateError("concatenation loop: the initial batch_shape is not train_inputs[0].shape[:-2]")
    body = list(loop.body)
    last = body[-1]
    if ast.unparse(last) != "full_inputs.append(torch.cat([train_input, input], dim=-2))":
        raise TranslateError("concatenation loop: last statement is not full_inputs.append(torch.cat([train_input, input], dim=-2)): "
                             + ast.unparse(last)[:100])
    tensors = {"train_input": "train_input", "input": "input"}
    lines = ["  do", "    let batch_shape := train_input.shape.tail        -- train_inputs[0].shape[:-2] (first input pair)"]
    lines += _loop_block(body[:-1], tensors, 2)
    lines.append("    pure (catRows train_input input)")
    return "\n".join(lines)


# ------------------------------------------------------------------ B4: multitask reshaping

def _find_assign(fn, name):
    hits = [n for n in ast.walk(fn) if isinstance(n, ast.Assign) and len(n.targets) == 1
            and ast.unparse(n.targets[0]) == name]
    if len(hits) != 1:
        raise TranslateError(f"{fn.name}: expected exactly one assignment to {name}, found {len(hits)}")
    return hits[0].value


def _size_expr(e, env):
    """List-of-sizes / size valued expression (torch order) -> Lean over `List Nat` / `Nat`."""
    txt = ast.unparse(e)
    if txt in env:
        return env[txt]
    if isinstance(e, ast.Subscript):
        base = _size_expr(e.value, env)
        sl = e.slice
        if isinstance(sl, ast.Constant) and isinstance(sl.value, int) and sl.value >= 0:
            return f"({base}).getD {sl.value} 0"
        if isinstance(sl, ast.Slice) and sl.upper is None and sl.step is None and isinstance(sl.lower, ast.Constant) \
                and isinstance(sl.lower.value, int) and sl.lower.value >= 0:
            return f"({base}).drop {sl.lower.value}"
        raise TranslateError(f"line {e.lineno}: index of a shape outside the vocabulary: {txt}")
    if isinstance(e, ast.BinOp) and isinstance(e.op, (ast.Sub, ast.Add)):
        return f"({_size_expr(e.left, env)} {'-' if isinstance(e.op, ast.Sub) else '+'} {_size_expr(e.right, env)})"
    if isinstance(e, ast.Call) and ast.unparse(e.func) == "torch.Size" and len(e.args) == 1 and isinstance(e.args[0], ast.List):
        parts = []
        for x in e.args[0].elts:
            parts.append(_size_expr(x.value, env) if isinstance(x, ast.Starred) else f"[{_size_expr(x, env)}]")
        return "(" + " ++ ".join(parts) + ")"
    if isinstance(e, ast.Call) and isinstance(e.func, ast.Attribute) and e.func.attr == "numel" and not e.args:
        return f"({_size_expr(e.func.value, env)}).foldl (· * ·) 1"
    raise TranslateError(f"line {e.lineno}: shape expression outside the vocabulary: {txt[:80]}")


def multitask(fn, cls):
    methods = {it.name: it for it in cls.body if isinstance(it, ast.FunctionDef)}

    def prop(name):
        m = methods.get(name)
        if m is None or len(m.body) != 1 or not isinstance(m.body[0], ast.Return):
            raise TranslateError(f"DefaultPredictionStrategy.{name}: not a one-line property")
        return m.body[0].value
    init = methods.get("__init__")
    if init is None or ast.unparse(_find_assign(init, "self._train_shape")) != "train_prior_dist.event_shape":
        raise TranslateError("DefaultPredictionStrategy.__init__: self._train_shape is not train_prior_dist.event_shape")
    env_s = {"self._train_shape": "trainShape"}
    if ast.unparse(prop("train_shape")) != "self._train_shape":
        raise TranslateError("DefaultPredictionStrategy.train_shape is not self._train_shape")
    env_s["self.train_shape"] = "trainShape"
    num_train = _size_expr(prop("num_train"), env_s)
    # train_labels.reshape(*train_labels.shape[:-len(self.train_shape)], <numel>)
    resh = [n for n in ast.walk(init) if isinstance(n, ast.Call) and ast.unparse(n.func) == "train_labels.reshape"]
    if len(resh) != 1 or len(resh[0].args) != 2 or \
            ast.unparse(resh[0].args[0]) != "*train_labels.shape[:-len(self.train_shape)]":
        raise TranslateError("DefaultPredictionStrategy.__init__: the flattening of train_labels changed")
    flat_numel = _size_expr(resh[0].args[1], env_s)
    # exact_prediction: test_mean = joint_mean[..., self.num_train:]
    ep = methods.get("exact_prediction")
    tm = _find_assign(ep, "test_mean")
    if ast.unparse(tm) != "joint_mean[..., self.num_train:]":
        raise TranslateError("exact_prediction: test_mean is not joint_mean[..., self.num_train:]: " + ast.unparse(tm))
    # __call__: joint_shape / tasks_shape / test_shape / view
    env_c = {"self.prediction_strategy.train_shape": "trainShape"}
    if ast.unparse(_find_assign(fn, "joint_shape")) != "full_output.event_shape":
        raise TranslateError("ExactGP.__call__: joint_shape is not full_output.event_shape")
    env_c["joint_shape"] = "jointShape"
    env_c["tasks_shape"] = _size_expr(_find_assign(fn, "tasks_shape"), env_c)
    test_shape = _size_expr(_find_assign(fn, "test_shape"), env_c)
    view = [n for n in ast.walk(fn) if isinstance(n, ast.Call) and ast.unparse(n.func) == "predictive_mean.view"]
    if len(view) != 1 or [ast.unparse(a) for a in view[0].args] != ["*batch_shape", "*test_shape"]:
        raise TranslateError("ExactGP.__call__: predictive_mean.view(*batch_shape, *test_shape) changed")
    return {"numTrain": num_train, "flatNumel": flat_numel, "testShape": test_shape}


# ------------------------------------------------------------------ B3: what is detached under detach_test_caches

class ExecD(g7.Exec):
    """g7_exact_algebra's executor, with `.detach()` kept in the expression (`("detach", e)`) instead of dropped."""

    def method(self, recv, name, args, kw, st, e, k):
        if name == "detach" and not args:
            return k(_mark(recv), st)
        return super().method(recv, name, args, kw, st, e, k)


def _mark(v):
    if isinstance(v, g7.M):
        return v.like(("detach", v.e))
    if isinstance(v, g7.Scatter):
        return g7.Scatter(_mark(v.x))
    if isinstance(v, g7.SetNan):
        return g7.SetNan(_mark(v.a))
    return v


def _top_detached(v):
    e = v.e if isinstance(v, g7.M) else v.x.e if isinstance(v, g7.Scatter) else v.a.e if isinstance(v, g7.SetNan) else None
    if e is None:
        raise TranslateError("detach analysis: a cache that is not a tensor")
    return e[0] == "detach"


def _leaves(tree, acc):
    if tree[0] == "leaf":
        acc.append(tree[1])
    else:
        _leaves(tree[2], acc)
        _leaves(tree[3], acc)
    return acc


def detach_facts(cls):
    import sys
    if sys.getrecursionlimit() < 50000:
        sys.setrecursionlimit(50000)

    def run(method, args, policy=None):
        ex = ExecD(cls)
        st = g7.State()
        if policy:
            st.policy = {policy}
        return _leaves(ex.call_method(method, args, st, lambda v, s2: ("leaf", (dict(s2.known), v, list(s2.binds)))), [])

    def by_setting(leaves, pick):
        on = [pick(l) for l in leaves if l[0].get("detach", True) is True]
        off = [pick(l) for l in leaves if l[0].get("detach", False) is False]
        if not on or not off:
            raise TranslateError("detach analysis: no path for one of the two values of detach_test_caches")
        return all(on), any(off)

    out = {}
    for pol in ("ignore", "mask", "fill"):
        out["mean:" + pol] = by_setting(run("_mean_cache", [pol], pol), lambda l: _top_detached(l[1]))
    out["covar"] = by_setting(run("covar_cache", []), lambda l: _top_detached(l[1]))
    kts = g7.M(("var", "Kts"), g7.S, g7.N)
    ktt = g7.M(("var", "Ktt"), g7.S, g7.S)
    leaves = [l for l in run("exact_predictive_covar", [ktt, kts], "ignore")
              if l[0].get("fast") is False and l[0].get("skip") is False]
    if not leaves or any(len(l[2]) != 1 for l in leaves):
        raise TranslateError("detach analysis: the non-fast covariance path does not have exactly one solve")
    out["solve"] = by_setting(leaves, lambda l: l[2][0][1][0] == "detach")
    return out


# ------------------------------------------------------------------ emission

HEADER = '''/-
GENERATED by harness/translate/g7_exact_call.py from
  $VERIF_REPO/gpytorch/models/exact_gp.py                     (ExactGP.__call__)
  $VERIF_REPO/gpytorch/models/exact_prediction_strategies.py  (class DefaultPredictionStrategy)
Do not edit: regenerated on every `./check C01`.  A committed copy is the baseline.
-/
import GPVerif.Model.ExactCall
import GPVerif.Model.ExactGP

set_option linter.unusedVariables false

namespace Gen.ExactCall
open Bcast Bcast.T _root_.ExactCall

'''


def b(x):
    return "true" if x else "false"


def emit(tree, cat, mt, det):
    out = [HEADER]
    out.append("/-- `ExactGP.__call__`: which branch runs and how it ends. -/\n"
               "def callMode (c : CallCfg) : Outcome :=\n" + _emit_call_tree(tree, 1) + "\n\n")
    out.append("/-- The loop of the posterior branch that builds `full_inputs` (first input pair; tensors of rows, shapes\n"
               "innermost-first): `none` when `torch.broadcast_shapes` raises. -/\n"
               "def catInputs {α : Type} (train_input input : T α) : Option (T α) :=\n" + cat + "\n\n")
    out.append("/-- `DefaultPredictionStrategy.num_train`. -/\n"
               f"def numTrain (trainShape : List Nat) : Nat := {mt['numTrain']}\n\n")
    out.append("/-- `test_shape` of `ExactGP.__call__` (`jointShape` = `full_output.event_shape`, `trainShape` = the strategy's\n"
               "`train_shape`; `tasks_shape = joint_shape[1:]` inlined). -/\n"
               f"def testShape (jointShape trainShape : List Nat) : List Nat := {mt['testShape']}\n\n")
    out.append("/-- `train_labels.reshape(*batch, <numel>)` in `DefaultPredictionStrategy.__init__`, one batch element. -/\n"
               "def flattenLabels {α : Type} (y : T α) (trainShape : List Nat) : T α :=\n"
               f"  y.view (ofTorch [{mt['flatNumel']}])\n\n")
    out.append("/-- `test_mean = joint_mean[..., self.num_train:]` in `exact_prediction`. -/\n"
               "def testMean {α : Type} (mj : T α) (trainShape : List Nat) : T α := dropFirst mj (numTrain trainShape)\n\n")
    out.append("/-- `predictive_mean.view(*batch_shape, *test_shape)`, one batch element. -/\n"
               "def viewPredMean {α : Type} (m : T α) (jointShape trainShape : List Nat) : T α :=\n"
               "  m.view (ofTorch (testShape jointShape trainShape))\n\n")
    out.append("/-- Is the value returned by `_mean_cache(policy)` a `.detach()`ed tensor, under `detach_test_caches` on / off? -/\n"
               "def meanCacheDetached (p : ExactGP.Policy) (settingOn : Bool) : Bool :=\n"
               "  match p, settingOn with\n" +
               "".join(f"  | .{pol}, true => {b(det['mean:' + pol][0])}\n  | .{pol}, false => {b(det['mean:' + pol][1])}\n"
                       for pol in ("ignore", "mask", "fill")) + "\n")
    out.append("/-- … the value returned by `covar_cache`? -/\n"
               f"def covarCacheDetached (settingOn : Bool) : Bool := if settingOn then {b(det['covar'][0])} else {b(det['covar'][1])}\n\n")
    out.append("/-- … the train-train operator that `exact_predictive_covar` solves with on the non-fast path? -/\n"
               f"def solveOperandDetached (settingOn : Bool) : Bool := if settingOn then {b(det['solve'][0])} else {b(det['solve'][1])}\n\n")
    out.append("end Gen.ExactCall\n")
    return "".join(out)


def generate(repo, out_path):
    fn = _exact_gp_call(repo)
    cls = g7._parse_cls(repo)
    tree = call_mode(fn)
    cat = cat_inputs(fn)
    mt = multitask(fn, cls)
    det = detach_facts(cls)
    text = emit(tree, cat, mt, det)
    changed = g7._write(out_path, text)
    return {"changed": changed, "detach": {k: list(v) for k, v in det.items()}, "multitask": mt}


if __name__ == "__main__":
    import sys
    sys.path.insert(0, os.path.join(os.path.dirname(os.path.abspath(__file__)), ".."))
    repo = sys.argv[1] if len(sys.argv) > 1 else "/repo"
    out = sys.argv[2] if len(sys.argv) > 2 else os.path.join(os.path.dirname(os.path.abspath(__file__)),
                                                            "../../lean/GPVerif/Gen/ExactCall.lean")
    print(generate(repo, os.path.abspath(out)))

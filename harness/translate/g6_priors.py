"""G6: Python AST of gpytorch/priors/smoothed_box_prior.py and horseshoe_prior.py -> lean/GPVerif/Gen/Priors.lean

The two prior classes whose log density is written in /repo (the torch_priors.py classes inherit `log_prob` from
torch.distributions, outside /repo; their densities are modelled by hand in Model/Priors.lean).
  * SmoothedBoxPrior: properties `_c`, `_r`, `_M`, method `_log_prob` (one coordinate; `.sum(-1)` runs over the event
    dimension), `log_prob = _log_prob(transform(x))`, `tails = NormalPrior(zeros_like(a), sigma)`;
  * HorseshoePrior: `K`, `log_prob`.
Out-of-vocabulary constructs raise TranslateError.
"""
import ast
import os

from .g5_constraints import TranslateError, _bad, _src, _write, emit, lean_num


def _cls(tree, name):
    for n in tree.body:
        if isinstance(n, ast.ClassDef) and n.name == name:
            return n
    raise TranslateError(f"class {name} not found")


def _fn(cls, name):
    for n in cls.body:
        if isinstance(n, ast.FunctionDef) and n.name == name:
            return n
    raise TranslateError(f"{cls.name}.{name} not found")


class Ex:
    def __init__(self, cls, fields):
        self.cls = cls
        self.fields = fields      # self.<attr> -> IR

    def prop(self, name):
        fn = _fn(self.cls, name)
        if not any(_src(d) == "property" for d in fn.decorator_list):
            _bad(fn, "not a property")
        body = [s for s in fn.body if not (isinstance(s, ast.Expr) and isinstance(s.value, ast.Constant))]
        if len(body) != 1 or not isinstance(body[0], ast.Return):
            _bad(fn, "property body outside vocabulary")
        return self.expr(body[0].value, {})

    def expr(self, node, env):
        if isinstance(node, ast.Constant):
            return lean_num(node.value)
        if isinstance(node, ast.Name):
            if node.id in env:
                return env[node.id]
            _bad(node, "unknown variable")
        if isinstance(node, ast.UnaryOp) and isinstance(node.op, ast.USub):
            return ("neg", self.expr(node.operand, env))
        if isinstance(node, ast.BinOp):
            ops = {ast.Add: "+", ast.Sub: "-", ast.Mult: "*", ast.Div: "/"}
            if type(node.op) in ops:
                return ("bin", ops[type(node.op)], self.expr(node.left, env), self.expr(node.right, env))
            if isinstance(node.op, ast.Pow) and isinstance(node.right, ast.Constant) and node.right.value in (2, 3):
                b = self.expr(node.left, env)
                out = b
                for _ in range(node.right.value - 1):
                    out = ("bin", "*", out, b)
                return out
            _bad(node, "operator outside vocabulary")
        if isinstance(node, ast.Attribute):
            s = _src(node)
            if s == "math.pi":
                return ("pi",)
            if isinstance(node.value, ast.Name) and node.value.id == "self":
                if node.attr in self.fields:
                    return self.fields[node.attr]
                return self.prop(node.attr)
            _bad(node, "attribute outside vocabulary")
        if isinstance(node, ast.Call):
            f = _src(node.func)
            a = node.args
            if node.keywords and not (f.endswith(".clamp") and [k.arg for k in node.keywords] == ["min"]):
                _bad(node, "keyword arguments outside vocabulary")
            if f in ("math.sqrt", "torch.sqrt") and len(a) == 1:
                return ("app", "TransFn.sqrt", self.expr(a[0], env))
            if f in ("math.log", "torch.log") and len(a) == 1:
                return ("app", "TransFn.log", self.expr(a[0], env))
            if f == "self.transform" and len(a) == 1:
                return self.expr(a[0], env)          # Prior.transform is the identity unless a transform was given
            if f == "self.tails.log_prob" and len(a) == 1 and "tails" in self.fields:
                return ("app3", self.fields["tails"], self.expr(a[0], env))
            if isinstance(node.func, ast.Attribute):
                recv = self.expr(node.func.value, env)
                m = node.func.attr
                if m in ("abs", "abs_") and not a:
                    return ("app", "TransFn.abs", recv)
                if m == "clamp" and not a and len(node.keywords) == 1:
                    return ("app2", "max", recv, self.expr(node.keywords[0].value, env))
                if m == "sum" and len(a) == 1 and _src(a[0]) == "-1":
                    return recv                        # sum over the event dimension: identity per coordinate
            _bad(node, "call outside vocabulary")
        _bad(node, "expression outside vocabulary")

    def body(self, fn, env):
        for st in fn.body:
            if isinstance(st, ast.Expr) and isinstance(st.value, ast.Constant):
                continue
            if isinstance(st, ast.Assign) and isinstance(st.targets[0], ast.Name):
                if st.value.__class__ is ast.Constant and isinstance(st.value.value, str):
                    continue
                env[st.targets[0].id] = self.expr(st.value, env)
                continue
            if isinstance(st, ast.Return):
                return self.expr(st.value, env)
            _bad(st, "statement outside vocabulary")
        _bad(fn, "no return")


class ExVec:
    """`_log_prob` of a prior with SCALAR hyper-parameters (shape [1] after `view(-1)`) evaluated on a value with `d`
    trailing elements.  Every sub-expression carries its extent along the event dimension:
      'param'  — built from hyper-parameters only (extent 1),
      'value'  — depends on `x` (extent d, hyper-parameters broadcast),
      'total'  — after `.sum(-1)` (no event dimension).
    `.sum(-1)` of a 'value' expression is the sum of the per-coordinate expression over the d coordinates; of a 'param'
    expression it is the expression itself (ONE copy).  Returns IR over the variable x, with ('sumv', e) nodes."""

    def __init__(self, ex, xname):
        self.ex = ex
        self.xname = xname

    def kind(self, node, env):
        """(extent, IR)"""
        if isinstance(node, ast.Name) and node.id in env:
            return env[node.id]
        if isinstance(node, ast.Constant):
            return ("param", lean_num(node.value))
        if isinstance(node, ast.UnaryOp) and isinstance(node.op, ast.USub):
            k, e = self.kind(node.operand, env)
            return (k, ("neg", e))
        if isinstance(node, ast.BinOp):
            ops = {ast.Add: "+", ast.Sub: "-", ast.Mult: "*", ast.Div: "/"}
            if type(node.op) not in ops:
                _bad(node, "operator outside vocabulary (vector form)")
            (k1, e1), (k2, e2) = self.kind(node.left, env), self.kind(node.right, env)
            ks = {k1, k2}
            if ks <= {"param"}:
                k = "param"
            elif ks <= {"param", "value"}:
                k = "value"
            elif ks <= {"total", "param"} and "total" in ks:
                k = "total"       # a reduced quantity combined with an extent-1 quantity: one copy
            else:
                _bad(node, "mixing reduced and unreduced quantities outside vocabulary")
            return (k, ("bin", ops[type(node.op)], e1, e2))
        if isinstance(node, ast.Attribute) and isinstance(node.value, ast.Name) and node.value.id == "self":
            return ("param", self.ex.expr(node, {}))
        if isinstance(node, ast.Call):
            f = _src(node.func)
            a = node.args
            if f == "self.tails.log_prob" and len(a) == 1:
                k, e = self.kind(a[0], env)
                return (k, ("app3", self.ex.fields["tails"], e))
            if isinstance(node.func, ast.Attribute):
                m = node.func.attr
                k, e = self.kind(node.func.value, env)
                if m in ("abs", "abs_") and not a:
                    return (k, ("app", "TransFn.abs", e))
                if m == "clamp" and not a and [kw.arg for kw in node.keywords] == ["min"]:
                    return (k, ("app2", "max", e, self.ex.expr(node.keywords[0].value, {})))
                if m == "sum" and len(a) == 1 and _src(a[0]) == "-1" and not node.keywords:
                    if k == "value":
                        return ("total", ("sumv", e))
                    if k == "param":
                        return ("total", e)
                    _bad(node, "sum(-1) of an already reduced quantity")
            _bad(node, "call outside vocabulary (vector form)")
        _bad(node, "expression outside vocabulary (vector form)")

    def body(self, fn):
        env = {self.xname: ("value", ("var", "x"))}
        for st in fn.body:
            if isinstance(st, ast.Expr) and isinstance(st.value, ast.Constant):
                continue
            if isinstance(st, ast.Assign) and isinstance(st.targets[0], ast.Name):
                env[st.targets[0].id] = self.kind(st.value, env)
                continue
            if isinstance(st, ast.Return):
                k, e = self.kind(st.value, env)
                if k != "total":
                    _bad(st, "the returned log density is not reduced over the event dimension")
                return e
            _bad(st, "statement outside vocabulary (vector form)")
        _bad(fn, "no return")


def emit_p(e):
    if isinstance(e, tuple) and e[0] == "sumv":
        return f"(xs.foldl (fun acc x => acc + {emit_p(e[1])}) ((0 : Nat) : α))"
    if isinstance(e, tuple) and e[0] == "app3":
        mu, sg = e[1]
        return f"(Priors.normalLogProb {emit_p(mu)} {emit_p(sg)} {emit_p(e[2])})"
    if isinstance(e, tuple) and e[0] == "neg":
        return f"(-{emit_p(e[1])})"
    if isinstance(e, tuple) and e[0] == "bin":
        return f"({emit_p(e[2])} {e[1]} {emit_p(e[3])})"
    if isinstance(e, tuple) and e[0] == "app":
        return f"({e[1]} {emit_p(e[2])})"
    if isinstance(e, tuple) and e[0] == "app2":
        return f"({e[1]} {emit_p(e[2])} {emit_p(e[3])})"
    return emit(e)


def generate(repo, out_path):
    L = []
    A = L.append
    A("/-")
    A("GENERATED by harness/translate/g6_priors.py from gpytorch/priors/smoothed_box_prior.py and horseshoe_prior.py")
    A("— do not edit.  One coordinate of the log density of the two prior classes implemented in /repo.")
    A("-/")
    A("import GPVerif.Model.Priors")
    A("")
    A("set_option linter.unusedVariables false")
    A("")
    A("namespace Gen.Priors")
    A("")
    A("variable {α : Type} [Add α] [Sub α] [Mul α] [Div α] [Neg α] [NatCast α] [OfScientific α] [TransFn α] [Max α]")
    A("")
    # ---- smoothed box
    src = open(os.path.join(repo, "gpytorch/priors/smoothed_box_prior.py")).read()
    c = _cls(ast.parse(src), "SmoothedBoxPrior")
    init = _src(_fn(c, "__init__"))
    if "self.tails = NormalPrior(torch.zeros_like(_a), _sigma, validate_args=validate_args)" not in init:
        raise TranslateError("SmoothedBoxPrior.__init__: tails is not NormalPrior(zeros_like(a), sigma)")
    for buf, var in (("a", "_a"), ("b", "_b")):
        if f"self.register_buffer('{buf}', {var})" not in init and f"self.register_buffer('{buf}', {var}.clone())" not in init:
            raise TranslateError(f"SmoothedBoxPrior.__init__: buffer {buf} is not registered from {var}")
    if "self.register_buffer('sigma', _sigma.clone())" not in init:
        raise TranslateError("SmoothedBoxPrior.__init__: buffer sigma outside vocabulary")
    lp = _fn(c, "log_prob")
    if [_src(s) for s in lp.body if not isinstance(getattr(s, "value", None), ast.Constant)] != ["return self._log_prob(self.transform(x))"]:
        raise TranslateError("SmoothedBoxPrior.log_prob is not _log_prob(transform(x))")
    ex = Ex(c, {"a": ("var", "a"), "b": ("var", "b"), "sigma": ("var", "σ"), "tails": (("nat", 0), ("var", "σ"))})
    A("/-- `SmoothedBoxPrior._c`, `._r`, `._M` -/")
    A(f"def smoothedBoxC (a b : α) : α := {emit_p(ex.prop('_c'))}")
    A(f"def smoothedBoxR (a b : α) : α := {emit_p(ex.prop('_r'))}")
    A(f"def smoothedBoxM (a b σ : α) : α := {emit_p(ex.prop('_M'))}")
    body = ex.body(_fn(c, "_log_prob"), {"x": ("var", "x")})
    A("/-- `SmoothedBoxPrior._log_prob`, one coordinate (`tails = Normal(0, σ)`) -/")
    A(f"def smoothedBoxLogProb (a b σ x : α) : α := {emit_p(body)}")
    vbody = ExVec(ex, "x").body(_fn(c, "_log_prob"))
    A("/-- `SmoothedBoxPrior._log_prob` of a box with SCALAR `a, b, σ` on a value with trailing elements `xs` (the hyper-")
    A("parameters broadcast; `.sum(-1)` of a quantity that depends on `x` adds the coordinates, of one that does not is ONE copy) -/")
    A(f"def smoothedBoxLogProbVec (a b σ : α) (xs : List α) : α := {emit_p(vbody)}")
    A("")
    # ---- horseshoe
    src = open(os.path.join(repo, "gpytorch/priors/horseshoe_prior.py")).read()
    c = _cls(ast.parse(src), "HorseshoePrior")
    kdef = [s for s in _fn(c, "__init__").body if isinstance(s, ast.Assign) and _src(s.targets[0]) == "self.K"]
    if len(kdef) != 1:
        raise TranslateError("HorseshoePrior.__init__: self.K not found")
    ex = Ex(c, {"scale": ("var", "s")})
    K = ex.expr(kdef[0].value, {})
    ex.fields["K"] = K
    body = ex.body(_fn(c, "log_prob"), {"X": ("var", "x")})
    A("/-- `HorseshoePrior.log_prob` (`K = 1/√(2π³)`) -/")
    A(f"def horseshoeLogProb (s x : α) : α := {emit_p(body)}")
    A("")
    A("end Gen.Priors")
    return _write(out_path, "\n".join(L) + "\n")


if __name__ == "__main__":
    import sys
    repo = sys.argv[1] if len(sys.argv) > 1 else "/repo"
    print(generate(repo, os.path.abspath(os.path.join(os.path.dirname(os.path.abspath(__file__)), "../../lean/GPVerif/Gen/Priors.lean"))))

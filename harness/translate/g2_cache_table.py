"""G2 — the cache-invalidation table of gpytorch, from the Python AST of $VERIF_REPO to Lean data.

Output: lean/GPVerif/Gen/CacheTable.lean  (`Gen.CacheTable.table : CacheSM.Table`).

For every cache-bearing class of the vocabulary (ExactGP, the prediction strategies, the variational
strategies, InducingPointKernel, GridKernel / GridInterpolationKernel, Module) the translator extracts
  * the `@cached(name=…, ignore_args=…)` names visible on instances (through the MRO) and whether the
    computing method registers `clear_cache_hook(self)` on the result's grad_fn,
  * the `self._cached_*` attribute caches of kernels with their `not self.training` guards,
  * the statements of the `_clear_cache` the class resolves to,
and for the public operations which clearing statement they reach: `Module.train` (guard as a Boolean
function of (self.training, mode)), `Module._load_from_state_dict`, `ExactGP.set_train_data`,
`_VariationalStrategy.__call__` (guard over (self.training, prior)), the creation site of the prediction
strategy in `ExactGP.__call__`, the save / None / restore protocol of `ExactGP.get_fantasy_model`, the
path condition (over fast_pred_var, skip_posterior_variances, observation_nan_policy != "ignore") under which
`exact_predictive_covar` reads `covar_cache`, and the key discipline of
utils/memoize.py.

Anything outside this vocabulary raises TranslateError (a broken tie; never skipped silently).  A clearing
statement that is simply *absent* is not out of vocabulary: it is translated to `false` / `[]` and it is the
Lean proof about the table that then fails.
"""
import ast
import os

SLOTS = ["prediction_strategy", "mean_cache", "covar_cache", "interp_inner_prod", "interp_response_cache",
         "fantasy_mean_cache", "fantasy_covar_cache", "cholesky_factor", "prior_distribution_memo",
         "variational_distribution_memo", "pseudo_points_memo", "amortized_exact_gp",
         "_cached_kernel_mat", "_cached_kernel_inv_root",
         "covar_cache[fast_pred_samples]", "fantasy_covar_cache[fast_pred_samples]",
         "mean_cache[mask]", "mean_cache[fill]"]
# memo names whose @cached method takes the nan policy as its argument (the key contains it) -> slots under mask / fill
NAN_SLOTS = {"mean_cache": (16, 17)}
NAN_POLICY_SRC = "settings.observation_nan_policy.value()"
# memo names whose value has two representations -> slot of the representation built with the selecting setting ON
VARIANT_SLOT = {"covar_cache": 14, "fantasy_covar_cache": 15}

# prediction-relevant settings (ids = bit positions of CacheSM.Cell.ofMask; must agree with CacheSM.settingNames)
SETTINGS = ["fast_pred_var", "fast_pred_samples", "lazily_evaluate_kernels", "max_cholesky_size", "detach_test_caches",
            "skip_posterior_variances", "max_eager_kernel_size", "trace_mode", "observation_nan_policy"]
# guard atoms of the access walker: settings.<name>.on()  ->  (atom, Lean expression over the cell `c`)
SETTING_ATOM = {"fast_pred_var": ("fpv", "c.fpv"), "fast_pred_samples": ("fps", "c.fps"),
                "lazily_evaluate_kernels": ("lazy", "(!c.eager)"), "detach_test_caches": ("detach", "(!c.keepGraph)"),
                "skip_posterior_variances": ("skip", "c.skip"), "trace_mode": ("trace", "c.trace")}
ATOM_LEAN = dict(list(SETTING_ATOM.values()) + [("wiski", "w"), ("nan", "c.nan")])
ATOM_SETTING = {a: n for n, (a, _) in SETTING_ATOM.items()}
STRATEGIES = ["DefaultPredictionStrategy", "InterpolatedPredictionStrategy", "RFFPredictionStrategy", "SGPRPredictionStrategy"]
MEMO_API = ("pop_from_cache", "add_to_cache", "get_from_cache")

# class name -> file (relative to the repo); order = class ids (must agree with CacheSM.classNames)
CLASSES = [
    ("Module", "gpytorch/module.py"),
    ("ExactGP", "gpytorch/models/exact_gp.py"),
    ("DefaultPredictionStrategy", "gpytorch/models/exact_prediction_strategies.py"),
    ("InterpolatedPredictionStrategy", "gpytorch/models/exact_prediction_strategies.py"),
    ("RFFPredictionStrategy", "gpytorch/models/exact_prediction_strategies.py"),
    ("SGPRPredictionStrategy", "gpytorch/models/exact_prediction_strategies.py"),
    ("_VariationalStrategy", "gpytorch/variational/_variational_strategy.py"),
    ("VariationalStrategy", "gpytorch/variational/variational_strategy.py"),
    ("UnwhitenedVariationalStrategy", "gpytorch/variational/unwhitened_variational_strategy.py"),
    ("InducingPointKernel", "gpytorch/kernels/inducing_point_kernel.py"),
    ("GridKernel", "gpytorch/kernels/grid_kernel.py"),
    ("GridInterpolationKernel", "gpytorch/kernels/grid_interpolation_kernel.py"),
]
# intermediate bases that are plain gpytorch.Module subclasses and must not interfere with the cache protocol
PASS_THROUGH = {"GP": "gpytorch/models/gp.py", "Kernel": "gpytorch/kernels/kernel.py"}
IGNORED_BASES = {"ABC", "object", "_PyroMixin"}
PROTOCOL_METHODS = ("train", "_clear_cache", "_load_from_state_dict", "load_state_dict", "eval")
FANTASY_ATTRS = ["prediction_strategy", "train_inputs", "train_targets", "likelihood"]


class TranslateError(Exception):
    pass


def _src(node):
    try:
        return ast.unparse(node)
    except Exception:
        return "<node>"


def is_self_attr(node, name=None):
    return (isinstance(node, ast.Attribute) and isinstance(node.value, ast.Name) and node.value.id == "self"
            and (name is None or node.attr == name))


def is_docstring(st):
    return isinstance(st, ast.Expr) and isinstance(st.value, ast.Constant) and isinstance(st.value.value, str)


def is_self_call(st, meth):
    """`self.meth()` as an expression statement"""
    return (isinstance(st, ast.Expr) and isinstance(st.value, ast.Call) and is_self_attr(st.value.func, meth)
            and not st.value.args and not st.value.keywords)


def ends_in_return(body):
    """every path through `body` leaves the function"""
    if not body:
        return False
    last = body[-1]
    if isinstance(last, (ast.Return, ast.Raise)):
        return True
    if isinstance(last, ast.If) and last.orelse:
        return ends_in_return(last.body) and ends_in_return(last.orelse)
    return False


class BoolExpr:
    """Boolean guards over a fixed set of atoms -> Lean `Bool` expression."""

    def __init__(self, atoms):
        self.atoms = atoms  # function node -> lean variable name | ("not", name) | None

    def tr(self, node):
        if isinstance(node, ast.BoolOp):
            op = " && " if isinstance(node.op, ast.And) else " || "
            return "(" + op.join(self.tr(v) for v in node.values) + ")"
        if isinstance(node, ast.UnaryOp) and isinstance(node.op, ast.Not):
            return "(!" + self.tr(node.operand) + ")"
        a = self.atoms(node)
        if a is None:
            raise TranslateError(f"guard outside the vocabulary: `{_src(node)}`")
        return a


class Source:
    def __init__(self, repo):
        self.repo = repo
        self.trees = {}
        self.classes = {}
        for name, f in CLASSES:
            self.classes[name] = self.find_class(f, name)
        for name, f in PASS_THROUGH.items():
            cd = self.find_class(f, name)
            bases = [b.id for b in cd.bases if isinstance(b, ast.Name)]
            if "Module" not in bases:
                raise TranslateError(f"{name} is expected to derive from gpytorch.Module directly, bases are {bases}")
            for st in cd.body:
                if isinstance(st, ast.FunctionDef) and st.name in PROTOCOL_METHODS:
                    raise TranslateError(f"{name}.{st.name} overrides the cache protocol (not in the vocabulary)")

    def tree(self, f):
        if f not in self.trees:
            p = os.path.join(self.repo, f)
            if not os.path.exists(p):
                raise TranslateError(f"source file moved: {f}")
            self.trees[f] = ast.parse(open(p).read(), filename=p)
        return self.trees[f]

    def find_class(self, f, name):
        for st in self.tree(f).body:
            if isinstance(st, ast.ClassDef) and st.name == name:
                return st
        raise TranslateError(f"class {name} not found in {f}")

    def find_func(self, f, name):
        for st in self.tree(f).body:
            if isinstance(st, ast.FunctionDef) and st.name == name:
                return st
        raise TranslateError(f"function {name} not found in {f}")

    def bases(self, name):
        """(vocabulary bases, is Module subclass through a pass-through base)"""
        out, through = [], False
        if name == "Module":   # derives from torch's nn.Module (outside the package)
            return out, through
        for b in self.classes[name].bases:
            bn = b.id if isinstance(b, ast.Name) else (b.attr if isinstance(b, ast.Attribute) else None)
            if bn in self.classes:
                out.append(bn)
            elif bn in PASS_THROUGH:
                through = True
                out.append("Module")
            elif bn in IGNORED_BASES:
                pass
            else:
                raise TranslateError(f"base class {bn!r} of {name} is outside the vocabulary")
        return out, through

    def mro(self, name):
        out = [name]
        for b in self.bases(name)[0]:
            for x in self.mro(b):
                if x not in out:
                    out.append(x)
        return out

    def methods(self, name):
        return {st.name: st for st in self.classes[name].body if isinstance(st, ast.FunctionDef)}

    def resolve(self, cls, meth):
        """nearest definition of `meth` on instances of `cls` -> (defining class, node) | None"""
        for c in self.mro(cls):
            m = self.methods(c)
            if meth in m:
                return c, m[meth]
        return None


def cached_decorator(fn):
    """-> (name, ignore_args) if the function carries @cached(...)"""
    for d in fn.decorator_list:
        if isinstance(d, ast.Name) and d.id == "cached":
            raise TranslateError(f"bare @cached on {fn.name}: the memo name is the function object (not in the vocabulary)")
        if isinstance(d, ast.Call) and isinstance(d.func, ast.Name) and d.func.id == "cached":
            name, ign = None, False
            for kw in d.keywords:
                if kw.arg == "name" and isinstance(kw.value, ast.Constant) and isinstance(kw.value.value, str):
                    name = kw.value.value
                elif kw.arg == "ignore_args" and isinstance(kw.value, ast.Constant):
                    ign = bool(kw.value.value)
                else:
                    raise TranslateError(f"@cached argument outside the vocabulary on {fn.name}: {_src(d)}")
            if d.args or name is None:
                raise TranslateError(f"@cached without a literal name on {fn.name}")
            return name, ign
    return None


def registers_hook(fn):
    """Does the body contain `X.grad_fn.register_hook(w)` with `w = functools.partial(clear_cache_hook, self)`?"""
    partial_of_self = set()
    found = False
    for node in ast.walk(fn):
        if isinstance(node, ast.Assign) and isinstance(node.value, ast.Call):
            c = node.value
            if (isinstance(c.func, ast.Attribute) and c.func.attr == "partial" and len(c.args) == 2
                    and isinstance(c.args[0], ast.Name) and c.args[0].id == "clear_cache_hook"):
                if not (isinstance(c.args[1], ast.Name) and c.args[1].id == "self"):
                    raise TranslateError(f"{fn.name}: clear_cache_hook bound to `{_src(c.args[1])}`, expected `self`")
                for t in node.targets:
                    if isinstance(t, ast.Name):
                        partial_of_self.add(t.id)
    for node in ast.walk(fn):
        if (isinstance(node, ast.Call) and isinstance(node.func, ast.Attribute) and node.func.attr == "register_hook"):
            tgt = node.func.value
            if not (isinstance(tgt, ast.Attribute) and tgt.attr == "grad_fn"):
                raise TranslateError(f"{fn.name}: register_hook on `{_src(tgt)}` (expected a grad_fn)")
            if not (len(node.args) == 1 and isinstance(node.args[0], ast.Name) and node.args[0].id in partial_of_self):
                raise TranslateError(f"{fn.name}: hook `{_src(node)}` is not a partial of clear_cache_hook")
            found = True
    return found


def self_calls(fn):
    out = []
    for node in ast.walk(fn):
        if isinstance(node, ast.Call) and is_self_attr(node.func):
            out.append(node.func.attr)
        elif is_self_attr(node):
            out.append(node.attr)
    return out


# ------------------------------------------------------------------------------------------ access walker
#
# Derives what a method of a prediction strategy (`exact_prediction`, `get_fantasy_strategy`) does to the memo table
# of `self`, as a decision tree over settings guards:
#
#   tree ::= ("ops", (op, …), tree) | ("if", guard, tree, tree) | ("end",) | ("raise",)
#   op   ::= ("read", name) | ("pop", name) | ("revalidate", name) | ("born", name)
#   guard ::= ("atom", a) | ("not", g) | ("and", (g, …)) | ("or", (g, …))
#
# The walk follows the statements in order (continuation passing), inlines un-cached methods / properties of `self`
# resolved through the MRO of the strategy class (`super(…).m(…)` = next definition after the calling class), turns
# `self.<@cached name>` into a read, recognises guards over the settings atoms (directly or through a local bound to
# one), `self.uses_wiski` and `nan_policy != "ignore"`; every other test is a *data guard*: both branches are
# walked and must do the same to the memo table (a `raise` branch is ignored), otherwise TranslateError.

END, RAISE = ("end",), ("raise",)


def mk_ops(ops, nxt):
    ops = tuple(ops)
    if not ops:
        return nxt
    if nxt[0] == "ops":
        return ("ops", ops + nxt[1], nxt[2])
    return ("ops", ops, nxt)


def mk_if(g, a, b):
    return a if a == b else ("if", g, a, b)


def g_not(g):
    return g[1] if g[0] == "not" else ("not", g)


def render_guard(g):
    if g[0] == "atom":
        return ATOM_LEAN[g[1]]
    if g[0] == "not":
        return "(!" + render_guard(g[1]) + ")"
    return "(" + (" && " if g[0] == "and" else " || ").join(render_guard(x) for x in g[1]) + ")"


def guard_atoms(g):
    if g[0] == "atom":
        return {g[1]}
    if g[0] == "not":
        return guard_atoms(g[1])
    return set().union(*[guard_atoms(x) for x in g[1]])


def tree_ops(t):
    """every op anywhere in the tree, in walk order"""
    if t[0] == "ops":
        return list(t[1]) + tree_ops(t[2])
    if t[0] == "if":
        return tree_ops(t[2]) + [o for o in tree_ops(t[3])]
    return []


def is_settings_call(node, attrs=("on", "off")):
    """`settings.<name>.<attr>()` -> (name, attr)"""
    if (isinstance(node, ast.Call) and not node.args and not node.keywords and isinstance(node.func, ast.Attribute)
            and node.func.attr in attrs and isinstance(node.func.value, ast.Attribute)
            and isinstance(node.func.value.value, ast.Name) and node.func.value.value.id == "settings"):
        return node.func.value.attr, node.func.attr
    return None


def is_property(fn):
    return any(isinstance(d, ast.Name) and d.id == "property" for d in fn.decorator_list)


def is_super_call(f):
    """`super().m` / `super(C, self).m` -> (C | None, m)"""
    if (isinstance(f, ast.Attribute) and isinstance(f.value, ast.Call) and isinstance(f.value.func, ast.Name)
            and f.value.func.id == "super"):
        a = f.value.args
        if not a:
            return None, f.attr
        if len(a) == 2 and isinstance(a[0], ast.Name) and isinstance(a[1], ast.Name) and a[1].id == "self":
            return a[0].id, f.attr
        raise TranslateError(f"super call outside the vocabulary: `{_src(f)}`")
    return False


class Walker:
    def __init__(self, src, cls):
        self.src, self.cls = src, cls

    # ---- resolution
    def lookup(self, name, after=None):
        mro = self.src.mro(self.cls)
        if after is not None:
            if after not in mro:
                raise TranslateError(f"super({after}, self) on an instance of {self.cls}")
            mro = mro[mro.index(after) + 1:]
        for c in mro:
            m = self.src.methods(c)
            if name in m:
                return c, m[name]
        return None

    def touches_memo(self, node):
        """does the node (syntactically) reach the memo table of `self`?"""
        for n in ast.walk(node):
            if is_self_attr(n) and self.lookup(n.attr) is not None:
                return True
            if isinstance(n, ast.Name) and n.id in MEMO_API + ("super",):
                return True
        return False

    # ---- guards
    def guard(self, node, env):
        """settings guard -> guard tuple; data guard -> None"""
        if isinstance(node, ast.Name) and env.get(node.id, (None,))[0] == "guard":
            return env[node.id][1]
        sc = is_settings_call(node)
        if sc is not None:
            name, attr = sc
            if name not in SETTING_ATOM:
                raise TranslateError(f"guard on a setting outside the vocabulary: `{_src(node)}`")
            g = ("atom", SETTING_ATOM[name][0])
            return g if attr == "on" else ("not", g)
        if is_self_attr(node, "uses_wiski"):
            return ("atom", "wiski")
        if (isinstance(node, ast.Compare) and len(node.ops) == 1 and isinstance(node.left, ast.Name)
                and env.get(node.left.id, (None,))[0] == "nan" and isinstance(node.comparators[0], ast.Constant)):
            if node.comparators[0].value == "ignore":
                if isinstance(node.ops[0], ast.NotEq):
                    return ("atom", "nan")
                if isinstance(node.ops[0], ast.Eq):
                    return ("not", ("atom", "nan"))
            return None      # which non-default policy: a data guard
        if isinstance(node, ast.UnaryOp) and isinstance(node.op, ast.Not):
            g = self.guard(node.operand, env)
            return None if g is None else g_not(g)
        if isinstance(node, ast.BoolOp):
            gs = [self.guard(v, env) for v in node.values]
            if all(g is None for g in gs):
                return None
            if any(g is None for g in gs):
                raise TranslateError(f"guard mixes settings and data: `{_src(node)}`")
            return ("and" if isinstance(node.op, ast.And) else "or", tuple(gs))
        return None

    def merge(self, a, b, where):
        if a == b or b == RAISE:
            return a
        if a == RAISE:
            return b
        raise TranslateError(f"memo access depends on a guard outside the vocabulary: `{where}`")

    def branch(self, test, env, frame, kthen, kelse):
        def k(env2):
            g = self.guard(test, env2)
            if g is not None:
                return mk_if(g, kthen(env2), kelse(env2))
            return self.merge(kthen(env2), kelse(env2), _src(test))
        return self.expr(test, env, frame, k)

    # ---- two-representation memo values
    def variant_of(self, fn):
        """`if settings.S.on(): … V = (e, None) else: … V = (None, e')`, `return V` -> (S, index used when S is on)"""
        body = [s for s in fn.body if not is_docstring(s)]
        if not body or not (isinstance(body[-1], ast.Return) and isinstance(body[-1].value, ast.Name)):
            return None
        v = body[-1].value.id

        def last_pair(stmts):
            out = None
            for st in stmts:
                if (isinstance(st, ast.Assign) and len(st.targets) == 1 and isinstance(st.targets[0], ast.Name)
                        and st.targets[0].id == v):
                    out = st.value
            if isinstance(out, ast.Tuple) and len(out.elts) == 2:
                nones = [isinstance(e, ast.Constant) and e.value is None for e in out.elts]
                if sum(nones) == 1:
                    return nones.index(False)
            return None
        for st in body:
            if isinstance(st, ast.If) and st.orelse:
                sc = is_settings_call(st.test)
                i, j = last_pair(st.body), last_pair(st.orelse)
                if sc is not None and i is not None and j is not None and i != j:
                    name, attr = sc
                    if name not in SETTINGS:
                        raise TranslateError(f"{fn.name}: representation selected by `{name}` (outside the vocabulary)")
                    return (name, i) if attr == "on" else (name, j)
        return None

    def decl(self, memo_name):
        """(defining class, function) of the @cached method computing `memo_name` on instances of the class"""
        for c in self.src.mro(self.cls):
            for mname, fn in self.src.methods(c).items():
                cd = cached_decorator(fn)
                if cd is not None and cd[0] == memo_name and self.lookup(mname)[1] is fn:
                    return c, fn
        return None

    def variant(self, memo_name):
        d = self.decl(memo_name)
        return None if d is None else self.variant_of(d[1])

    def variant_mismatch(self, test, env):
        """`(s and X[i] is None) or (not s and X[j] is None)`, X a local holding `self.<two-representation memo>`
        -> memo name; something that looks like it but is not -> TranslateError; anything else -> None"""
        subs = [n for n in ast.walk(test) if isinstance(n, ast.Subscript) and isinstance(n.value, ast.Name)
                and env.get(n.value.id, (None,))[0] == "cached"]
        if not subs:
            return None
        name = env[subs[0].value.id][1]
        var = self.variant(name)
        bad = TranslateError(f"test on the cached `{name}` outside the vocabulary: `{_src(test)}`")
        if var is None or not (isinstance(test, ast.BoolOp) and isinstance(test.op, ast.Or) and len(test.values) == 2):
            raise bad
        setting, idx_on = var
        want = {(True, idx_on), (False, 1 - idx_on)}     # (setting on?, component that must not be None)
        got = set()
        for v in test.values:
            if not (isinstance(v, ast.BoolOp) and isinstance(v.op, ast.And) and len(v.values) == 2):
                raise bad
            g, cmp_ = self.guard(v.values[0], env), v.values[1]
            if not (isinstance(cmp_, ast.Compare) and len(cmp_.ops) == 1 and isinstance(cmp_.ops[0], ast.Is)
                    and isinstance(cmp_.comparators[0], ast.Constant) and cmp_.comparators[0].value is None
                    and isinstance(cmp_.left, ast.Subscript) and isinstance(cmp_.left.value, ast.Name)
                    and env.get(cmp_.left.value.id) == ("cached", name) and isinstance(cmp_.left.slice, ast.Constant)):
                raise bad
            atom = ("atom", SETTING_ATOM[setting][0])
            if g == atom:
                got.add((True, cmp_.left.slice.value))
            elif g == ("not", atom):
                got.add((False, cmp_.left.slice.value))
            else:
                raise bad
        if got != want:
            raise bad
        return name

    # ---- statements
    def block(self, stmts, env, frame, knext):
        if not stmts:
            return knext(env)
        st, rest = stmts[0], stmts[1:]

        def cont(env2):
            return self.block(rest, env2, frame, knext)
        if is_docstring(st) or isinstance(st, (ast.Pass, ast.Import, ast.ImportFrom)):
            return cont(env)
        if isinstance(st, ast.Return):
            return self.expr(st.value, env, frame, lambda e: frame["kret"]())
        if isinstance(st, ast.Raise):
            return RAISE
        if isinstance(st, ast.Expr):
            return self.expr(st.value, env, frame, cont)
        if isinstance(st, (ast.Assign, ast.AnnAssign, ast.AugAssign)):
            targets = st.targets if isinstance(st, ast.Assign) else [st.target]
            for t in targets:
                if isinstance(t, ast.Name) or is_self_attr(t):
                    continue
                if isinstance(t, (ast.Tuple, ast.List)) and all(isinstance(e, ast.Name) for e in t.elts):
                    continue
                if self.touches_memo(t):
                    raise TranslateError(f"assignment target outside the vocabulary: `{_src(st)}`")
            return self.expr(st.value, env, frame, lambda e: cont(self.bind(e, targets, st.value)))
        if isinstance(st, ast.If):
            vm = self.variant_mismatch(st.test, env)
            if vm is not None:
                x = [n for n in ast.walk(st.test) if isinstance(n, ast.Subscript)][0].value.id
                ok = (not st.orelse and len(st.body) == 2 and _src(st.body[0]) == f"pop_from_cache(self, '{vm}')"
                      and _src(st.body[1]) == f"{x} = self.{vm}")
                if not ok:
                    raise TranslateError(f"re-validation of `{vm}` is not `pop_from_cache(self, …); {x} = self.{vm}`")
                return mk_ops([("revalidate", vm)], cont(env))
            return self.branch(st.test, env, frame, lambda e: self.block(st.body, e, frame, cont),
                               lambda e: self.block(st.orelse, e, frame, cont))
        if self.touches_memo(st):
            raise TranslateError(f"statement outside the vocabulary of the access walker: `{_src(st)[:80]}`")
        return cont(env)

    def bind(self, env, targets, value):
        env = dict(env)
        for t in targets:
            for n in ast.walk(t):
                if isinstance(n, ast.Name):
                    env.pop(n.id, None)
        if len(targets) == 1 and isinstance(targets[0], ast.Name):
            name = targets[0].id
            g = self.guard(value, env) if isinstance(value, (ast.Call, ast.Name, ast.UnaryOp)) else None
            if g is not None:
                env[name] = ("guard", g)
            elif _src(value) == "settings.observation_nan_policy.value()":
                env[name] = ("nan",)
            elif is_self_attr(value):
                r = self.lookup(value.attr)
                cd = cached_decorator(r[1]) if r is not None else None
                if cd is not None:
                    env[name] = ("cached", cd[0])
            elif isinstance(value, ast.Call) and is_self_attr(value.func, "__class__"):
                env[name] = ("newstrat",)
        return env

    # ---- expressions (evaluation order, continuation passing)
    def seq(self, nodes, env, frame, k):
        if not nodes:
            return k(env)
        return self.expr(nodes[0], env, frame, lambda e: self.seq(nodes[1:], e, frame, k))

    def expr(self, node, env, frame, k):
        if node is None or not self.touches_memo(node):
            return k(env)
        if isinstance(node, ast.IfExp):
            return self.branch(node.test, env, frame, lambda e: self.expr(node.body, e, frame, k),
                               lambda e: self.expr(node.orelse, e, frame, k))
        if isinstance(node, ast.BoolOp):
            if any(self.touches_memo(v) for v in node.values[1:]):
                raise TranslateError(f"memo access under short-circuit evaluation: `{_src(node)}`")
            return self.expr(node.values[0], env, frame, k)
        if isinstance(node, (ast.Lambda, ast.ListComp, ast.SetComp, ast.DictComp, ast.GeneratorExp)):
            raise TranslateError(f"memo access inside a comprehension / lambda: `{_src(node)[:80]}`")
        if is_self_attr(node):
            r = self.lookup(node.attr)
            if r is None:
                return k(env)
            owner, fn = r
            cd = cached_decorator(fn)
            if cd is not None:
                return mk_ops([("read", cd[0])], k(env))
            if is_property(fn):
                return self.inline(owner, fn, [], env, frame, k)
            return k(env)
        if isinstance(node, ast.Call):
            f = node.func
            args = list(node.args) + [kw.value for kw in node.keywords]
            if isinstance(f, ast.Name) and f.id in MEMO_API:
                if not (len(node.args) >= 2 and isinstance(node.args[1], ast.Constant) and isinstance(node.args[1].value, str)):
                    raise TranslateError(f"memo call without a literal name: `{_src(node)}`")
                tgt, name = node.args[0], node.args[1].value
                if isinstance(tgt, ast.Name) and tgt.id == "self":
                    op = {"pop_from_cache": "pop", "get_from_cache": "read"}.get(f.id)
                    if op is None:
                        raise TranslateError(f"`{_src(node)[:80]}` on self during a prediction (outside the vocabulary)")
                elif isinstance(tgt, ast.Name) and env.get(tgt.id) == ("newstrat",) and f.id == "add_to_cache":
                    op = "born"
                else:
                    raise TranslateError(f"memo call on `{_src(tgt)}` (outside the vocabulary)")
                return self.seq(args[2:], env, frame, lambda e: mk_ops([(op, name)], k(e)))
            sup = is_super_call(f)
            if sup:
                after, m = sup
                r = self.lookup(m, after=after or frame["owner"])
                if r is None:
                    raise TranslateError(f"`{_src(f)}`: no definition further up the MRO of {self.cls}")
                return self.seq(args, env, frame, lambda e: self.inline(r[0], r[1], node.args, e, frame, k))
            if is_self_attr(f):
                r = self.lookup(f.attr)
                if r is None:
                    return self.seq(args, env, frame, k)
                owner, fn = r
                cd = cached_decorator(fn)
                if cd is not None:
                    op = ("read", cd[0])
                    if args and not cd[1]:
                        # the memo key contains the arguments: only `name[nan policy]` is in the vocabulary
                        a0 = args[0]
                        is_pol = len(args) == 1 and (_src(a0) == NAN_POLICY_SRC or
                                                     (isinstance(a0, ast.Name) and env.get(a0.id) == ("nan",)))
                        if not is_pol or cd[0] not in NAN_SLOTS:
                            raise TranslateError(f"memo key of `{cd[0]}` depends on `{_src(node)}` (outside the vocabulary)")
                        op = ("readpol", cd[0])
                    return self.seq(args, env, frame, lambda e: mk_ops([op], k(e)))
                if is_property(fn):      # calling the value of a property
                    return self.inline(owner, fn, [], env, frame, lambda e: self.seq(args, e, frame, k))
                return self.seq(args, env, frame, lambda e: self.inline(owner, fn, node.args, e, frame, k))
            head = [f.value] if isinstance(f, ast.Attribute) else ([] if isinstance(f, ast.Name) else [f])
            return self.seq(head + args, env, frame, k)
        kids = [c for c in ast.iter_child_nodes(node) if isinstance(c, ast.expr)]
        return self.seq(kids, env, frame, k)

    def inline(self, owner, fn, argnodes, env, frame, k):
        key = (owner, fn.name)
        stack = frame["stack"]
        if key in stack or len(stack) > 12:
            raise TranslateError(f"recursive / too deep inlining at {owner}.{fn.name}")
        params = [a.arg for a in fn.args.args][1:]
        new = {}
        for p_, a in zip(params, argnodes):
            if isinstance(a, ast.Name) and a.id in env:
                new[p_] = env[a.id]
        return self.block(fn.body, new, {"owner": owner, "stack": stack + (key,), "kret": lambda: k(env)}, lambda e: k(env))

    # ---- entry points
    def walk(self, method):
        r = self.lookup(method)
        if r is None:
            raise TranslateError(f"{self.cls}.{method} not found")
        return self.resolve(self.inline(r[0], r[1], [], {}, {"owner": None, "stack": ()}, lambda e: END), frozenset())

    def always_revalidated(self, ops, nxt, name):
        for o in ops:
            if o == ("revalidate", name):
                return True
            if o[1] == name:
                return False
        if nxt[0] == "ops":
            return self.always_revalidated(nxt[1], nxt[2], name)
        if nxt[0] == "if":
            rs = {self.always_revalidated((), b, name) for b in (nxt[2], nxt[3]) if b != RAISE}
            if len(rs) > 1:
                raise TranslateError(f"`{name}` is re-validated on some paths only (outside the vocabulary)")
            return rs.pop() if rs else False
        return False

    def resolve(self, t, seen):
        """reads of two-representation names -> ("readKeyed", name, setting, revalidated); repeated reads dropped"""
        if t[0] == "if":
            return mk_if(t[1], self.resolve(t[2], seen), self.resolve(t[3], seen))
        if t[0] != "ops":
            return t
        out = []
        for i, o in enumerate(t[1]):
            if o[0] == "revalidate":
                if o[1] not in seen:
                    raise TranslateError(f"re-validation of `{o[1]}` without a preceding read")
                continue
            if o[0] == "readpol":
                if (o[1], "pol") in seen:
                    continue
                seen = seen | {(o[1], "pol")}
            elif o[0] == "read":
                if o[1] in seen:
                    continue
                seen = seen | {o[1]}
                var = self.variant(o[1])
                if var is not None:
                    if o[1] not in VARIANT_SLOT:
                        raise TranslateError(f"`{o[1]}` has two representations (outside the vocabulary)")
                    o = ("readKeyed", o[1], var[0], self.always_revalidated(t[1][i + 1:], t[2], o[1]))
            elif o[0] == "pop":
                seen = seen - {o[1]}
            out.append(o)
        return mk_ops(out, self.resolve(t[2], seen))


def render_tree(t, slot):
    """-> Lean term of type `List MemoOp` ("born" ops are not rendered here)"""
    if t[0] == "if":
        return f"(if {render_guard(t[1])} then {render_tree(t[2], slot)} else {render_tree(t[3], slot)})"
    if t[0] != "ops":
        return "[]"
    items = []
    for o in t[1]:
        if o[0] == "read":
            items.append(f".read {slot(o[1])}")
        elif o[0] == "readpol":
            m_, f_ = NAN_SLOTS[o[1]]
            items.append(f".read (if c.nanFill then {f_} else if c.nanMask then {m_} else {slot(o[1])})")
        elif o[0] == "readKeyed":
            s_on, s_off, g = VARIANT_SLOT[o[1]], slot(o[1]), SETTING_ATOM[o[2]][1]
            items.append(f".readKeyed (if {g} then {s_on} else {s_off}) (if {g} then {s_off} else {s_on}) {'true' if o[3] else 'false'}")
        elif o[0] == "pop":
            items.append(f".pop {slot(o[1])}")
            if o[1] in VARIANT_SLOT:
                items.append(f".pop {VARIANT_SLOT[o[1]]}")
    rest = render_tree(t[2], slot)
    lst = "[" + ", ".join(items) + "]"
    return lst if rest == "[]" else (rest if not items else f"({lst} ++ {rest})")


class Translator:
    def __init__(self, repo):
        self.src = Source(repo)
        self.table = {}

    # ---------------------------------------------------------------- per-class data
    def clear_cache_effects(self, cls):
        r = self.src.resolve(cls, "_clear_cache")
        if r is None:
            return []
        owner, fn = r
        effs = []
        for st in fn.body:
            if is_docstring(st) or isinstance(st, ast.Pass):
                continue
            if (isinstance(st, ast.Assign) and len(st.targets) == 1 and is_self_attr(st.targets[0], "prediction_strategy")
                    and isinstance(st.value, ast.Constant) and st.value.value is None):
                effs.append(("dropStrategy",))
                continue
            if (isinstance(st, ast.Expr) and isinstance(st.value, ast.Call) and isinstance(st.value.func, ast.Name)
                    and st.value.func.id == "clear_cache_hook" and len(st.value.args) == 1
                    and isinstance(st.value.args[0], ast.Name) and st.value.args[0].id == "self"):
                effs.append(("clearMemo",))
                continue
            if isinstance(st, ast.If) and not st.orelse and len(st.body) == 1 and isinstance(st.body[0], ast.Delete):
                t, d = st.test, st.body[0]
                if (isinstance(t, ast.Call) and isinstance(t.func, ast.Name) and t.func.id == "hasattr" and len(t.args) == 2
                        and isinstance(t.args[0], ast.Name) and t.args[0].id == "self" and isinstance(t.args[1], ast.Constant)
                        and len(d.targets) == 1 and is_self_attr(d.targets[0], t.args[1].value)):
                    effs.append(("delAttr", self.slot(t.args[1].value, f"{owner}._clear_cache")))
                    continue
            raise TranslateError(f"{owner}._clear_cache: statement outside the vocabulary: `{_src(st)}`")
        return effs

    def slot(self, name, where):
        if name not in SLOTS:
            raise TranslateError(f"{where}: cache name {name!r} is outside the vocabulary {SLOTS}")
        return SLOTS.index(name)

    def cached_decls(self, cls):
        """resolved @cached names on instances of cls -> list of dict(slot, ignore, hooked, owner, method)"""
        src = self.src
        by_name = {}
        for c in src.mro(cls):
            for mname, fn in src.methods(c).items():
                if src.resolve(cls, mname)[0] != c:
                    continue  # overridden nearer in the MRO
                cd = cached_decorator(fn)
                if cd is not None:
                    by_name.setdefault(cd[0], []).append((c, fn, cd[1]))
        out = []
        for name, cands in by_name.items():
            chosen = None
            entry = src.resolve(cls, name)          # what `self.<name>` finds
            if entry is not None:
                for c, fn, ign in cands:
                    if fn is entry[1]:
                        chosen = (c, fn, ign)
                if chosen is None:                  # uncached façade delegating to the cached method
                    called = self_calls(entry[1])
                    for c, fn, ign in cands:
                        if fn.name in called:
                            chosen = (c, fn, ign)
            if chosen is None:
                chosen = cands[0]
            c, fn, ign = chosen
            hooked = registers_hook(fn)
            if not hooked:
                for m in self_calls(fn):
                    r = src.resolve(cls, m)
                    if r is not None and r[1] is not fn and cached_decorator(r[1]) is None and registers_hook(r[1]):
                        hooked = True
            var, deps, body_settings = None, [], []
            if cls in STRATEGIES:
                w = Walker(src, cls)
                v = w.variant_of(fn)
                if v is not None:
                    if name not in VARIANT_SLOT:
                        raise TranslateError(f"{c}.{fn.name}: `{name}` has two representations (outside the vocabulary)")
                    var = SETTINGS.index(v[0])
                # other memo names the body reads, on any path
                body = w.block(fn.body, {}, {"owner": c, "stack": ((c, fn.name),), "kret": lambda: END}, lambda e: END)
                deps = sorted({self.slot(o[1], f"{c}.{fn.name}") for o in tree_ops(body) if o[0] in ("read", "readpol")})
                body_settings = sorted(self.body_settings(cls, fn, set()))
            out.append({"slot": self.slot(name, f"{c}.{fn.name}"), "name": name, "ignore": ign, "hooked": hooked,
                        "owner": c, "method": fn.name, "variantOn": var, "deps": deps, "bodySettings": body_settings})
        out.sort(key=lambda d: d["slot"])
        return out

    def body_settings(self, cls, fn, seen):
        """ids of the settings of the vocabulary that the body tests, following un-cached methods of self"""
        out = set()
        if id(fn) in seen:
            return out
        seen.add(id(fn))
        for n in ast.walk(fn):
            if (isinstance(n, ast.Attribute) and isinstance(n.value, ast.Attribute) and isinstance(n.value.value, ast.Name)
                    and n.value.value.id == "settings" and n.value.attr in SETTINGS):
                out.add(SETTINGS.index(n.value.attr))
            if is_self_attr(n):
                r = self.src.resolve(cls, n.attr)
                if r is not None and cached_decorator(r[1]) is None:
                    out |= self.body_settings(cls, r[1], seen)
        return out

    # ---------------------------------------------------------------- what a prediction reads / creates / pops
    def access(self):
        """-> (Lean `fun cls w nan c => …`, per-class trees)"""
        ids = [n for n, _ in CLASSES]
        trees, parts = {}, []
        for cls in STRATEGIES:
            w = Walker(self.src, cls)
            t = w.walk("exact_prediction")
            if any(o[0] == "born" for o in tree_ops(t)):
                raise TranslateError(f"{cls}.exact_prediction creates a strategy object (outside the vocabulary)")
            trees[cls] = t
            parts.append(f"if cls == {ids.index(cls)} then {render_tree(t, lambda n: self.slot(n, cls))}")
        return "fun cls w c =>\n      " + "\n      else ".join(parts) + "\n      else []", trees

    def fantasy_access(self):
        """-> (Lean `fun cls c => …` reads of get_fantasy_strategy, Lean `fun cls => …` names the new strategy is born with)"""
        ids = [n for n, _ in CLASSES]
        reads, born, trees = [], [], {}
        for cls in STRATEGIES:
            w = Walker(self.src, cls)
            t = w.walk("get_fantasy_strategy")
            trees[cls] = t
            names = []
            for o in tree_ops(t):
                if o[0] == "born" and o[1] not in names:
                    names.append(o[1])

            def paths(t):
                if t[0] == "ops":
                    return [[o for o in t[1] if o[0] == "born"] + p for p in paths(t[2])]
                if t[0] == "if":
                    return paths(t[2]) + paths(t[3])
                return [[]] if t == END else []
            for p_ in paths(t):
                if [o[1] for o in p_] != names:
                    raise TranslateError(f"{cls}.get_fantasy_strategy: the new strategy's memo entries depend on the path")
            reads.append(f"if cls == {ids.index(cls)} then {render_tree(t, lambda n: self.slot(n, cls))}")
            born.append(f"if cls == {ids.index(cls)} then [{', '.join(str(self.slot(n, cls)) for n in names)}]")
        return ("fun cls c =>\n      " + "\n      else ".join(reads) + "\n      else []",
                "fun cls =>\n      " + "\n      else ".join(born) + "\n      else []", trees)

    def inst_attrs(self):
        """attributes `self.x` assigned outside `__init__` by the prediction / variational strategies: state outside
        `_memoize_cache`.  -> list of dict(cls, name, known, selfGuarded, readBeforeWrite)"""
        ids = [n for n, _ in CLASSES]
        skip = ("__init__", "__deepcopy__", "__getstate__", "__setstate__", "_clear_cache")
        out = []
        for cls in STRATEGIES + ["_VariationalStrategy", "VariationalStrategy", "UnwhitenedVariationalStrategy"]:
            meths = {n: f for n, f in self.src.methods(cls).items() if n not in skip and not any(
                isinstance(d, ast.Attribute) and d.attr == "setter" for d in f.decorator_list)}   # (a setter is configuration)
            assigns, loads = {}, {}     # name -> [(method, guard path, lineno)]

            def scan(stmts, meth, path):
                for st in stmts:
                    if isinstance(st, ast.If):
                        for n in ast.walk(st.test):
                            note_load(n, meth, path)
                        scan(st.body, meth, path + [(id(st), "t", st.test)])
                        scan(st.orelse, meth, path + [(id(st), "f", st.test)])
                        continue
                    if isinstance(st, (ast.For, ast.While, ast.With, ast.Try)):
                        for sub in ("body", "orelse", "finalbody"):
                            scan(getattr(st, sub, []) or [], meth, path + [(id(st), sub, None)])
                        for h in getattr(st, "handlers", []) or []:
                            scan(h.body, meth, path + [(id(st), "h", None)])
                        continue
                    if isinstance(st, (ast.FunctionDef, ast.ClassDef)):
                        continue
                    targets = st.targets if isinstance(st, ast.Assign) else ([st.target] if isinstance(st, (ast.AugAssign, ast.AnnAssign)) else [])
                    for n in ast.walk(st):
                        if not any(n is t for t in targets):
                            note_load(n, meth, path, st.lineno)
                    for t in targets:
                        for n in ([t] if not isinstance(t, (ast.Tuple, ast.List)) else t.elts):
                            if is_self_attr(n):
                                assigns.setdefault(n.attr, []).append((meth, path, st.lineno))

            def note_load(n, meth, path, lineno=None):
                if is_self_attr(n) and isinstance(n.ctx, ast.Load):
                    loads.setdefault(n.attr, []).append((meth, path, lineno if lineno is not None else n.lineno))
                elif (isinstance(n, ast.Call) and isinstance(n.func, ast.Name) and n.func.id in ("getattr", "hasattr") and len(n.args) >= 2
                      and isinstance(n.args[0], ast.Name) and n.args[0].id == "self" and isinstance(n.args[1], ast.Constant)):
                    loads.setdefault(n.args[1].value, []).append((meth, path, n.lineno))
            for mname, fn in meths.items():
                scan(fn.body, mname, [])
            for name, sites in sorted(assigns.items()):
                def mentions(test):
                    return test is not None and any(
                        (is_self_attr(n, name)) or (isinstance(n, ast.Constant) and n.value == name) for n in ast.walk(test))
                self_guarded = any(mentions(g[2]) for _, path, _ in sites for g in path)
                rbw = False
                for lm, lpath, lline in loads.get(name, []):
                    keys = [(g[0], g[1]) for g in lpath]
                    dominated = any(am == lm and aline < lline and [(g[0], g[1]) for g in apath] == keys[:len(apath)]
                                    for am, apath, aline in sites)
                    rbw = rbw or not dominated
                out.append({"cls": ids.index(cls), "clsname": cls, "name": name,
                            "known": 1 if name == "_last_test_train_covar" else 0,
                            "selfGuarded": self_guarded, "readBeforeWrite": rbw})
        return out

    def ctor_clones(self):
        """class ids whose `__init__` registers `inducing_points` (parameter or buffer) from a *copy* of the tensor it
        is given — two models built from the same tensor must not share storage (an optimiser step / load_state_dict
        on one would move the other's inducing points under its eval-mode caches)"""
        import re
        ids = [n for n, _ in CLASSES]
        out = []
        is_clone = re.compile(r"^inducing_points(\.detach\(\))?\.clone\(\)$")
        is_view = re.compile(r"^inducing_points\.(unsqueeze|contiguous|to|type_as|expand|view|reshape)\(")
        for cls in ("_VariationalStrategy", "InducingPointKernel"):
            fn = self.src.methods(cls).get("__init__")
            if fn is None:
                raise TranslateError(f"{cls}.__init__ not found")
            state = {"fresh": False, "sites": []}

            def scan(stmts):
                for st in stmts:
                    if isinstance(st, ast.Assign) and len(st.targets) == 1 and isinstance(st.targets[0], ast.Name) \
                            and st.targets[0].id == "inducing_points":
                        v = _src(st.value)
                        if is_clone.match(v):
                            state["fresh"] = True
                        elif not is_view.match(v):
                            state["fresh"] = False
                    for n in ast.walk(st) if not isinstance(st, (ast.If, ast.For, ast.While, ast.With, ast.Try)) else []:
                        if isinstance(n, ast.Call) and is_self_attr(n.func) and n.func.attr in ("register_parameter", "register_buffer"):
                            args = {kw.arg: kw.value for kw in n.keywords}
                            pos = list(n.args)
                            name = args.get("name", pos[0] if pos else None)
                            if not (isinstance(name, ast.Constant) and name.value == "inducing_points"):
                                continue
                            val = args.get("parameter", args.get("tensor", pos[1] if len(pos) > 1 else None))
                            if isinstance(val, ast.Call) and _src(val.func) in ("torch.nn.Parameter", "nn.Parameter", "Parameter") and val.args:
                                val = val.args[0]
                            v = _src(val) if val is not None else ""
                            state["sites"].append(bool(is_clone.match(v)) or (v == "inducing_points" and state["fresh"]))
                    for sub in ("body", "orelse", "finalbody"):
                        if isinstance(st, (ast.If, ast.For, ast.While, ast.With, ast.Try)):
                            scan(getattr(st, sub, []) or [])
            scan(fn.body)
            if not state["sites"]:
                raise TranslateError(f"{cls}.__init__: registration of `inducing_points` not found")
            if all(state["sites"]):
                out.append(ids.index(cls))
        return out

    def attr_caches(self, cls):
        src = self.src
        found = {}
        for c in src.mro(cls):
            for mname, fn in src.methods(c).items():
                if mname in ("_clear_cache", "__deepcopy__", "__getstate__", "__setstate__"):
                    continue   # (overridden methods stay in: they are reached through super())
                self._attr_walk(fn.body, [], found, f"{c}.{mname}")
        return [{"slot": self.slot(n, cls), "name": n, "storeEvalOnly": all(v["stores"]) if v["stores"] else True,
                 "readEvalOnly": all(v["reads"]) if v["reads"] else True}
                for n, v in sorted(found.items(), key=lambda kv: SLOTS.index(kv[0]) if kv[0] in SLOTS else 99)]

    @staticmethod
    def _is_not_training(node):
        return isinstance(node, ast.UnaryOp) and isinstance(node.op, ast.Not) and is_self_attr(node.operand, "training")

    def _attr_walk(self, body, guards, found, where):
        for st in body:
            if isinstance(st, ast.If):
                self._attr_walk(st.body, guards + [st.test], found, where)
                self._attr_walk(st.orelse, guards + [ast.UnaryOp(op=ast.Not(), operand=st.test)], found, where)
                continue
            if isinstance(st, (ast.For, ast.While, ast.With, ast.Try)):
                for sub in ("body", "orelse", "finalbody"):
                    self._attr_walk(getattr(st, sub, []) or [], guards, found, where)
                for h in getattr(st, "handlers", []) or []:
                    self._attr_walk(h.body, guards, found, where)
                continue
            if isinstance(st, ast.Assign):
                for t in st.targets:
                    if is_self_attr(t) and t.attr.startswith("_cached_"):
                        ok = any(self._is_not_training(g) for g in guards)
                        found.setdefault(t.attr, {"stores": [], "reads": []})["stores"].append(ok)
            if isinstance(st, ast.Return) and st.value is not None and is_self_attr(st.value) and st.value.attr.startswith("_cached_"):
                n = st.value.attr
                ok = False
                for g in guards:
                    conj = g.values if isinstance(g, ast.BoolOp) and isinstance(g.op, ast.And) else [g]
                    has_nt = any(self._is_not_training(x) for x in conj)
                    has_ha = any(isinstance(x, ast.Call) and isinstance(x.func, ast.Name) and x.func.id == "hasattr"
                                 and len(x.args) == 2 and isinstance(x.args[1], ast.Constant) and x.args[1].value == n
                                 for x in conj)
                    ok = ok or (has_nt and has_ha)
                found.setdefault(n, {"stores": [], "reads": []})["reads"].append(ok)

    # ---------------------------------------------------------------- operations
    def train_guard(self):
        fn = self.src.methods("Module").get("train")
        if fn is None:
            return "fun _ _ => false"
        args = [a.arg for a in fn.args.args]
        if args != ["self", "mode"]:
            raise TranslateError(f"Module.train signature {args}")
        be = BoolExpr(lambda n: "tr" if is_self_attr(n, "training") else ("m" if isinstance(n, ast.Name) and n.id == "mode" else None))
        guard, delegated = None, False
        for st in fn.body:
            if is_docstring(st):
                continue
            if isinstance(st, ast.If) and not st.orelse and len(st.body) == 1 and is_self_call(st.body[0], "_clear_cache"):
                if guard is not None:
                    raise TranslateError("Module.train: more than one _clear_cache call")
                guard = be.tr(st.test)
            elif is_self_call(st, "_clear_cache"):
                guard = "true"
            elif (isinstance(st, ast.Return) and isinstance(st.value, ast.Call) and isinstance(st.value.func, ast.Attribute)
                  and st.value.func.attr == "train" and isinstance(st.value.func.value, ast.Call)
                  and isinstance(st.value.func.value.func, ast.Name) and st.value.func.value.func.id == "super"):
                delegated = True
            else:
                raise TranslateError(f"Module.train: statement outside the vocabulary: `{_src(st)}`")
        if not delegated:
            raise TranslateError("Module.train does not delegate to nn.Module.train")
        return f"fun tr m => {guard}" if guard is not None else "fun _ _ => false"

    def load_clears(self):
        fn = self.src.methods("Module").get("_load_from_state_dict")
        if fn is None:
            return False
        if any(isinstance(n, ast.Call) and is_self_attr(n.func, "_clear_cache") for st in fn.body
               if not is_self_call(st, "_clear_cache") for n in ast.walk(st)):
            raise TranslateError("Module._load_from_state_dict: conditional _clear_cache (outside the vocabulary)")
        return any(is_self_call(st, "_clear_cache") for st in fn.body)

    def set_train_data(self):
        """-> Lean `fun i t => …`: clearing statements reached given `inputs is not None` (i) / `targets is not None` (t)"""
        fn = self.src.methods("ExactGP").get("set_train_data")
        if fn is None:
            raise TranslateError("ExactGP.set_train_data not found")

        def effects(body, where):
            effs = []
            for st in body:
                if (isinstance(st, ast.Assign) and len(st.targets) == 1 and is_self_attr(st.targets[0], "prediction_strategy")):
                    if isinstance(st.value, ast.Constant) and st.value.value is None:
                        effs.append(("dropStrategy",))
                    else:
                        raise TranslateError(f"set_train_data: `{_src(st)}` outside the vocabulary")
                elif is_self_call(st, "_clear_cache"):
                    effs += self.clear_cache_effects("ExactGP")
                elif not (isinstance(st, ast.If) and where == "top" and _src(st.test) in ("inputs is not None", "targets is not None")):
                    for n in ast.walk(st):
                        if (isinstance(n, ast.Assign) and any(is_self_attr(t, "prediction_strategy") for t in n.targets)) or \
                                (isinstance(n, ast.Call) and is_self_attr(n.func, "_clear_cache")):
                            raise TranslateError(f"set_train_data: clearing statement nested in `{_src(st)[:60]}…` (outside the vocabulary)")
            return effs
        top = effects(fn.body, "top")
        cond = {"inputs is not None": [], "targets is not None": []}
        for st in fn.body:
            if isinstance(st, ast.If) and _src(st.test) in cond:
                cond[_src(st.test)] += effects(st.body, "branch")
                if effects(st.orelse, "branch"):
                    raise TranslateError("set_train_data: clearing statement in an else-branch (outside the vocabulary)")

        def lst(effs):
            return "[" + ", ".join(self._eff(e) for e in effs) + "]"
        self.table_std = {"always": top, "inputs": cond["inputs is not None"], "targets": cond["targets is not None"]}
        return (f"fun i t => {lst(top)} ++ (if i then {lst(cond['inputs is not None'])} else []) ++ "
                f"(if t then {lst(cond['targets is not None'])} else [])")

    def legacy_conversion_clears(self):
        """`VariationalStrategy.__call__`: the re-whitening block for old-format state dicts ends by emptying the memo"""
        m = self.src.methods("VariationalStrategy").get("__call__")
        if m is None:
            return True   # no conversion block at all
        body = [st for st in m.body if not is_docstring(st)]
        blk = body[0]
        if not (isinstance(blk, ast.If) and "updated_strategy" in _src(blk.test)):
            raise TranslateError("VariationalStrategy.__call__: legacy block not found")

        def is_clear(st):
            return (is_self_call(st, "_clear_cache") or
                    (isinstance(st, ast.Expr) and _src(st.value) == "clear_cache_hook(self)"))
        level = blk.body
        if len(level) == 1 and isinstance(level[0], ast.With):
            level = level[0].body
        found = any(is_clear(st) for st in level)
        nested = sum(1 for n in ast.walk(blk) if isinstance(n, ast.Expr) and is_clear(n))
        if nested and not found:
            raise TranslateError("VariationalStrategy.__call__: conditional cache clearing in the legacy block (outside the vocabulary)")
        # the clearing must come after the parameters were rewritten
        if found:
            idx_clear = max(i for i, st in enumerate(level) if is_clear(st))
            idx_write = max((i for i, st in enumerate(level) if "initialize_variational_distribution" in _src(st)), default=-1)
            if idx_write > idx_clear:
                return False
        return found

    def var_call_guard(self):
        fn = self.src.methods("_VariationalStrategy").get("__call__")
        if fn is None:
            raise TranslateError("_VariationalStrategy.__call__ not found")
        be = BoolExpr(lambda n: "tr" if is_self_attr(n, "training") else ("p" if isinstance(n, ast.Name) and n.id == "prior" else None))
        pre, guard = [], None
        for st in fn.body:
            if is_docstring(st):
                continue
            if isinstance(st, ast.If) and ends_in_return(st.body) and not st.orelse and guard is None:
                try:
                    pre.append("(!" + be.tr(st.test) + ")")
                except TranslateError:
                    break  # later early exits do not matter once they are after the clearing site; before it they do
                continue
            if isinstance(st, ast.If) and any(is_self_call(b, "_clear_cache") for b in st.body):
                if len(st.body) != 1 or st.orelse:
                    raise TranslateError("_VariationalStrategy.__call__: clearing branch outside the vocabulary")
                guard = " && ".join(pre + [be.tr(st.test)])
                break
            if is_self_call(st, "_clear_cache"):
                guard = " && ".join(pre) if pre else "true"
                break
            if guard is None and any(isinstance(n, ast.Call) and is_self_attr(n.func, "_clear_cache") for n in ast.walk(st)):
                raise TranslateError(f"_VariationalStrategy.__call__: nested _clear_cache: `{_src(st)[:80]}`")
        # subclasses of the vocabulary must not change the protocol
        for c in ("VariationalStrategy", "UnwhitenedVariationalStrategy"):
            m = self.src.methods(c).get("__call__")
            if m is None:
                continue
            body = [s for s in m.body if not is_docstring(s)]
            ok = (len(body) == 2 and isinstance(body[0], ast.If) and "updated_strategy" in _src(body[0].test)
                  and isinstance(body[1], ast.Return) and "super().__call__" in _src(body[1].value))
            if not ok:
                raise TranslateError(f"{c}.__call__ is not the (legacy re-whitening block; super().__call__) shape")
        return f"fun tr p => {guard}" if guard is not None else "fun _ _ => false"

    def strategy_creation(self):
        fn = self.src.methods("ExactGP").get("__call__")
        if fn is None:
            raise TranslateError("ExactGP.__call__ not found")
        top = [st for st in fn.body if isinstance(st, ast.If) and is_self_attr(st.test, "training")]
        if len(top) != 1:
            raise TranslateError("ExactGP.__call__: expected one `if self.training:` dispatch")
        branches = {"training": top[0].body}
        rest = top[0].orelse
        if len(rest) == 1 and isinstance(rest[0], ast.If):
            branches["prior"] = rest[0].body
            branches["posterior"] = rest[0].orelse
            if "prior_mode" not in _src(rest[0].test):
                raise TranslateError("ExactGP.__call__: second branch is not the prior-mode branch")
        else:
            raise TranslateError("ExactGP.__call__: expected training / prior / posterior branches")

        def assigns_strategy(body):
            return [n for st in body for n in ast.walk(st)
                    if isinstance(n, ast.Assign) and any(is_self_attr(t, "prediction_strategy") for t in n.targets)]
        for b in ("training", "prior"):
            if assigns_strategy(branches[b]):
                raise TranslateError(f"ExactGP.__call__: {b} branch assigns prediction_strategy (outside the vocabulary)")
        guarded, keyed, seen = False, False, False
        lazy_names = set()   # local names bound to settings.lazily_evaluate_kernels.on()
        for st in branches["posterior"]:
            if (isinstance(st, ast.Assign) and len(st.targets) == 1 and isinstance(st.targets[0], ast.Name)
                    and _src(st.value) == "settings.lazily_evaluate_kernels.on()"):
                lazy_names.add(st.targets[0].id)
        is_none = "self.prediction_strategy is None"
        for st in branches["posterior"]:
            if not assigns_strategy([st]):
                continue
            seen = True
            if not isinstance(st, ast.If):
                continue           # unconditional creation: rebuilt at every call
            if st.orelse:
                raise TranslateError("ExactGP.__call__: strategy creation has an else-branch (outside the vocabulary)")
            test = _src(st.test)
            if test == is_none:
                guarded = True
            elif (isinstance(st.test, ast.BoolOp) and isinstance(st.test.op, ast.Or) and len(st.test.values) == 2
                  and _src(st.test.values[0]) == is_none and isinstance(st.test.values[1], ast.Compare)
                  and len(st.test.values[1].ops) == 1 and isinstance(st.test.values[1].ops[0], ast.NotEq)
                  and is_self_attr(st.test.values[1].left) and isinstance(st.test.values[1].comparators[0], ast.Name)
                  and st.test.values[1].comparators[0].id in lazy_names):
                attr = st.test.values[1].left.attr
                name = st.test.values[1].comparators[0].id
                stored = any(isinstance(s2, ast.Assign) and len(s2.targets) == 1 and is_self_attr(s2.targets[0], attr)
                             and isinstance(s2.value, ast.Name) and s2.value.id == name for s2 in st.body)
                if not stored:
                    raise TranslateError(f"ExactGP.__call__: self.{attr} is compared but not recorded when the strategy is built")
                guarded, keyed = True, True
            else:
                raise TranslateError(f"ExactGP.__call__: strategy creation under `{test}` (outside the vocabulary)")
            for s2 in st.body:
                if isinstance(s2, ast.With):
                    raise TranslateError("ExactGP.__call__: strategy built inside a `with` block (outside the vocabulary)")
        if not seen:
            raise TranslateError("ExactGP.__call__: creation site of prediction_strategy not found")
        return guarded, keyed

    def covar_read_guard(self):
        src = self.src
        fn = src.methods("DefaultPredictionStrategy").get("exact_predictive_covar")
        if fn is None:
            raise TranslateError("DefaultPredictionStrategy.exact_predictive_covar not found")

        nan_names = {st.targets[0].id for st in fn.body
                     if isinstance(st, ast.Assign) and len(st.targets) == 1 and isinstance(st.targets[0], ast.Name)
                     and _src(st.value) == "settings.observation_nan_policy.value()"}

        def atom(n):
            # `nan_policy != "ignore"` where nan_policy = settings.observation_nan_policy.value()
            if (isinstance(n, ast.Compare) and len(n.ops) == 1 and isinstance(n.left, ast.Name) and n.left.id in nan_names
                    and isinstance(n.comparators[0], ast.Constant) and n.comparators[0].value == "ignore"):
                if isinstance(n.ops[0], ast.NotEq):
                    return "nan"
                if isinstance(n.ops[0], ast.Eq):
                    return "(!nan)"
                return None
            if (isinstance(n, ast.Call) and isinstance(n.func, ast.Attribute) and n.func.attr in ("on", "off") and not n.args
                    and isinstance(n.func.value, ast.Attribute) and isinstance(n.func.value.value, ast.Name)
                    and n.func.value.value.id == "settings"):
                v = {"fast_pred_var": "fpv", "skip_posterior_variances": "skip"}.get(n.func.value.attr)
                if v is None:
                    return None
                return v if n.func.attr == "on" else f"(!{v})"
            return None
        be = BoolExpr(atom)
        pre, guard = [], None
        for st in fn.body:
            if is_docstring(st):
                continue
            mentions = any(is_self_attr(n, "covar_cache") for n in ast.walk(st))
            if isinstance(st, ast.If) and not st.orelse:
                if mentions:
                    raise TranslateError("exact_predictive_covar: covar_cache read inside a branch (outside the vocabulary)")
                if ends_in_return(st.body):
                    pre.append("(!" + be.tr(st.test) + ")")
                continue
            if mentions:
                guard = " && ".join(pre) if pre else "true"
                break
            if isinstance(st, ast.If):
                raise TranslateError(f"exact_predictive_covar: `{_src(st.test)}` with else-branch (outside the vocabulary)")
        if guard is None:
            guard = "false"
        # the two overriding strategies of the vocabulary
        m = src.methods("InterpolatedPredictionStrategy").get("exact_predictive_covar")
        if m is not None:
            first = [s for s in m.body if not is_docstring(s)][0]
            want = "settings.fast_pred_var.off() and settings.fast_pred_samples.off()"
            if not (isinstance(first, ast.If) and _src(first.test) == want and isinstance(first.body[0], ast.Return)
                    and "super(" in _src(first.body[0])):
                raise TranslateError("InterpolatedPredictionStrategy.exact_predictive_covar: first statement is not the "
                                     "`fast_pred_var.off() and fast_pred_samples.off()` delegation")
        m = src.methods("SGPRPredictionStrategy").get("exact_predictive_covar")
        if m is not None:
            first = [s for s in m.body if not is_docstring(s)][0]
            if _src(first) != "covar_cache = self.covar_cache":
                raise TranslateError("SGPRPredictionStrategy.exact_predictive_covar does not start with the covar_cache read")
        m = src.methods("DefaultPredictionStrategy").get("exact_predictive_mean")
        if m is None or not any(_src(s) == "mean_cache = self.mean_cache" for s in m.body):
            raise TranslateError("DefaultPredictionStrategy.exact_predictive_mean: unconditional `mean_cache = self.mean_cache` not found")
        return f"fun fpv skip nan => {guard}"

    def fantasy(self):
        fn = self.src.methods("ExactGP").get("get_fantasy_model")
        if fn is None:
            raise TranslateError("ExactGP.get_fantasy_model not found")
        body = [s for s in fn.body if not is_docstring(s)]
        needs = (isinstance(body[0], ast.If) and _src(body[0].test) == "self.prediction_strategy is None"
                 and isinstance(body[0].body[0], ast.Raise))
        nulled, restored, in_finally, copied = [], [], False, False

        def is_copy(st):
            return isinstance(st, ast.Assign) and isinstance(st.value, ast.Call) and _src(st.value) == "deepcopy(self)"

        def attr_assign(st):
            if isinstance(st, ast.Assign) and len(st.targets) == 1 and is_self_attr(st.targets[0]) \
                    and st.targets[0].attr in FANTASY_ATTRS:
                return st.targets[0].attr, st.value
            return None
        for st in body:
            if is_copy(st):
                copied = True
                continue
            if isinstance(st, ast.Try) and any(is_copy(s) for s in st.body):
                if st.handlers or st.orelse:
                    raise TranslateError("get_fantasy_model: try around deepcopy has handlers (outside the vocabulary)")
                copied = True
                fin = [attr_assign(s) for s in st.finalbody]
                if any(a is None for a in fin):
                    raise TranslateError("get_fantasy_model: finally-block statement outside the vocabulary")
                restored += [FANTASY_ATTRS.index(a) for a, v in fin if isinstance(v, ast.Name)]
                in_finally = True
                continue
            a = attr_assign(st)
            if a is None:
                continue
            attr, val = a
            if isinstance(val, ast.Constant) and val.value is None:
                if copied:
                    raise TranslateError(f"get_fantasy_model: self.{attr} = None after the copy")
                nulled.append(FANTASY_ATTRS.index(attr))
            elif isinstance(val, ast.Name) and copied:
                restored.append(FANTASY_ATTRS.index(attr))
            else:
                raise TranslateError(f"get_fantasy_model: `{_src(st)}` outside the vocabulary")
        if not copied:
            raise TranslateError("get_fantasy_model: `deepcopy(self)` not found")
        return needs, sorted(nulled), sorted(restored), in_finally

    def memoize(self):
        f = "gpytorch/utils/memoize.py"
        h = self.src.find_func(f, "clear_cache_hook")
        body = [s for s in h.body if not is_docstring(s)]
        whole = len(body) == 1 and _src(body[0]) == "module._memoize_cache = {}"
        add = self.src.find_func(f, "_add_to_cache")
        honours = any(_src(s) == "obj._memoize_cache[name, args, kwargs_pkl] = val" or
                      _src(s) == "obj._memoize_cache[(name, args, kwargs_pkl)] = val" for s in add.body)
        g = self.src.find_func(f, "_cached")
        inner = [n for n in ast.walk(g) if isinstance(n, ast.FunctionDef) and n.name == "g"]
        if not inner or "_is_in_cache(self, cache_name, *args, kwargs_pkl=kwargs_pkl)" not in _src(inner[0]):
            raise TranslateError("memoize._cached: lookup is not `_is_in_cache(self, cache_name, *args, kwargs_pkl=…)`")
        c = self.src.find_func(f, "cached")
        csrc = _src(c)
        if "if ignore_args:" not in csrc or "_cached_ignore_args(method=method, name=name)" not in csrc \
                or "_cached(method=method, name=name)" not in csrc:
            raise TranslateError("memoize.cached: dispatch on ignore_args outside the vocabulary")
        ign = self.src.find_func(f, "_add_to_cache_ignore_args")
        if not any(_src(s) == "obj._memoize_cache[name] = val" for s in ign.body):
            raise TranslateError("memoize._add_to_cache_ignore_args: key is not the bare name")
        return whole, honours

    # ---------------------------------------------------------------- driver
    def run(self):
        src = self.src
        T = {"classes": []}
        for cid, (name, _) in enumerate(CLASSES):
            bases, through = src.bases(name)
            mro = src.mro(name)
            is_module = name == "Module" or "Module" in mro
            T["classes"].append({
                "id": cid, "name": name, "bases": [[n for n, _ in CLASSES].index(b) for b in mro[1:]],
                "isModule": is_module, "cached": self.cached_decls(name), "attrCaches": self.attr_caches(name),
                "clearCache": self.clear_cache_effects(name) if is_module or src.resolve(name, "_clear_cache") else [],
            })
        T["trainClears"] = self.train_guard()
        T["loadClears"] = self.load_clears()
        T["setTrainData"] = self.set_train_data()
        T["legacyConversionClears"] = self.legacy_conversion_clears()
        T["varCallClears"] = self.var_call_guard()
        T["strategyGuardedByIsNone"], T["strategyKeyedOnLazy"] = self.strategy_creation()
        T["defaultReadsCovarCache"] = self.covar_read_guard()
        (T["fantasyNeedsStrategy"], T["fantasyNulled"], T["fantasyRestored"], T["fantasyRestoreInFinally"]) = self.fantasy()
        T["hookClearsWholeMemo"], T["memoKeyHonoursArgs"] = self.memoize()
        T["ctorClones"] = self.ctor_clones()
        T["instAttrs"] = self.inst_attrs()
        T["access"], self.access_trees = self.access()
        T["fantasyAccess"], T["fantasyBorn"], self.fantasy_trees = self.fantasy_access()
        T["unmodelled"] = self.unmodelled_subclasses()
        self.table = T
        return T

    def unmodelled_subclasses(self):
        """other subclasses of _VariationalStrategy / DefaultPredictionStrategy in the package (listed, not modelled)"""
        out = []
        names = {n for n, _ in CLASSES}
        for sub in ("gpytorch/variational", "gpytorch/models"):
            d = os.path.join(self.src.repo, sub)
            for fn in sorted(os.listdir(d)):
                if not fn.endswith(".py"):
                    continue
                try:
                    tree = ast.parse(open(os.path.join(d, fn)).read())
                except SyntaxError:
                    continue
                for st in tree.body:
                    if isinstance(st, ast.ClassDef) and st.name not in names:
                        bs = [b.id for b in st.bases if isinstance(b, ast.Name)]
                        if any(b in ("_VariationalStrategy", "DefaultPredictionStrategy", "VariationalStrategy") for b in bs):
                            out.append(st.name)
        return out

    # ---------------------------------------------------------------- Lean
    @staticmethod
    def _b(x):
        return "true" if x else "false"

    @staticmethod
    def _eff(e):
        return ".dropStrategy" if e[0] == "dropStrategy" else (".clearMemo" if e[0] == "clearMemo" else f".delAttr {e[1]}")

    def emit(self):
        T, b = self.table, self._b
        L = ["/- GENERATED by harness/translate/g2_cache_table.py from the working tree — do not edit. -/",
             "import GPVerif.Model.CacheSM", "", "namespace Gen.CacheTable", "open CacheSM", "",
             "def slotNames : List String :=", "  [" + ", ".join(f'"{s}"' for s in SLOTS) + "]", "",
             "def classNames : List String :=", "  [" + ", ".join(f'"{n}"' for n, _ in CLASSES) + "]", "",
             "def settingNames : List String :=", "  [" + ", ".join(f'"{n}"' for n in SETTINGS) + "]", ""]
        for c in T["classes"]:
            L.append(f"/-- `{c['name']}`" + "".join(f"; `{d['name']}` ← `{d['owner']}.{d['method']}`" for d in c["cached"]) + " -/")
            L.append(f"def c_{c['name']} : ClassInfo :=")
            L.append(f"  {{ id := {c['id']}, bases := [{', '.join(map(str, c['bases']))}], isModule := {b(c['isModule'])},")
            def opt(v):
                return "none" if v is None else f"some {v}"
            L.append("    cached := [" + ", ".join(
                f"⟨{d['slot']}, {b(d['ignore'])}, {b(d['hooked'])}, {opt(d['variantOn'])}, {d['deps']}, {d['bodySettings']}⟩"
                for d in c["cached"]) + "],")
            L.append("    attrCaches := [" + ", ".join(f"⟨{a['slot']}, {b(a['storeEvalOnly'])}, {b(a['readEvalOnly'])}⟩" for a in c["attrCaches"]) + "],")
            L.append("    clearCache := [" + ", ".join(self._eff(e) for e in c["clearCache"]) + "] }")
            L.append("")
        L.append("def table : Table :=")
        L.append("  { classes := [" + ", ".join(f"c_{c['name']}" for c in T["classes"]) + "],")
        L.append(f"    trainClears := {T['trainClears']},")
        L.append(f"    loadClears := {b(T['loadClears'])},")
        L.append(f"    setTrainData := {T['setTrainData']},")
        L.append(f"    legacyConversionClears := {b(T['legacyConversionClears'])},")
        L.append(f"    varCallClears := {T['varCallClears']},")
        L.append(f"    strategyGuardedByIsNone := {b(T['strategyGuardedByIsNone'])},")
        L.append(f"    strategyKeyedOnLazy := {b(T['strategyKeyedOnLazy'])},")
        L.append(f"    defaultReadsCovarCache := {T['defaultReadsCovarCache']},")
        L.append(f"    fantasyNeedsStrategy := {b(T['fantasyNeedsStrategy'])},")
        L.append(f"    fantasyNulled := [{', '.join(map(str, T['fantasyNulled']))}],")
        L.append(f"    fantasyRestored := [{', '.join(map(str, T['fantasyRestored']))}],")
        L.append(f"    fantasyRestoreInFinally := {b(T['fantasyRestoreInFinally'])},")
        L.append(f"    hookClearsWholeMemo := {b(T['hookClearsWholeMemo'])},")
        L.append(f"    memoKeyHonoursArgs := {b(T['memoKeyHonoursArgs'])},")
        L.append(f"    ctorClones := {T['ctorClones']},")
        L.append("    -- " + "; ".join(f"{a['clsname']}.{a['name']}" for a in T["instAttrs"]))
        L.append("    instAttrs := [" + ", ".join(f"⟨{a['cls']}, {a['known']}, {b(a['selfGuarded'])}, {b(a['readBeforeWrite'])}⟩"
                                                  for a in T["instAttrs"]) + "],")
        L.append(f"    access := {T['access']},")
        L.append(f"    fantasyAccess := {T['fantasyAccess']},")
        L.append(f"    fantasyBorn := {T['fantasyBorn']} }}")
        L.append("")
        L.append("/-- subclasses found in the package that are listed but not modelled: " + ", ".join(T["unmodelled"]) + " -/")
        L.append(f"def unmodelledCount : Nat := {len(T['unmodelled'])}")
        L.append("")
        L.append("end Gen.CacheTable")
        return "\n".join(L) + "\n"


def _write(path, text):
    old = open(path).read() if os.path.exists(path) else None
    if old != text:
        os.makedirs(os.path.dirname(path), exist_ok=True)
        with open(path, "w") as fh:
            fh.write(text)
    return old != text


def generate(repo, out_path):
    tr = Translator(repo)
    tr.run()
    changed = _write(out_path, tr.emit())
    return tr, changed


if __name__ == "__main__":
    import json
    import sys
    repo = sys.argv[1] if len(sys.argv) > 1 else "/repo"
    out = sys.argv[2] if len(sys.argv) > 2 else os.path.join(os.path.dirname(__file__), "../../lean/GPVerif/Gen/CacheTable.lean")
    tr, changed = generate(repo, os.path.abspath(out))
    print(json.dumps({k: v for k, v in tr.table.items() if k != "classes"}, indent=1))
    for c in tr.table["classes"]:
        print(c["name"], [(d["name"], d["ignore"], d["hooked"]) for d in c["cached"]], c["attrCaches"], c["clearCache"])
    print("changed =", changed)

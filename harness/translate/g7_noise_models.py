"""G7 (C12) — Python-AST -> Lean translator for the Gaussian-family noise plumbing.

Reads from `$VERIF_REPO/gpytorch/likelihoods/`
  noise_models.py                    `_HomoskedasticNoiseBase.forward`, `FixedGaussianNoise.forward`
  gaussian_likelihood.py             `_GaussianLikelihoodBase.marginal / expected_log_prob / log_marginal`,
                                     `FixedNoiseGaussianLikelihood._shaped_noise_covar`
  multitask_gaussian_likelihood.py   `_MultitaskGaussianLikelihoodBase._shaped_noise_covar`
  likelihood_list.py                 `LikelihoodList.__call__ / forward`
and emits `GPVerif/Gen/NoiseModels.lean`: the *decision structure* (order of branches, which kwargs are forwarded,
Kronecker operand order, zip routing) and the *closed-form expressions* of that code as Lean definitions over the
return-value vocabulary of `GPVerif/Model/Noise.lean`.  `Props/C12.lean` proves the generated definitions equal to
the hand-written specification; `drivers/C12.lean` executes the generated definitions.

Anything outside the vocabulary raises `TranslateError` (a broken tie — never silently skipped).
"""
import ast
import os


class TranslateError(Exception):
    pass


def _src(node):
    try:
        return ast.unparse(node)
    except Exception:
        return repr(node)


def _fail(what, node=None):
    raise TranslateError(what + (f": `{_src(node)[:200]}`" if node is not None else ""))


def _parse(repo, rel):
    path = os.path.join(repo, rel)
    with open(path) as fh:
        return ast.parse(fh.read(), filename=path)


def _cls(tree, name):
    for n in tree.body:
        if isinstance(n, ast.ClassDef) and n.name == name:
            return n
    _fail(f"class {name} not found")


def _method(cls, name):
    for n in cls.body:
        if isinstance(n, ast.FunctionDef) and n.name == name:
            return n
    _fail(f"method {cls.name}.{name} not found")


def _body(fn):
    """statements without the docstring"""
    b = list(fn.body)
    if b and isinstance(b[0], ast.Expr) and isinstance(b[0].value, ast.Constant) and isinstance(b[0].value.value, str):
        b = b[1:]
    return b


def _is_name(n, ident):
    return isinstance(n, ast.Name) and n.id == ident


def _is_self_attr(n, attr):
    return isinstance(n, ast.Attribute) and _is_name(n.value, "self") and n.attr == attr


def _call_name(n):
    """name of the called function for Name / Attribute callees"""
    if not isinstance(n, ast.Call):
        return None
    f = n.func
    if isinstance(f, ast.Name):
        return f.id
    if isinstance(f, ast.Attribute):
        return f.attr
    return None


def _has_star_kwargs(call, name):
    return any(k.arg is None and _is_name(k.value, name) for k in call.keywords)


# ---------------------------------------------------------------------------------------------- noise_models.py

def _shape_inference_block(st):
    """`if shape is None: p = ...; shape = ...` — only assigns p / shape."""
    if not (isinstance(st, ast.If) and isinstance(st.test, ast.Compare) and _is_name(st.test.left, "shape")
            and isinstance(st.test.ops[0], ast.Is) and isinstance(st.test.comparators[0], ast.Constant)
            and st.test.comparators[0].value is None and not st.orelse):
        return False
    for s in st.body:
        if not (isinstance(s, ast.Assign) and len(s.targets) == 1 and isinstance(s.targets[0], ast.Name)
                and s.targets[0].id in ("p", "shape")):
            _fail("FixedGaussianNoise/Homoskedastic forward: unexpected statement in the shape-inference block", s)
    return True


def fixed_forward(tree):
    """-> ordered list of (condition, return) with condition in {call, sizematch, else}."""
    fn = _method(_cls(tree, "FixedGaussianNoise"), "forward")
    argn = [a.arg for a in fn.args.kwonlyargs]
    if "noise" not in argn or "shape" not in argn:
        _fail("FixedGaussianNoise.forward: expected keyword-only arguments `shape` and `noise`")
    body = _body(fn)
    if body and _shape_inference_block(body[0]):
        body = body[1:]
    if len(body) != 1 or not isinstance(body[0], ast.If):
        _fail("FixedGaussianNoise.forward: expected one if / elif / else chain after the shape inference",
              body[0] if body else None)

    def cond(t):
        if (isinstance(t, ast.Compare) and _is_name(t.left, "noise") and isinstance(t.ops[0], ast.IsNot)
                and isinstance(t.comparators[0], ast.Constant) and t.comparators[0].value is None):
            return "call"
        if (isinstance(t, ast.Compare) and isinstance(t.ops[0], ast.Eq)
                and _src(t.left) == "shape[-1]" and _src(t.comparators[0]) == "self.noise.shape[-1]"):
            return "sizematch"
        _fail("FixedGaussianNoise.forward: condition outside the vocabulary", t)

    def ret(stmts):
        if len(stmts) != 1 or not isinstance(stmts[0], ast.Return):
            _fail("FixedGaussianNoise.forward: branch body must be a single return", stmts[0] if stmts else None)
        v = stmts[0].value
        nm = _call_name(v)
        if nm == "DiagLinearOperator" and len(v.args) == 1 and not v.keywords:
            if _is_name(v.args[0], "noise"):
                return "diagcall"
            if _is_self_attr(v.args[0], "noise"):
                return "diagstored"
        if nm == "ZeroLinearOperator" and not v.args and not v.keywords:
            return "zero"
        _fail("FixedGaussianNoise.forward: return value outside the vocabulary", v)

    out = []
    node = body[0]
    while True:
        out.append((cond(node.test), ret(node.body)))
        if len(node.orelse) == 1 and isinstance(node.orelse[0], ast.If):
            node = node.orelse[0]
            continue
        out.append(("else", ret(node.orelse)))
        break
    return out


_SHAPE_METHODS = {"unsqueeze", "expand", "contiguous", "view", "reshape", "squeeze"}


def homo_forward(tree):
    """-> (branches, True): [("call","diagcall"), ("else","constdiag")] after checking that the value handed to
    ConstantDiagLinearOperator is `self.noise` moved through shape-only operations."""
    fn = _method(_cls(tree, "_HomoskedasticNoiseBase"), "forward")
    body = _body(fn)
    st = body[0]
    if not (isinstance(st, ast.If) and isinstance(st.test, ast.Compare) and isinstance(st.test.ops[0], ast.In)
            and isinstance(st.test.left, ast.Constant) and st.test.left.value == "noise"
            and _is_name(st.test.comparators[0], "kwargs") and not st.orelse and len(st.body) == 1
            and isinstance(st.body[0], ast.Return)):
        _fail("_HomoskedasticNoiseBase.forward: first statement must be `if 'noise' in kwargs: return ...`", st)
    v = st.body[0].value
    if not (_call_name(v) == "DiagLinearOperator" and len(v.args) == 1
            and _src(v.args[0]) in ("kwargs.get('noise')", "kwargs['noise']")):
        _fail("_HomoskedasticNoiseBase.forward: call-time noise branch outside the vocabulary", v)
    rest = body[1:]
    if rest and _shape_inference_block(rest[0]):
        rest = rest[1:]
    derived = set()

    def shape_only(e):
        """e is a derived tensor moved through shape-only methods"""
        while isinstance(e, ast.Call) and isinstance(e.func, ast.Attribute) and e.func.attr in _SHAPE_METHODS:
            e = e.func.value
        return (isinstance(e, ast.Name) and e.id in derived) or _is_self_attr(e, "noise")

    def mentions_value(e):
        """a derived tensor used as a *value* (not through .shape / .dim())"""
        for n in ast.walk(e):
            if isinstance(n, ast.Name) and n.id in derived:
                ok = False
                for p in ast.walk(e):
                    if isinstance(p, ast.Attribute) and p.value is n and p.attr in ("shape", "dim", "ndim", "dtype", "device"):
                        ok = True
                if not ok:
                    return True
        return False

    ret = None
    for s in rest:
        if isinstance(s, ast.Return):
            ret = s.value
            break
        if isinstance(s, ast.If):    # `if num_tasks == 1: noise_diag = noise_diag.view(...)` style reshapes
            for t in s.body + s.orelse:
                if not (isinstance(t, ast.Assign) and len(t.targets) == 1 and isinstance(t.targets[0], ast.Name)
                        and t.targets[0].id in derived and shape_only(t.value)):
                    _fail("_HomoskedasticNoiseBase.forward: conditional statement is not a reshape of the noise", t)
            if mentions_value(s.test):
                _fail("_HomoskedasticNoiseBase.forward: condition depends on the noise value", s.test)
            continue
        if not isinstance(s, ast.Assign) or len(s.targets) != 1:
            _fail("_HomoskedasticNoiseBase.forward: statement outside the vocabulary", s)
        tgt = s.targets[0]
        if isinstance(tgt, ast.Name) and shape_only(s.value):
            derived.add(tgt.id)
            continue
        if mentions_value(s.value):
            _fail("_HomoskedasticNoiseBase.forward: arithmetic on the noise value", s)
        # shape bookkeeping (`*batch_shape, n = shape`, `num_tasks = noise.shape[-1]`, broadcast_shapes …)
    if ret is None or _call_name(ret) != "ConstantDiagLinearOperator" or len(ret.args) != 1 or not shape_only(ret.args[0]):
        _fail("_HomoskedasticNoiseBase.forward: final return must be ConstantDiagLinearOperator(<reshaped self.noise>, diag_shape=n)", ret)
    kws = {k.arg: _src(k.value) for k in ret.keywords}
    if kws != {"diag_shape": "n"}:
        _fail("_HomoskedasticNoiseBase.forward: diag_shape must be n", ret)
    return [("call", "diagcall"), ("else", "constdiag")]


# ---------------------------------------------------------------------------------------------- gaussian_likelihood.py

def _sum_expr(e, env):
    """matrix expression over `+` with leaves in env -> nested ('add', a, b) / leaf"""
    if isinstance(e, ast.BinOp) and isinstance(e.op, ast.Add):
        return ("add", _sum_expr(e.left, env), _sum_expr(e.right, env))
    if isinstance(e, ast.Name) and e.id in env:
        return env[e.id]
    _fail("marginal: covariance expression outside the vocabulary (only `+` of covar / noise_covar)", e)


def marginal(tree):
    fn = _method(_cls(tree, "_GaussianLikelihoodBase"), "marginal")
    env, expr, keeps_mean, fwd = {}, None, False, None
    for s in _body(fn):
        if isinstance(s, ast.Assign) and _src(s.targets[0]) == "(mean, covar)" or \
                (isinstance(s, ast.Assign) and isinstance(s.targets[0], ast.Tuple)
                 and [_src(t) for t in s.targets[0].elts] == ["mean", "covar"]):
            vals = [_src(v) for v in s.value.elts]
            if vals != ["function_dist.mean", "function_dist.lazy_covariance_matrix"]:
                _fail("marginal: mean / covar must come from function_dist", s)
            env["covar"] = "C"
        elif isinstance(s, ast.Assign) and _is_name(s.targets[0], "noise_covar"):
            c = s.value
            if not (_call_name(c) == "_shaped_noise_covar" and _src(c.args[0]) == "mean.shape"):
                _fail("marginal: noise_covar must be self._shaped_noise_covar(mean.shape, ...)", s)
            fwd = _has_star_kwargs(c, "kwargs")
            env["noise_covar"] = "R"
        elif isinstance(s, ast.Assign) and _is_name(s.targets[0], "full_covar"):
            expr = _sum_expr(s.value, env)
        elif isinstance(s, ast.Return):
            v = s.value
            if not (isinstance(v, ast.Call) and len(v.args) == 2 and _src(v.args[0]) == "mean"
                    and _src(v.args[1]) == "full_covar"):
                _fail("marginal: must return function_dist.__class__(mean, full_covar)", s)
            keeps_mean = True
        else:
            _fail("marginal: statement outside the vocabulary", s)
    if expr is None or not keeps_mean or fwd is None:
        _fail("marginal: incomplete")
    if not fwd:
        _fail("marginal: **kwargs (call-time noise) not forwarded to _shaped_noise_covar")
    return expr


def fixed_shaped(tree):
    """-> (fwd1, fwd2): does the call-time `noise` kwarg reach noise_covar / second_noise_covar"""
    fn = _method(_cls(tree, "FixedNoiseGaussianLikelihood"), "_shaped_noise_covar")
    fwd1 = fwd2 = None
    minus_noise = set()
    seen_return = False
    for s in _body(fn):
        if isinstance(s, ast.If) and _src(s.test) == "len(params) > 0":
            continue    # shape = None / base_shape
        if isinstance(s, ast.Assign) and _is_name(s.targets[0], "res") and _call_name(s.value) == "noise_covar":
            fwd1 = _has_star_kwargs(s.value, "kwargs")
            if not fwd1 and any(k.arg is None for k in s.value.keywords):
                _fail("FixedNoise._shaped_noise_covar: unknown ** mapping passed to noise_covar", s)
            continue
        if isinstance(s, ast.If) and _src(s.test) == "self.second_noise_covar is not None":
            for t in s.body:
                if (isinstance(t, ast.Assign) and isinstance(t.targets[0], ast.Name) and isinstance(t.value, ast.DictComp)
                        and _src(t.value) == "{k: v for k, v in kwargs.items() if k != 'noise'}"):
                    minus_noise.add(t.targets[0].id)
                elif (isinstance(t, ast.Assign) and _is_name(t.targets[0], "res") and isinstance(t.value, ast.BinOp)
                      and isinstance(t.value.op, ast.Add) and _is_name(t.value.left, "res")
                      and _call_name(t.value.right) == "second_noise_covar"):
                    c = t.value.right
                    stars = [k.value for k in c.keywords if k.arg is None]
                    if len(stars) != 1 or not isinstance(stars[0], ast.Name):
                        _fail("FixedNoise._shaped_noise_covar: second_noise_covar must receive exactly one ** mapping", t)
                    if stars[0].id == "kwargs":
                        fwd2 = True
                    elif stars[0].id in minus_noise:
                        fwd2 = False
                    else:
                        _fail("FixedNoise._shaped_noise_covar: unknown ** mapping passed to second_noise_covar", t)
                else:
                    _fail("FixedNoise._shaped_noise_covar: statement outside the vocabulary in the learned-noise branch", t)
            # the elif branch may only warn
            for t in s.orelse:
                if not (isinstance(t, ast.If) and _src(t.test) == "isinstance(res, ZeroLinearOperator)" and not t.orelse
                        and all(isinstance(u, ast.Expr) and _call_name(u.value) == "warn" for u in t.body)):
                    _fail("FixedNoise._shaped_noise_covar: else-branch may only warn", t)
            continue
        if isinstance(s, ast.Return) and _is_name(s.value, "res"):
            seen_return = True
            continue
        _fail("FixedNoise._shaped_noise_covar: statement outside the vocabulary", s)
    if fwd1 is None or fwd2 is None or not seen_return:
        _fail("FixedNoise._shaped_noise_covar: incomplete")
    return fwd1, fwd2


def _scalar(e, env):
    """elementwise tensor expression -> Lean scalar term over y m v r with parameters log log2pi half"""
    if isinstance(e, ast.Name):
        if e.id in env:
            return env[e.id]
        _fail("closed form: unknown name", e)
    if isinstance(e, ast.BinOp):
        op = {ast.Add: "+", ast.Sub: "-", ast.Mult: "*", ast.Div: "/"}.get(type(e.op))
        if op is None:
            _fail("closed form: operator outside the vocabulary", e)
        return f"({_scalar(e.left, env)} {op} {_scalar(e.right, env)})"
    if isinstance(e, ast.Call) and isinstance(e.func, ast.Attribute):
        f = e.func
        if f.attr == "square" and not e.args:
            x = _scalar(f.value, env)
            return f"({x} * {x})"
        if f.attr == "log" and not e.args and not _is_name(f.value, "math"):
            return f"(log {_scalar(f.value, env)})"
        if f.attr == "log" and _is_name(f.value, "math") and len(e.args) == 1 and _src(e.args[0]) == "2 * math.pi":
            return "log2pi"
        if f.attr == "mul" and len(e.args) == 1:
            return f"({_scalar(e.args[0], env)} * {_scalar(f.value, env)})"
    if isinstance(e, ast.UnaryOp) and isinstance(e.op, ast.USub) and isinstance(e.operand, ast.Constant) \
            and e.operand.value == 0.5:
        return "(-half)"
    if isinstance(e, ast.Constant) and e.value == 0.5:
        return "half"
    if isinstance(e, ast.Constant) and e.value == -0.5:
        return "(-half)"
    _fail("closed form: expression outside the vocabulary", e)


def expected_log_prob(tree):
    fn = _method(_cls(tree, "_GaussianLikelihoodBase"), "expected_log_prob")
    env = {"target": "y"}
    body = _body(fn)
    noise_ok = False
    expr = None
    scaled = False
    for s in body:
        if isinstance(s, ast.Assign) and _is_name(s.targets[0], "noise") and "_shaped_noise_covar" in _src(s.value):
            c = s.value
            if not (_call_name(c) == "diagonal" and _call_name(c.func.value) == "_shaped_noise_covar"
                    and _src(c.func.value.args[0]) == "input.mean.shape" and _has_star_kwargs(c.func.value, "kwargs")):
                _fail("expected_log_prob: noise must be diag(self._shaped_noise_covar(input.mean.shape, *params, **kwargs))", s)
            noise_ok = True
            env["noise"] = "r"
        elif isinstance(s, ast.Assign) and isinstance(s.targets[0], ast.Tuple) and \
                [_src(t) for t in s.targets[0].elts] == ["mean", "variance"]:
            if [_src(v) for v in s.value.elts] != ["input.mean", "input.variance"]:
                _fail("expected_log_prob: mean / variance must come from the input distribution", s)
            env.update(mean="m", variance="v")
        elif isinstance(s, ast.Assign) and _is_name(s.targets[0], "res") and expr is None and "mean" in env:
            expr = _scalar(s.value, env)      # first assignment of `res` after mean / variance are bound
            env["res"] = expr
        elif isinstance(s, ast.Assign) and _is_name(s.targets[0], "res") and expr is not None and not scaled:
            if not (_call_name(s.value) == "mul" and _is_name(s.value.func.value, "res")):
                _fail("expected_log_prob: the closed form must be followed by `res = res.mul(-0.5)`", s)
            expr = _scalar(s.value, env)
            env["res"] = expr
            scaled = True
    if not noise_ok or expr is None or not scaled:
        _fail("expected_log_prob: closed form not found")
    return expr


def log_marginal(tree, marg_expr):
    """Normal(marginal.mean, sqrt(clamp(marginal.variance))).log_prob(observations) with marginal = self.marginal(...)"""
    fn = _method(_cls(tree, "_GaussianLikelihoodBase"), "log_marginal")
    got_marg = got_dist = got_lp = False
    clamp = None
    for s in ast.walk(fn):
        if isinstance(s, ast.Assign) and _is_name(s.targets[0], "marginal") and _call_name(s.value) == "marginal":
            if not (_src(s.value.args[0]) == "function_dist" and _has_star_kwargs(s.value, "kwargs")):
                _fail("log_marginal: marginal must be self.marginal(function_dist, *params, **kwargs)", s)
            got_marg = True
        if isinstance(s, ast.Assign) and _is_name(s.targets[0], "indep_dist"):
            c = s.value
            if not (_call_name(c) == "Normal" and len(c.args) == 2 and _src(c.args[0]) == "marginal.mean"):
                _fail("log_marginal: indep_dist must be Normal(marginal.mean, ...)", s)
            sc = c.args[1]
            if not (_call_name(sc) == "sqrt" and _call_name(sc.func.value) == "clamp_min"
                    and _src(sc.func.value.func.value) == "marginal.variance"
                    and isinstance(sc.func.value.args[0], ast.Constant)):
                _fail("log_marginal: scale must be marginal.variance.clamp_min(c).sqrt()", sc)
            clamp = sc.func.value.args[0].value
            got_dist = True
        if isinstance(s, ast.Assign) and _is_name(s.targets[0], "res") and _src(s.value) == "indep_dist.log_prob(observations)":
            got_lp = True
    if not (got_marg and got_dist and got_lp):
        _fail("log_marginal: structure outside the vocabulary")
    if not (0 < clamp <= 1e-6):
        _fail(f"log_marginal: clamp_min({clamp}) is not a numerical floor")

    def scal(x):
        if isinstance(x, tuple):
            return f"({scal(x[1])} + {scal(x[2])})"
        return {"C": "v", "R": "r"}[x]
    return scal(marg_expr), clamp


# ---------------------------------------------------------------------------------------------- multitask

def multitask(tree):
    fn = _method(_cls(tree, "_MultitaskGaussianLikelihoodBase"), "_shaped_noise_covar")
    names = [a.arg for a in fn.args.args]
    if names[:4] != ["self", "shape", "add_noise", "interleaved"]:
        _fail("multitask _shaped_noise_covar: signature changed", fn.args)
    body = _body(fn)
    info = {}
    i = 0
    # --- no task noise
    s = body[i]
    if not (isinstance(s, ast.If) and _src(s.test) == "not self.has_task_noise" and not s.orelse):
        _fail("multitask: first statement must be `if not self.has_task_noise:`", s)
    ret = [t for t in s.body if isinstance(t, ast.Return)]
    asg = {t.targets[0].id: t.value for t in s.body if isinstance(t, ast.Assign) and isinstance(t.targets[0], ast.Name)}
    v = ret[0].value if ret else None
    if isinstance(v, ast.Name) and v.id in asg:
        v = asg[v.id]
    if not (_call_name(v) == "ConstantDiagLinearOperator" and _is_self_attr(v.args[0], "noise")
            and {k.arg: _src(k.value) for k in v.keywords} == {"diag_shape": "shape[-2] * self.num_tasks"}):
        _fail("multitask: the no-task-noise branch must return ConstantDiagLinearOperator(self.noise, diag_shape=shape[-2] * self.num_tasks)", s)
    i += 1
    # --- rank switch
    s = body[i]
    if not (isinstance(s, ast.If) and _src(s.test) == "self.rank == 0" and s.orelse):
        _fail("multitask: expected `if self.rank == 0: ... else: ...`", s)

    def branch(stmts):
        tv = ck = None
        local = {}
        for t in stmts:
            if isinstance(t, ast.Assign) and len(t.targets) == 1 and isinstance(t.targets[0], ast.Name):
                local[t.targets[0].id] = t.value
                if t.targets[0].id == "task_var_lt":
                    tv = t.value
                if t.targets[0].id == "ckl_init":
                    ck = _src(t.value)
            elif isinstance(t, ast.Assign) and isinstance(t.targets[0], ast.Tuple):
                continue    # dtype, device
            else:
                _fail("multitask: statement outside the vocabulary in the rank switch", t)
        return tv, ck, local
    tv0, ck0, loc0 = branch(s.body)
    tv1, ck1, loc1 = branch(s.orelse)
    a0 = tv0.args[0] if _call_name(tv0) == "DiagLinearOperator" and len(tv0.args) == 1 else None
    if isinstance(a0, ast.Name) and a0.id in loc0:
        a0 = loc0[a0.id]
    if a0 is None or _src(a0) != "self.raw_task_noises_constraint.transform(self.raw_task_noises)":
        _fail("multitask: rank 0 must use DiagLinearOperator(<constrained task_noises>)", tv0)
    a1 = tv1.args[0] if _call_name(tv1) == "RootLinearOperator" and len(tv1.args) == 1 else None
    if isinstance(a1, ast.Name) and a1.id in loc1:
        a1 = loc1[a1.id]
    if a1 is None or _src(a1) != "self.task_noise_covar_factor":
        _fail("multitask: rank > 0 must use RootLinearOperator(self.task_noise_covar_factor)", tv1)
    if ck0 not in ("KroneckerProductDiagLinearOperator", "KroneckerProductLinearOperator") or \
            ck1 != "KroneckerProductLinearOperator":
        _fail("multitask: Kronecker constructors outside the vocabulary")
    i += 1
    # --- identity, expand, global noise, layout
    glob = None
    orders = None
    for s in body[i:]:
        if isinstance(s, ast.Assign) and _is_name(s.targets[0], "eye_lt"):
            v = s.value
            if not (_call_name(v) == "ConstantDiagLinearOperator" and _call_name(v.args[0]) == "ones"
                    and {k.arg: _src(k.value) for k in v.keywords} == {"diag_shape": "shape[-2]"}):
                _fail("multitask: eye_lt must be the n x n identity", s)
        elif isinstance(s, ast.Assign) and _is_name(s.targets[0], "task_var_lt") and _call_name(s.value) == "expand" \
                and _is_name(s.value.func.value, "task_var_lt"):
            pass
        elif isinstance(s, ast.If) and "has_global_noise" in _src(s.test):
            if _src(s.test) != "add_noise and self.has_global_noise" or s.orelse:
                _fail("multitask: global-noise condition outside the vocabulary", s.test)
            asg = {}
            for t in s.body:
                if not (isinstance(t, ast.Assign) and isinstance(t.targets[0], ast.Name)):
                    _fail("multitask: statement outside the vocabulary in the global-noise branch", t)
                asg[t.targets[0].id] = t.value
            nz = asg.get("noise")
            if not (_call_name(nz) == "ConstantDiagLinearOperator" and _is_self_attr(nz.args[0], "noise")):
                _fail("multitask: global noise must be ConstantDiagLinearOperator(self.noise, ...)", nz)
            if _src(asg.get("task_var_lt")) not in ("task_var_lt + noise", "noise + task_var_lt"):
                _fail("multitask: global noise must be added to the task block once", asg.get("task_var_lt"))
            glob = True
        elif isinstance(s, ast.If) and _src(s.test) == "interleaved":
            def order(stmts):
                if len(stmts) != 1 or not (isinstance(stmts[0], ast.Assign) and _is_name(stmts[0].targets[0], "covar_kron_lt")
                                           and _call_name(stmts[0].value) == "ckl_init" and len(stmts[0].value.args) == 2):
                    _fail("multitask: layout branch must be covar_kron_lt = ckl_init(a, b)", stmts[0] if stmts else None)
                o = tuple(_src(a) for a in stmts[0].value.args)
                if sorted(o) != ["eye_lt", "task_var_lt"]:
                    _fail("multitask: Kronecker operands outside the vocabulary", stmts[0])
                return o
            orders = (order(s.body), order(s.orelse))
        elif isinstance(s, ast.Return):
            if not _is_name(s.value, "covar_kron_lt"):
                _fail("multitask: must return covar_kron_lt", s)
        else:
            _fail("multitask: statement outside the vocabulary", s)
    if glob is None or orders is None:
        _fail("multitask: global-noise or layout branch missing")
    info["orders"] = orders
    return info


# ---------------------------------------------------------------------------------------------- likelihood_list.py

def likelihood_list(tree, meth):
    fn = _method(_cls(tree, "LikelihoodList"), meth)
    body = _body(fn)
    if len(body) != 1 or not (isinstance(body[0], ast.If) and _src(body[0].test) == "'noise' in kwargs"):
        _fail(f"LikelihoodList.{meth}: expected `if 'noise' in kwargs: ... else: ...`", body[0] if body else None)
    node = body[0]
    callee_attr = None if meth == "__call__" else meth

    def comp(ret, with_noise):
        if not (isinstance(ret, ast.Return) and isinstance(ret.value, ast.ListComp) and len(ret.value.generators) == 1):
            _fail(f"LikelihoodList.{meth}: branch must return one list comprehension", ret)
        g = ret.value.generators[0]
        if g.ifs or _call_name(g.iter) not in ("length_safe_zip", "zip"):
            _fail(f"LikelihoodList.{meth}: comprehension must iterate a zip of members, arguments[, noise]", g.iter)
        safe = _call_name(g.iter) == "length_safe_zip"
        srcs = [_src(a) for a in g.iter.args]
        want = ["self.likelihoods", "_get_tuple_args_(*args)"] + (["noise"] if with_noise else [])
        if sorted(srcs) != sorted(want):
            _fail(f"LikelihoodList.{meth}: zip operands outside the vocabulary", g.iter)
        tg = [t.id for t in g.target.elts] if isinstance(g.target, ast.Tuple) else None
        if tg is None or len(tg) != len(srcs):
            _fail(f"LikelihoodList.{meth}: zip target outside the vocabulary", g.target)
        bind = dict(zip(tg, srcs))   # loop variable -> zip operand
        call = ret.value.elt
        f = call.func
        callee = f if callee_attr is None else (f.value if isinstance(f, ast.Attribute) and f.attr == callee_attr else None)
        if not (isinstance(callee, ast.Name) and callee.id in bind):
            _fail(f"LikelihoodList.{meth}: callee is not a loop variable", call)
        if len(call.args) != 1 or not (isinstance(call.args[0], ast.Starred) and isinstance(call.args[0].value, ast.Name)
                                       and call.args[0].value.id in bind):
            _fail(f"LikelihoodList.{meth}: member must be called with exactly *<argument tuple>", call)
        noise_src = None
        stars = [k.value for k in call.keywords if k.arg is None]
        named = [k for k in call.keywords if k.arg is not None]
        if named or len(stars) != 1:
            _fail(f"LikelihoodList.{meth}: member call keywords outside the vocabulary", call)
        d = stars[0]
        if with_noise:
            if not (isinstance(d, ast.Dict) and len(d.keys) == 2 and d.keys[0] is None and _is_name(d.values[0], "kwargs")
                    and isinstance(d.keys[1], ast.Constant) and d.keys[1].value == "noise"
                    and isinstance(d.values[1], ast.Name) and d.values[1].id in bind):
                _fail(f"LikelihoodList.{meth}: per-member noise must be passed as **{{**kwargs, 'noise': <loop variable>}}", call)
            noise_src = bind[d.values[1].id]
        elif not _is_name(d, "kwargs"):
            _fail(f"LikelihoodList.{meth}: plain branch must pass **kwargs", call)
        return {"safe": safe, "order": srcs, "callee": bind[callee.id], "args": bind[call.args[0].value.id],
                "noise": noise_src}
    st = node.body
    if not (len(st) == 2 and isinstance(st[0], ast.Assign) and _src(st[0]) == "noise = kwargs.pop('noise')"):
        _fail(f"LikelihoodList.{meth}: noise branch must be `noise = kwargs.pop('noise')` followed by the comprehension",
              st[0] if st else None)
    a = comp(st[1], True)
    if len(node.orelse) != 1:
        _fail(f"LikelihoodList.{meth}: else branch outside the vocabulary")
    b = comp(node.orelse[0], False)
    return a, b


# ---------------------------------------------------------------------------------------------- HeteroskedasticNoise

def hetero_forward(tree):
    """`HeteroskedasticNoise.forward` -> {"branches": [...], "protocol": [...], "arms": {...}, "transform": bool}"""
    fn = _method(_cls(tree, "HeteroskedasticNoise"), "forward")
    if "noise" not in [a.arg for a in fn.args.kwonlyargs]:
        _fail("HeteroskedasticNoise.forward: expected the keyword-only argument `noise`")
    body = _body(fn)
    st = body[0] if body else None
    if not (isinstance(st, ast.If) and isinstance(st.test, ast.Compare) and _is_name(st.test.left, "noise")
            and isinstance(st.test.ops[0], ast.IsNot) and isinstance(st.test.comparators[0], ast.Constant)
            and st.test.comparators[0].value is None and not st.orelse and len(st.body) == 1
            and isinstance(st.body[0], ast.Return) and _call_name(st.body[0].value) == "DiagLinearOperator"
            and len(st.body[0].value.args) == 1 and _is_name(st.body[0].value.args[0], "noise")):
        _fail("HeteroskedasticNoise.forward: first statement must be `if noise is not None: return DiagLinearOperator(noise)`", st)
    proto, arms, transform = [], None, None
    mode_var = None

    def model_call(e):
        return (isinstance(e, ast.Call) and _is_self_attr(e.func, "noise_model") and len(e.args) == 1
                and isinstance(e.args[0], ast.Starred) and _src(e.args[0].value) in ("params", "params[0]") and not e.keywords)

    def events(stmts, prefix=""):
        nonlocal mode_var
        for t in stmts:
            if isinstance(t, ast.Assign) and len(t.targets) == 1 and isinstance(t.targets[0], ast.Name) \
                    and _src(t.value) == "self.noise_model.training":
                mode_var = t.targets[0].id
                proto.append(prefix + "save-mode")
            elif isinstance(t, ast.Expr) and _src(t.value) == "self.noise_model.eval()":
                proto.append(prefix + "eval")
            elif isinstance(t, ast.Expr) and isinstance(t.value, ast.Call) and _src(t.value.func) == "self.noise_model.train":
                if not (len(t.value.args) == 1 and _is_name(t.value.args[0], mode_var or "")):
                    _fail("HeteroskedasticNoise.forward: the mode must be restored to the remembered one", t)
                proto.append(prefix + "restore-mode")
            elif isinstance(t, ast.With):
                for it in t.items:     # settings contexts: detach_test_caches(False), debug(False)
                    if not (_call_name(it.context_expr) in ("detach_test_caches", "debug")):
                        _fail("HeteroskedasticNoise.forward: context manager outside the vocabulary", it.context_expr)
                events(t.body, prefix)
            elif isinstance(t, ast.If) and all(isinstance(u, ast.Assign) and _is_name(u.targets[0], "output") and model_call(u.value)
                                               for u in t.body + t.orelse) and t.orelse:
                proto.append(prefix + "call")       # `noise_model(*params[0])` / `noise_model(*params)`: how the inputs are packed
            elif isinstance(t, ast.Assign) and _is_name(t.targets[0], "output") and model_call(t.value):
                proto.append(prefix + "call")
            elif isinstance(t, ast.Try):
                if t.handlers or t.orelse:
                    _fail("HeteroskedasticNoise.forward: try with handlers is outside the vocabulary", t)
                events(t.body, prefix)
                events(t.finalbody, "finally:")
            else:
                return t
        return None

    rest = body[1:]
    k = 0
    while k < len(rest):
        r = events([rest[k]])
        if r is not None:
            break
        k += 1
    for t in rest[k:]:
        if isinstance(t, ast.If) and _src(t.test) == "not isinstance(output, MultivariateNormal)" and not t.orelse \
                and all(isinstance(u, ast.Raise) for u in t.body):
            continue
        if isinstance(t, ast.Assign) and _is_name(t.targets[0], "noise_diag"):
            v = t.value

            def arm(e):
                if _src(e) == "output.mean":
                    return "mean"
                if _src(e) == "output.mean[..., self._noise_indices]":
                    return "meanidx"
                _fail("HeteroskedasticNoise.forward: noise_diag arm outside the vocabulary", e)
            if isinstance(v, ast.IfExp) and _src(v.test) == "self._noise_indices is None":
                arms = {"none": arm(v.body), "idx": arm(v.orelse)}
            elif isinstance(v, ast.IfExp) and _src(v.test) == "self._noise_indices is not None":
                arms = {"idx": arm(v.body), "none": arm(v.orelse)}
            else:
                _fail("HeteroskedasticNoise.forward: noise_diag must be `output.mean if self._noise_indices is None else …`", v)
            continue
        if isinstance(t, ast.Return):
            v = t.value
            if _call_name(v) == "DiagLinearOperator" and len(v.args) == 1 and not v.keywords:
                if _src(v.args[0]) == "self._noise_constraint.transform(noise_diag)":
                    transform = True
                    continue
                if _is_name(v.args[0], "noise_diag"):
                    transform = False
                    continue
            _fail("HeteroskedasticNoise.forward: return value outside the vocabulary", v)
        _fail("HeteroskedasticNoise.forward: statement outside the vocabulary", t)
    if arms is None or transform is None:
        _fail("HeteroskedasticNoise.forward: incomplete")
    if arms != {"none": "mean", "idx": "meanidx"}:
        _fail(f"HeteroskedasticNoise.forward: noise_indices arms outside the vocabulary: {arms}")
    return {"protocol": proto, "transform": transform}


# ---------------------------------------------------------------------------------------------- Dirichlet

def _dscalar(e, env):
    """elementwise expression of `_prepare_targets` -> Lean scalar term (parameters `log`, `half`)"""
    if isinstance(e, ast.Name):
        if e.id in env:
            return env[e.id]
        _fail("Dirichlet _prepare_targets: unknown name", e)
    if isinstance(e, ast.Constant) and isinstance(e.value, (int, float)):
        if e.value == 1:
            return "1"
        if e.value == 0.5:
            return "half"
        if e.value == 2:
            return "(1 + 1)"
        _fail("Dirichlet _prepare_targets: constant outside the vocabulary", e)
    if isinstance(e, ast.BinOp):
        op = {ast.Add: "+", ast.Sub: "-", ast.Mult: "*", ast.Div: "/"}.get(type(e.op))
        if op is None:
            _fail("Dirichlet _prepare_targets: operator outside the vocabulary", e)
        return f"({_dscalar(e.left, env)} {op} {_dscalar(e.right, env)})"
    if isinstance(e, ast.Call) and isinstance(e.func, ast.Attribute):
        f = e.func
        if f.attr == "log" and _is_name(f.value, "torch") and len(e.args) == 1:
            return f"(log {_dscalar(e.args[0], env)})"
        if f.attr == "log" and not e.args:
            return f"(log {_dscalar(f.value, env)})"
        if f.attr == "reciprocal" and not e.args:
            return f"(1 / {_dscalar(f.value, env)})"
        if f.attr == "reciprocal" and _is_name(f.value, "torch") and len(e.args) == 1:
            return f"(1 / {_dscalar(e.args[0], env)})"
    _fail("Dirichlet _prepare_targets: expression outside the vocabulary", e)


def dirichlet(tree):
    cls = _cls(tree, "DirichletClassificationLikelihood")
    fn = _method(cls, "_prepare_targets")
    names = [a.arg for a in fn.args.args]
    if names[:3] != ["self", "targets", "alpha_epsilon"]:
        _fail("Dirichlet _prepare_targets: signature changed", fn.args)
    defaults = dict(zip(names[len(names) - len(fn.args.defaults):], fn.args.defaults))
    d = defaults.get("alpha_epsilon")
    if not (isinstance(d, ast.Constant) and isinstance(d.value, float)):
        _fail("Dirichlet _prepare_targets: alpha_epsilon must have a float default")
    info = {"default_eps": d.value, "has_nc_arg": "num_classes" in names}
    env = {}
    alpha0 = onehot = None
    ret = None

    def infer(v):
        return _src(v) == "int(targets.max() + 1)"
    for st in _body(fn):
        if isinstance(st, ast.Assign) and _is_name(st.targets[0], "num_classes") and infer(st.value):
            info["nc_infer"] = "always"
        elif isinstance(st, ast.If) and _src(st.test) == "num_classes is None" and not st.orelse and len(st.body) == 1 \
                and isinstance(st.body[0], ast.Assign) and _is_name(st.body[0].targets[0], "num_classes") and infer(st.body[0].value):
            info["nc_infer"] = "when-not-given"
        elif isinstance(st, ast.Assign) and _is_name(st.targets[0], "alpha") and alpha0 is None:
            v = st.value
            if not (isinstance(v, ast.BinOp) and isinstance(v.op, ast.Mult) and _is_name(v.left, "alpha_epsilon")
                    and _call_name(v.right) == "ones" and len(v.right.args) == 2):
                _fail("Dirichlet _prepare_targets: alpha must start as alpha_epsilon * torch.ones(n, num_classes)", st)
            dims = tuple(_src(a) for a in v.right.args)
            lay = {("targets.shape[-1]", "num_classes"): ("point", "class"), ("num_classes", "targets.shape[-1]"): ("class", "point")}.get(dims)
            if lay is None:
                _fail("Dirichlet _prepare_targets: shape of alpha outside the vocabulary", v.right)
            alpha0 = lay
        elif isinstance(st, ast.Assign) and isinstance(st.targets[0], ast.Subscript) and _is_name(st.targets[0].value, "alpha"):
            tgt = st.targets[0]
            idx = tgt.slice.elts if isinstance(tgt.slice, ast.Tuple) else None
            if idx is None or len(idx) != 2:
                _fail("Dirichlet _prepare_targets: one-hot index outside the vocabulary", st)
            kinds = tuple({"torch.arange(len(targets))": "arange", "targets": "labels"}.get(_src(a)) for a in idx)
            if None in kinds or sorted(kinds) != ["arange", "labels"]:
                _fail("Dirichlet _prepare_targets: one-hot index outside the vocabulary", st)
            v = st.value
            if not (isinstance(v, ast.BinOp) and isinstance(v.op, ast.Add) and _src(v.left) == _src(tgt)
                    and isinstance(v.right, ast.Constant) and v.right.value == 1):
                _fail("Dirichlet _prepare_targets: the label entry must be incremented by 1.0", st)
            onehot = kinds
        elif isinstance(st, ast.Assign) and isinstance(st.targets[0], ast.Name) and st.targets[0].id in ("sigma2_i", "transformed_targets"):
            if alpha0 is None or onehot is None:
                _fail("Dirichlet _prepare_targets: alpha is not complete before it is used", st)
            env.setdefault("alpha", "a")
            env[st.targets[0].id] = _dscalar(st.value, env)
        elif isinstance(st, ast.Return):
            ret = st.value
        else:
            _fail("Dirichlet _prepare_targets: statement outside the vocabulary", st)
    if ret is None or not isinstance(ret, ast.Tuple) or len(ret.elts) != 3 or "sigma2_i" not in env or "transformed_targets" not in env \
            or "nc_infer" not in info:
        _fail("Dirichlet _prepare_targets: incomplete")

    def ret_layout(e, name):
        """-> transposed?  accepts <name>[.transpose(-2, -1)][.type(dtype)]"""
        tr = False
        while isinstance(e, ast.Call) and isinstance(e.func, ast.Attribute):
            if e.func.attr == "type" and len(e.args) == 1:
                e = e.func.value
            elif e.func.attr == "transpose" and [_src(a) for a in e.args] in (["-2", "-1"], ["-1", "-2"]):
                tr = not tr
                e = e.func.value
            else:
                break
        if e.__class__ is ast.Attribute and e.attr == "mT":
            tr, e = not tr, e.value
        if not _is_name(e, name):
            _fail(f"Dirichlet _prepare_targets: returned {name} outside the vocabulary", e)
        return tr
    noise_tr = ret_layout(ret.elts[0], "sigma2_i")
    targ_tr = ret_layout(ret.elts[1], "transformed_targets")
    if not _is_name(ret.elts[2], "num_classes"):
        _fail("Dirichlet _prepare_targets: third return value must be num_classes", ret.elts[2])
    # entry [p, q] of alpha in the (dim0, dim1) layout of the tensor
    info.update(alpha_layout=list(alpha0), onehot=list(onehot), noise_transposed=noise_tr, sigma2=env["sigma2_i"],
                target=env["transformed_targets"])

    # ---- __init__
    init = _method(cls, "__init__")
    got = {}
    for st in ast.walk(init):
        if isinstance(st, ast.Assign) and _call_name(st.value) == "_prepare_targets":
            c = st.value
            kws = {k.arg: _src(k.value) for k in c.keywords}
            if not (len(c.args) == 1 and _is_name(c.args[0], "targets") and kws.get("alpha_epsilon") == "alpha_epsilon"
                    and isinstance(st.targets[0], ast.Tuple) and len(st.targets[0].elts) == 3):
                _fail("Dirichlet __init__: must call self._prepare_targets(targets, alpha_epsilon=alpha_epsilon, …)", st)
            got["names"] = [_src(t) for t in st.targets[0].elts]
        if isinstance(st, ast.Call) and _src(st.func) == "super().__init__":
            kws = {k.arg: _src(k.value) for k in st.keywords if k.arg}
            got["super"] = kws
        if isinstance(st, (ast.Assign, ast.AnnAssign)) and st.value is not None:
            tg = _src(st.targets[0] if isinstance(st, ast.Assign) else st.target)
            if tg == "self.transformed_targets":
                got["tt"] = st.value
            if tg in ("self.alpha_epsilon", "self.num_classes"):
                got[tg] = _src(st.value)
    if "names" not in got or "super" not in got or "tt" not in got:
        _fail("Dirichlet __init__: structure outside the vocabulary")
    if got["super"].get("noise") != got["names"][0] or got["super"].get("batch_shape") != f"torch.Size(({got['names'][2]},))":
        _fail("Dirichlet __init__: the fixed noise must be the first value of _prepare_targets and batch_shape (num_classes,)")
    if got.get("self.alpha_epsilon") != "alpha_epsilon" or got.get("self.num_classes") != got["names"][2]:
        _fail("Dirichlet __init__: self.alpha_epsilon / self.num_classes must record the constructor's values")
    info["target_transposed"] = targ_tr ^ ret_layout(got["tt"], got["names"][1])

    # ---- __call__(…, targets=…)
    call = _method(cls, "__call__")
    body = _body(call)
    if not (len(body) == 2 and isinstance(body[0], ast.If) and _src(body[0].test) == "'targets' in kwargs" and not body[0].orelse
            and isinstance(body[1], ast.Return) and _src(body[1].value) == "super().__call__(input, *args, **kwargs)"):
        _fail("Dirichlet __call__: expected `if 'targets' in kwargs: …` followed by `return super().__call__(input, *args, **kwargs)`")
    noise_name = None
    wrote = False
    for st in body[0].body:
        if isinstance(st, ast.Assign) and _src(st) == "targets = kwargs.pop('targets')":
            continue
        if isinstance(st, ast.Assign) and _is_name(st.targets[0], "dtype"):
            continue
        if isinstance(st, ast.Assign) and _call_name(st.value) == "_prepare_targets":
            c = st.value
            if not (len(c.args) == 1 and _is_name(c.args[0], "targets") and isinstance(st.targets[0], ast.Tuple)):
                _fail("Dirichlet __call__: _prepare_targets must be applied to the call-time targets", st)
            kws = {k.arg: _src(k.value) for k in c.keywords}
            e = kws.get("alpha_epsilon")
            info["call_eps"] = {"self.alpha_epsilon": "self", None: "default"}.get(e)
            ncs = kws.get("num_classes")
            info["call_nc"] = {"self.num_classes": "self", None: "infer"}.get(ncs)
            if info["call_eps"] is None or info["call_nc"] is None:
                _fail("Dirichlet __call__: alpha_epsilon / num_classes argument outside the vocabulary", c)
            noise_name = _src(st.targets[0].elts[0])
            continue
        if isinstance(st, ast.Assign) and _src(st.targets[0]) == "kwargs['noise']" and _src(st.value) == noise_name:
            wrote = True
            continue
        _fail("Dirichlet __call__: statement outside the vocabulary", st)
    if not wrote or "call_eps" not in info:
        _fail("Dirichlet __call__: the transformed call-time targets must become kwargs['noise']")
    return info


# ---------------------------------------------------------------------------------------------- missing observations

def missing_obs(tree):
    cls = _cls(tree, "GaussianLikelihoodWithMissingObs")
    fill = None
    for st in cls.body:
        if isinstance(st, ast.AnnAssign) and _is_name(st.target, "MISSING_VALUE_FILL"):
            v = st.value
            if isinstance(v, ast.UnaryOp) and isinstance(v.op, ast.USub) and isinstance(v.operand, ast.Constant):
                fill = -v.operand.value
            elif isinstance(v, ast.Constant):
                fill = v.value
    if not isinstance(fill, (int, float)) or fill != fill or fill in (float("inf"), float("-inf")):
        _fail("GaussianLikelihoodWithMissingObs: MISSING_VALUE_FILL must be a finite constant")
    fn = _method(cls, "_get_masked_obs")
    b = [_src(x) for x in _body(fn)]
    if b != ["missing_idx = x.isnan()", "x_masked = x.masked_fill(missing_idx, self.MISSING_VALUE_FILL)",
             "return (missing_idx, x_masked)"]:
        _fail("GaussianLikelihoodWithMissingObs._get_masked_obs: body outside the vocabulary", fn)
    info = {"fill": fill}
    for meth, arg, sup in (("expected_log_prob", "target", "super().expected_log_prob(target, input, *params, **kwargs)"),
                           ("log_marginal", "observations", "super().log_marginal(observations, function_dist, *params, **kwargs)")):
        b = _body(_method(cls, meth))
        if not (len(b) == 3 and _src(b[0]) == f"missing_idx, {arg} = self._get_masked_obs({arg})"
                and _src(b[1]) == f"res = {sup}" and isinstance(b[2], ast.Return)):
            _fail(f"GaussianLikelihoodWithMissingObs.{meth}: body outside the vocabulary", b[0] if b else None)
        r = _src(b[2].value)
        mask = {"res * ~missing_idx": "observed", "~missing_idx * res": "observed", "res * missing_idx": "missing",
                "res": "none"}.get(r)
        if mask is None:
            _fail(f"GaussianLikelihoodWithMissingObs.{meth}: return value outside the vocabulary", b[2])
        info[meth] = mask
    b = _body(_method(cls, "marginal"))
    if not (len(b) == 1 and isinstance(b[0], ast.Return) and _src(b[0].value) == "super().marginal(function_dist, *args, **kwargs)"):
        _fail("GaussianLikelihoodWithMissingObs.marginal: must be the GaussianLikelihood marginal")
    return info


# ---------------------------------------------------------------------------------------------- FixedGaussianNoise._apply

def fixed_apply(tree):
    """`FixedGaussianNoise._apply(fn)` -> operations applied to the stored noise, in order ("fn", then e.g.
    "clamp_min(<m>)"): straight-line / guarded re-bindings of a local that ends in `self.noise`."""
    fn = _method(_cls(tree, "FixedGaussianNoise"), "_apply")
    if [a.arg for a in fn.args.args] != ["self", "fn"]:
        _fail("FixedGaussianNoise._apply: signature changed", fn.args)
    val = {"self.noise": []}      # expression text -> list of operations applied to the original stored noise
    consts = set()
    final, returned = None, False

    def ev(e):
        if _src(e) in val:
            return list(val[_src(e)])
        if isinstance(e, ast.Call) and _is_name(e.func, "fn") and len(e.args) == 1 and not e.keywords:
            return ev(e.args[0]) + ["fn"]
        if isinstance(e, ast.Call) and isinstance(e.func, ast.Attribute) and not e.keywords:
            return ev(e.func.value) + [f"{e.func.attr}({', '.join(_src(a) for a in e.args)})"]
        _fail("FixedGaussianNoise._apply: expression outside the vocabulary", e)

    def run(stmts):
        nonlocal final, returned
        for st in stmts:
            if isinstance(st, ast.Assign) and len(st.targets) == 1 and _src(st.targets[0]) == "self.noise":
                final = ev(st.value)
                val["self.noise"] = final
            elif isinstance(st, ast.Assign) and len(st.targets) == 1 and isinstance(st.targets[0], ast.Name):
                try:
                    val[st.targets[0].id] = ev(st.value)
                except TranslateError:
                    consts.add(st.targets[0].id)       # a constant (e.g. `min_noise = settings.min_fixed_noise.value(…)`)
            elif isinstance(st, ast.If) and not st.orelse:
                run(st.body)                            # a guarded re-binding counts as applied
            elif isinstance(st, ast.Return) and _src(st.value) in ("super(FixedGaussianNoise, self)._apply(fn)", "super()._apply(fn)"):
                returned = True
            else:
                _fail("FixedGaussianNoise._apply: statement outside the vocabulary", st)
    run(_body(fn))
    if final is None or not returned:
        _fail("FixedGaussianNoise._apply: must assign self.noise and return super()._apply(fn)")
    return final


# ---------------------------------------------------------------------------------------------- property getters

_INPLACE_OK = {"requires_grad_"}        # not a value write; (not used by any getter today)
_MUTATING_CALLS = {"setattr", "delattr", "initialize", "load_state_dict", "register_parameter", "register_buffer",
                   "register_prior", "register_constraint", "append", "extend", "update", "pop", "clear", "insert",
                   "remove", "setdefault", "fill_diagonal_", "set_", "copy_", "zero_", "fill_"}


def _alias_root(e, alias):
    """source text of the state a (possibly local) expression aliases: local names are followed through plain
    re-bindings (`x = self.a.b`, views), anything else is named by its own text."""
    seen = 0
    while seen < 20:
        seen += 1
        if isinstance(e, ast.Name) and e.id in alias:
            e = alias[e.id]
            continue
        if isinstance(e, ast.Subscript):
            e = e.value
            continue
        if isinstance(e, ast.Call) and isinstance(e.func, ast.Attribute) and e.func.attr in (_SHAPE_METHODS | {"detach", "data"}):
            e = e.func.value
            continue
        if isinstance(e, ast.Attribute) and e.attr == "data":
            e = e.value
            continue
        break
    return _src(e)


def getter_writes(fn):
    """state writes performed by the body of a property getter, in source order (names of what is written).  A getter is
    an *observation*: assignments to attributes / items, augmented assignments (in place for tensors, also through a local
    alias), in-place tensor methods (`x.add_(…)`), `del`, and the mutating calls of `_MUTATING_CALLS` are writes."""
    alias, writes = {}, []
    for node in ast.walk(fn):
        if isinstance(node, ast.Assign) and len(node.targets) == 1 and isinstance(node.targets[0], ast.Name):
            alias.setdefault(node.targets[0].id, node.value)
    for node in ast.walk(fn):
        if isinstance(node, ast.AugAssign):
            writes.append(_alias_root(node.target, alias))
        elif isinstance(node, (ast.Assign, ast.AnnAssign)):
            tgts = node.targets if isinstance(node, ast.Assign) else [node.target]
            for t in tgts:
                for u in (t.elts if isinstance(t, (ast.Tuple, ast.List)) else [t]):
                    if isinstance(u, (ast.Attribute, ast.Subscript)):
                        writes.append(_alias_root(u, alias))
        elif isinstance(node, ast.Delete):
            writes += [_alias_root(t, alias) for t in node.targets]
        elif isinstance(node, (ast.Global, ast.Nonlocal)):
            writes += list(node.names)
        elif isinstance(node, ast.Call):
            nm = _call_name(node)
            if nm is None:
                continue
            inplace = nm.endswith("_") and not nm.startswith("_") and nm not in _INPLACE_OK
            if inplace or nm in _MUTATING_CALLS:
                recv = node.func.value if isinstance(node.func, ast.Attribute) else (node.args[0] if node.args else node)
                writes.append(_alias_root(recv, alias))
    return writes


def property_getters(trees):
    """[(Class.name, [writes…])] for every `@property` getter of every top-level class of the given modules."""
    out = []
    for tree in trees:
        for c in tree.body:
            if not isinstance(c, ast.ClassDef):
                continue
            for f in c.body:
                if isinstance(f, ast.FunctionDef) and any(_is_name(d, "property") for d in f.decorator_list):
                    out.append((f"{c.name}.{f.name}", getter_writes(f)))
    return sorted(out)


# ---------------------------------------------------------------------------------------------- emit

_CONDS = {"call": "call.isSome", "sizematch": "stored.size = n"}
_RETS = {"diagcall": "Noise.retDiagCall call", "diagstored": "Noise.retDiagStored stored n", "zero": "DMat.zero",
         "constdiag": "Noise.homo n s"}


def _chain(branches):
    out = []
    for c, r in branches:
        out.append(f"if {_CONDS[c]} then {_RETS[r]}" if c != "else" else _RETS[r])
    return "\n  else ".join(out)


def _mat(e):
    if isinstance(e, tuple):
        return f"({_mat(e[1])}).add ({_mat(e[2])})"
    return e


def _compose(pre, post):
    t = "x"
    k = 0
    for _o in pre:
        t = f"extra {k} ({t})"
        k += 1
    t = f"fn ({t})"
    for _o in post:
        t = f"extra {k} ({t})"
        k += 1
    return t


def _lstr(x):
    """Lean string literal"""
    return '"' + x.replace("\\", "\\\\").replace('"', '\\"').replace("\n", " ") + '"'


def _route(d, with_noise):
    """Lean term for one zip branch; operands are named by what they are, not by position."""
    nm = {"self.likelihoods": "l", "_get_tuple_args_(*args)": "a", "noise": "ν"}
    trip = f"({nm[d['callee']]}, {nm[d['args']]}, {'some ' + nm[d['noise']] if with_noise else 'none'})"
    if nm[d["callee"]] != "l" or nm[d["args"]] != "a" or (with_noise and nm[d["noise"]] != "ν"):
        # a member called with another member's data: express it literally (the equality theorem will fail)
        pass
    if with_noise:
        guard = "liks.length = args.length ∧ args.length = ns.length" if d["safe"] else "True"
        return (f"if {guard} then\n      some (List.zipWith (fun l aν => let a := aν.1; let ν := aν.2; {trip}) liks (List.zip args ns))\n"
                f"    else none")
    guard = "liks.length = args.length" if d["safe"] else "True"
    return f"if {guard} then some (List.zipWith (fun l a => {trip}) liks args) else none"


def render(repo):
    nm = _parse(repo, "gpytorch/likelihoods/noise_models.py")
    gl = _parse(repo, "gpytorch/likelihoods/gaussian_likelihood.py")
    mt = _parse(repo, "gpytorch/likelihoods/multitask_gaussian_likelihood.py")
    ll = _parse(repo, "gpytorch/likelihoods/likelihood_list.py")
    fixed = fixed_forward(nm)
    homo = homo_forward(nm)
    marg = marginal(gl)
    fwd1, fwd2 = fixed_shaped(gl)
    elp = expected_log_prob(gl)
    lm_var, clamp = log_marginal(gl, marg)
    mti = multitask(mt)
    call_n, call_p = likelihood_list(ll, "__call__")
    fwd_n, fwd_p = likelihood_list(ll, "forward")
    getters = property_getters([nm, gl, mt, ll])
    het = hetero_forward(nm)
    fapply = fixed_apply(nm)
    if fapply.count("fn") != 1:
        _fail(f"FixedGaussianNoise._apply: `fn` must be applied exactly once: {fapply}")
    fpost = [o for o in fapply[fapply.index("fn") + 1:]]
    fpre = fapply[:fapply.index("fn")]
    dirc = dirichlet(gl)
    miss = missing_obs(gl)
    from fractions import Fraction
    T = "transform " if het["transform"] else ""
    # alpha[p, q] is incremented at the index pairs (arange_j, labels_j) resp. (labels_j, arange_j)
    cond = "labels p = q" if dirc["onehot"] == ["arange", "labels"] else "labels q = p"
    # alpha of (point i, class c) in the (dim0, dim1) layout of the tensor
    at_ic = "i c" if dirc["alpha_layout"] == ["point", "class"] else "c i"
    at_ci = "c i" if dirc["alpha_layout"] == ["point", "class"] else "i c"
    # the likelihood reads the noise tensor as [class (batch), point]: entry [c, i] of the returned tensor
    noise_at = at_ic if dirc["noise_transposed"] else at_ci
    targ_at = at_ic if dirc["target_transposed"] else at_ci
    masks = {"observed": "(if missing then 0 else 1)", "missing": "(if missing then 1 else 0)", "none": "1"}
    fillq = Fraction(miss["fill"])

    def kron(order):
        if order == ("eye_lt", "task_var_lt"):
            return "Noise.kronFlat (DMat.one : DMat n n α) tv (n * t) rfl"
        return "Noise.kronFlat tv (DMat.one : DMat n n α) (n * t) (Nat.mul_comm n t)"
    o_il, o_nil = mti["orders"]
    facts = {"fixed_forward": fixed, "homo_forward": homo, "marginal": marg, "fixed_forwards_noise": [fwd1, fwd2],
             "multitask_orders": [list(o_il), list(o_nil)], "list_call": [call_n, call_p], "list_forward": [fwd_n, fwd_p],
             "log_marginal_clamp": clamp, "property_getters": [[g, w] for g, w in getters],
             "hetero": het, "dirichlet": dirc, "missing_obs": miss,
             "fixed_apply": fapply}
    getters_lean = ",\n   ".join(f"({_lstr(g)}, [{', '.join(_lstr(x) for x in w)}])" for g, w in getters)
    text = f"""/-
GENERATED by harness/translate/g7_noise_models.py from $VERIF_REPO/gpytorch/likelihoods/
(noise_models.py, gaussian_likelihood.py, multitask_gaussian_likelihood.py, likelihood_list.py) — do not edit.
Decision structure and closed-form expressions of the Gaussian-family noise plumbing, over the return-value
vocabulary of GPVerif/Model/Noise.lean.  Props/C12.lean proves these equal to the specification; drivers/C12.lean runs them.
-/
import GPVerif.Model.Noise
import GPVerif.Model.NoiseExtra

set_option linter.unusedVariables false

namespace Gen.NoiseModels
variable {{α : Type}}

/-- `FixedGaussianNoise.forward` — branches in source order: {fixed}. -/
def fixedForward [Zero α] (stored : Array α) (n : Nat) (call : Option (Fin n → α)) : DMat n n α :=
  {_chain(fixed)}

/-- `_HomoskedasticNoiseBase.forward` — branches in source order: {homo}. -/
def homoForward [Zero α] (s : α) (n : Nat) (call : Option (Fin n → α)) : DMat n n α :=
  {_chain(homo)}

/-- `FixedNoiseGaussianLikelihood._shaped_noise_covar` — call-time noise reaches noise_covar: {fwd1}; reaches
second_noise_covar: {fwd2}. -/
def fixedShaped [Zero α] [Add α] (stored : Array α) (learned : Option α) (n : Nat)
    (call : Option (Fin n → α)) : DMat n n α :=
  let res := fixedForward stored n {'call' if fwd1 else 'none'}
  match learned with
  | none => res
  | some s => res.add (homoForward s n {'call' if fwd2 else 'none'})

/-- `_GaussianLikelihoodBase.marginal`: `full_covar`. -/
def marginalExpr [Add α] {{n : Nat}} (C R : DMat n n α) : DMat n n α := {_mat(marg)}

/-- `_GaussianLikelihoodBase.expected_log_prob`: the elementwise expression (`res`, after `.mul(-0.5)`). -/
def expectedLogProbExpr [Add α] [Sub α] [Mul α] [Div α] [Neg α] (log : α → α) (log2pi half : α)
    (y m v r : α) : α :=
  {elp}

/-- `_GaussianLikelihoodBase.log_marginal`: `Normal(marginal.mean, sqrt(clamp_min(marginal.variance, {clamp}))).log_prob(y)`;
the marginal variance is the diagonal of `full_covar`. -/
def logMarginalExpr [Add α] [Sub α] [Mul α] [Div α] [Neg α] (log : α → α) (log2pi half : α)
    (y m v r : α) : α :=
  Noise.normalLogProb log log2pi half y m {lm_var}

/-- rank switch of the multitask likelihood: rank 0 → `DiagLinearOperator(task_noises)`, rank > 0 →
`RootLinearOperator(task_noise_covar_factor)`. -/
def taskVar [Mul α] [AddCommMonoid α] {{t : Nat}} : Noise.TaskNoise t α → DMat t t α
  | .diag d => DMat.diagonal d
  | .root _ F => F.mul F.transpose

/-- `_MultitaskGaussianLikelihoodBase._shaped_noise_covar` — Kronecker operands: interleaved {list(o_il)},
otherwise {list(o_nil)}. -/
def mtShaped [One α] [Mul α] [AddCommMonoid α] {{t : Nat}} (cfg : Noise.MTConfig t α) (n : Nat)
    (interleaved : Bool) : DMat (n * t) (n * t) α :=
  match cfg.task with
  | none => Noise.homo (n * t) (cfg.global.getD 0)
  | some T =>
    let tv0 := taskVar T
    let tv := match cfg.global with
      | some s => tv0.add (Noise.homo t s)
      | none => tv0
    if interleaved then {kron(o_il)}
    else {kron(o_nil)}

/-- `LikelihoodList.__call__`. -/
def listCallRoute {{L A N : Type}} (liks : List L) (args : List A) (noise : Option (List N)) :
    Option (List (L × A × Option N)) :=
  match noise with
  | none => {_route(call_p, False)}
  | some ns =>
    {_route(call_n, True)}

/-- `LikelihoodList.forward`. -/
def listForwardRoute {{L A N : Type}} (liks : List L) (args : List A) (noise : Option (List N)) :
    Option (List (L × A × Option N)) :=
  match noise with
  | none => {_route(fwd_p, False)}
  | some ns =>
    {_route(fwd_n, True)}

/-- `FixedGaussianNoise._apply(fn)`: operations on the stored noise in source order: {fapply}
(`extra k` stands for the k-th operation other than `fn`, about which nothing is assumed). -/
def fixedApplyGen (fn : α → α) (extra : Nat → α → α) (stored : Array α) : Array α :=
  stored.map fun x => {_compose(fpre, fpost)}

/-- the operations, by name. -/
def fixedApplyOps : List String := [{', '.join(_lstr(x) for x in fapply)}]

/-! ### `HeteroskedasticNoise.forward` -/

/-- single-output noise model: call-time noise first, else `DiagLinearOperator({'constraint.transform(' if het['transform'] else '('}output.mean))`. -/
def heteroForward [Zero α] (transform : α → α) (n : Nat) (μ : Fin n → α) (call : Option (Fin n → α)) : DMat n n α :=
  if call.isSome then Noise.retDiagCall call
  else DMat.diagonal fun i => {T}(μ i)

/-- multi-output noise model with `noise_indices`: `{'transform(' if het['transform'] else '('}output.mean[..., noise_indices])` of one point. -/
def heteroTaskDiagGen {{t k : Nat}} (transform : α → α) (μ : Fin t → α) (idx : Fin k → Fin t) : Fin k → α :=
  fun a => {T}(μ (idx a))

/-- mode handling around the call of the noise model, in source order. -/
def heteroProtocolGen : List String := [{', '.join(_lstr(x) for x in het['protocol'])}]

/-! ### `DirichletClassificationLikelihood` -/

/-- `alpha[p, q]` after the one-hot increment (tensor layout {dirc['alpha_layout']}, index {dirc['onehot']}). -/
def dirAlphaEntryGen [Add α] [Mul α] [One α] (eps : α) (labels : Nat → Nat) (p q : Nat) : α :=
  if {cond} then (eps * 1) + 1 else (eps * 1)

/-- `sigma2_i` as a function of one entry `a` of `alpha`. -/
def dirSigma2Gen [Add α] [Sub α] [Mul α] [Div α] [One α] (log : α → α) (half : α) (a : α) : α :=
  {dirc['sigma2']}

/-- `transformed_targets` as a function of one entry `a` of `alpha`. -/
def dirTargetGen [Add α] [Sub α] [Mul α] [Div α] [One α] (log : α → α) (half : α) (a : α) : α :=
  {dirc['target']}

/-- entry `[c, i]` (class = batch element, point) of the noise tensor handed to `FixedGaussianNoise`
(returned tensor transposed: {dirc['noise_transposed']}). -/
def dirNoiseEntryGen [Add α] [Sub α] [Mul α] [Div α] [One α] (log : α → α) (half eps : α) (labels : Nat → Nat)
    (c i : Nat) : α :=
  dirSigma2Gen log half (dirAlphaEntryGen eps labels {noise_at})

/-- entry `[c, i]` of `self.transformed_targets` (transposed in total: {dirc['target_transposed']}). -/
def dirTargetEntryGen [Add α] [Sub α] [Mul α] [Div α] [One α] (log : α → α) (half eps : α) (labels : Nat → Nat)
    (c i : Nat) : α :=
  dirTargetGen log half (dirAlphaEntryGen eps labels {targ_at})

/-- `__call__(…, targets=…)`: `alpha_epsilon` used for the call-time labels ({dirc['call_eps']}; default of `_prepare_targets`: {dirc['default_eps']}). -/
def dirCallEps (epsSelf epsDefault : α) : α := {'epsSelf' if dirc['call_eps'] == 'self' else 'epsDefault'}

/-- … and the number of classes (rows of the call-time noise): {dirc['call_nc']}. -/
def dirCallNumClasses (ncSelf ncInferred : Nat) : Nat := {'ncSelf' if dirc['call_nc'] == 'self' else 'ncInferred'}

/-- the noise operator of class `c` (batch element `c` of the likelihood): `FixedNoiseGaussianLikelihood._shaped_noise_covar`
on the transformed labels; call-time labels become the call-time `noise`. -/
def dirichletShaped [Zero α] [Add α] [Sub α] [Mul α] [Div α] [One α] (log : α → α) (half eps epsDefault : α)
    (labels : Nat → Nat) (N c : Nat) (learned : Option α) (n : Nat) (callLabels : Option (Nat → Nat)) : DMat n n α :=
  fixedShaped (Array.ofFn (n := N) fun i => dirNoiseEntryGen log half eps labels c i.1) learned n
    (callLabels.map fun ls => fun i : Fin n => dirNoiseEntryGen log half (dirCallEps eps epsDefault) ls c i.1)

/-! ### `GaussianLikelihoodWithMissingObs` -/

/-- `MISSING_VALUE_FILL` = {miss['fill']}. -/
def missingFillValue : Rat := ({fillq.numerator} : Int) / ({fillq.denominator} : Nat)

/-- `expected_log_prob`: `_get_masked_obs`, the GaussianLikelihood term on the filled target, times the mask ({miss['expected_log_prob']}). -/
def missingElpGen [Zero α] [One α] [Add α] [Sub α] [Mul α] [Div α] [Neg α] (log : α → α) (log2pi half fill : α)
    (y : Option α) (m v r : α) : α :=
  let missing := y.isNone
  let target := y.getD fill
  (expectedLogProbExpr log log2pi half target m v r) * {masks[miss['expected_log_prob']]}

/-- `log_marginal`: likewise (mask: {miss['log_marginal']}). -/
def missingLmGen [Zero α] [One α] [Add α] [Sub α] [Mul α] [Div α] [Neg α] (log : α → α) (log2pi half fill : α)
    (y : Option α) (m v r : α) : α :=
  let missing := y.isNone
  let target := y.getD fill
  (logMarginalExpr log log2pi half target m v r) * {masks[miss['log_marginal']]}

/-- `marginal` is the GaussianLikelihood marginal. -/
def missingMarginalGen [Add α] {{n : Nat}} (C R : DMat n n α) : DMat n n α := marginalExpr C R

/-- every `@property` getter of the classes of the four files, with the state writes its body performs (assignments to
attributes / items, augmented assignments also through a local alias, in-place tensor methods, mutating calls). -/
def propertyGetters : List (String × List String) :=
  [{getters_lean}]

end Gen.NoiseModels
"""
    return text, facts


def generate(repo, out_path):
    """Regenerate the Lean file; returns (facts, changed)."""
    text, facts = render(repo)
    old = open(out_path).read() if os.path.exists(out_path) else None
    if old != text:
        with open(out_path, "w") as fh:
            fh.write(text)
    return facts, old != text


if __name__ == "__main__":
    import sys
    print(render(sys.argv[1] if len(sys.argv) > 1 else "/repo")[0])

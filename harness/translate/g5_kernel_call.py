"""G5 (wave 3, C06) — the MATRIX-LEVEL reading of the kernel code: `Kernel.covar_dist`, `Kernel.__call__`, the branch
selection of `RBFKernel.forward` / `MaternKernel.forward`, and the lifting of the per-pair terms of
`Gen/KernelFormulas.lean` / `Gen/Formulas.lean` (translators g5_kernels / g5_formulas, owned by C05) to whole inputs.

Sources (working tree of $VERIF_REPO):
  gpytorch/kernels/kernel.py        Kernel.covar_dist  (last_dim_is_batch transpose, `torch.equal`, the `diag` branch:
                                    zeros / `torch.linalg.norm(x1 - x2)`[.pow(2)], else `sq_dist` / `dist`)
                                    Kernel.__call__    (input preparation: `active_dims` index_select, 1-d unsqueeze,
                                    size check, `x2 is None`, `ard_num_dims` check; the `diag=True` post-processing)
  gpytorch/kernels/rbf_kernel.py    RBFKernel.forward: branch condition, flags of the fast path's distance callback
  gpytorch/kernels/matern_kernel.py MaternKernel.forward: the same
and the two generated files themselves (they are regenerated first): for every per-pair definition the call sites of
the distance callbacks `sqd` / `distf` are read off the generated term — `sqd (A) (B)` — and the matrix-level definition

    <name>Mat P same θ X1 X2 i j := <name> (fun u v => covarDistEntry P diag sq same (i == j) u v (colMean (X1.map fun x1 => A))) …
                                          (X1.getD i []) (X2.getD j []) [mean := colMean X1] θ

is emitted: the centre that `sq_dist` subtracts is the mean of ALL rows of what the source passes as first argument.
`B` must be `A` with `x1` replaced by `x2`, every call site of one callback must pass the same `A`.

Output: lean/GPVerif/Gen/KernelCall.lean.

Vocabulary (anything else raises TranslateError — a broken tie):
  covar_dist:  `if last_dim_is_batch:` followed by exactly the two `x = x.transpose(-1, -2).unsqueeze(-1)`;
               `n = torch.equal(x1, x2)`; `n = None`; `if <flag>:`/`else:`; `return e`;  e ::= torch.zeros(..) |
               torch.linalg.norm(a - b, dim=-1) | e.pow(2) | e if <flag> else e | name | f(x1, x2, <equal>) with
               f ::= sq_dist | dist | f if <flag> else f
  __call__:    `a, b = c, d`; `a = b`; `r = r.index_select(-1, self.active_dims)`; `r = r.unsqueeze(k)`; `raise ..`;
               `if <guard>:` (no else) with guard ::= `self.active_dims is not None` | `r is [not] None` |
               `r.ndimension() == 1` | `not a.size(-1) == b.size(-1)` | `settings.debug.on()` |
               `self.ard_num_dims is not None and self.ard_num_dims != r.size(-1)`;  the deprecation warning;
               the final `if diag: … else: …` with the integer expressions of the `res.diagonal` decision
  forward:     `if (<or of atoms>): … return <generic>` / `return XCovariance.apply(x1, x2, self.lengthscale[, self.nu],
               lambda x1, x2: self.covar_dist(x1, x2, <constant keywords>, **params))`
What is trusted: the per-pair abstraction of g5_kernels / g5_formulas (their docstrings), `colMean` = `x.mean(-2)`,
`torch.equal` as the flag `same`, `torch.cdist` / `torch.linalg.norm` as `Prims`.
"""
import ast
import os
import re


class TranslateError(Exception):
    pass


def _fail(node, why):
    raise TranslateError(f"{why}: line {getattr(node, 'lineno', '?')}: {ast.unparse(node)[:160]}")


def _method(tree, cls, name):
    for n in tree.body:
        if isinstance(n, ast.ClassDef) and n.name == cls:
            for m in n.body:
                if isinstance(m, ast.FunctionDef) and m.name == name:
                    return m
    raise TranslateError(f"{cls}.{name} not found")


def _body(fn):
    b = list(fn.body)
    if b and isinstance(b[0], ast.Expr) and isinstance(b[0].value, ast.Constant) and isinstance(b[0].value.value, str):
        b = b[1:]
    return b


def _defaults(fn):
    names = [a.arg for a in fn.args.args]
    d = {}
    for n, v in zip(names[len(names) - len(fn.args.defaults):], fn.args.defaults):
        if not isinstance(v, ast.Constant):
            _fail(v, "non-constant default")
        d[n] = v.value
    return names, d


# ===================================================================================== A. covar_dist

FLAGS = {"diag": "diag", "square_dist": "squareDist", "last_dim_is_batch": "lastDimIsBatch"}


class CD:
    """symbolic walk of covar_dist; values: ('flag', lean) ('row', lean) ('entry', lean) ('fn', lean-of-3-args builder)
    ('none',)"""

    def __init__(self):
        self.env = {"x1": ("row", "x1"), "x2": ("row", "x2")}
        for py, ln in FLAGS.items():
            self.env[py] = ("flag", ln)
        self.env["sq_dist"] = ("fn", lambda a, b, s: f"(sqDistAt {s} onDiag {a} {b} mean)")
        self.env["dist"] = ("fn", lambda a, b, s: f"(distAt P.cdist {s} onDiag {a} {b} mean)")
        self.transposes = False

    def block(self, stmts):
        """-> lean text of the value returned by the block (every path must return)"""
        for k, st in enumerate(stmts):
            rest = stmts[k + 1:]
            if isinstance(st, ast.Assign) and len(st.targets) == 1 and isinstance(st.targets[0], ast.Name):
                self.env[st.targets[0].id] = self.expr(st.value)
                continue
            if isinstance(st, ast.Return):
                v = self.expr(st.value)
                if v[0] != "entry":
                    _fail(st, "covar_dist returns something that is not a kernel entry")
                return v[1]
            if isinstance(st, ast.If):
                c = self.expr(st.test)
                if c[0] != "flag":
                    _fail(st.test, "branch condition is not a flag")
                if c[1] == "lastDimIsBatch":
                    self.ldb_block(st)
                    continue
                saved = dict(self.env)
                a = self.block(st.body + rest)
                self.env = dict(saved)
                b = self.block(st.orelse + rest)
                self.env = saved
                return f"(if {c[1]} then {a} else {b})"
            _fail(st, "covar_dist: statement outside the vocabulary")
        raise TranslateError("covar_dist: a path does not return")

    def ldb_block(self, st):
        want = {"x1", "x2"}
        if st.orelse or len(st.body) != 2:
            _fail(st, "covar_dist: last_dim_is_batch block outside the vocabulary")
        for s in st.body:
            ok = isinstance(s, ast.Assign) and len(s.targets) == 1 and isinstance(s.targets[0], ast.Name)
            if ok:
                n = s.targets[0].id
                ok = n in want and ast.unparse(s.value) == f"{n}.transpose(-1, -2).unsqueeze(-1)"
            if not ok:
                _fail(s, "covar_dist: last_dim_is_batch must transpose x1 and x2 (every dimension its own batch element)")
            want.discard(n)
        self.transposes = True

    def expr(self, e):
        if isinstance(e, ast.Name):
            if e.id in self.env:
                return self.env[e.id]
            _fail(e, "unknown name")
        if isinstance(e, ast.Constant) and e.value is None:
            return ("none",)
        if isinstance(e, ast.IfExp):
            c, a, b = self.expr(e.test), self.expr(e.body), self.expr(e.orelse)
            if c[0] != "flag":
                _fail(e, "conditional on a non-flag")
            if a[0] == b[0] == "entry":
                return ("entry", f"(if {c[1]} then {a[1]} else {b[1]})")
            if a[0] == b[0] == "fn":
                fa, fb = a[1], b[1]
                return ("fn", lambda x, y, s, fa=fa, fb=fb, c=c[1]: f"(if {c} then {fa(x, y, s)} else {fb(x, y, s)})")
            _fail(e, "conditional expression outside the vocabulary")
        if isinstance(e, ast.BinOp) and isinstance(e.op, ast.Sub):
            a, b = self.expr(e.left), self.expr(e.right)
            if a[0] == b[0] == "row":
                return ("row", f"(Scalar.rowSub {a[1]} {b[1]})")
            _fail(e, "subtraction outside the vocabulary")
        if isinstance(e, ast.Call):
            src = ast.unparse(e.func)
            if src == "torch.equal":
                if [ast.unparse(a) for a in e.args] != ["x1", "x2"] or e.keywords:
                    _fail(e, "torch.equal must compare x1 with x2")
                return ("flag", "same")
            if src == "torch.zeros":
                return ("entry", "(Scalar.lit (0 : Rat))")
            if src == "torch.linalg.norm":
                kw = {k.arg: ast.unparse(k.value) for k in e.keywords}
                if len(e.args) != 1 or kw != {"dim": "-1"}:
                    _fail(e, "torch.linalg.norm(.., dim=-1) expected")
                r = self.expr(e.args[0])
                if r[0] != "row":
                    _fail(e, "norm of a non-row")
                return ("entry", f"(P.norm2 {r[1]})")
            if isinstance(e.func, ast.Attribute) and e.func.attr == "pow":
                v = self.expr(e.func.value)
                if v[0] == "entry" and len(e.args) == 1 and isinstance(e.args[0], ast.Constant) and e.args[0].value == 2:
                    return ("entry", f"(Scalar.npow {v[1]} 2)")
                _fail(e, ".pow outside the vocabulary")
            f = self.expr(e.func)
            if f[0] == "fn":
                args = [self.expr(a) for a in e.args]
                if len(args) != 3 or e.keywords or args[0][0] != "row" or args[1][0] != "row" or args[2][0] != "flag":
                    _fail(e, "distance helper call outside the vocabulary")
                return ("entry", f[1](args[0][1], args[1][1], args[2][1]))
        _fail(e, "covar_dist: expression outside the vocabulary")


def translate_covar_dist(tree):
    fn = _method(tree, "Kernel", "covar_dist")
    names, dflt = _defaults(fn)
    if names[:3] != ["self", "x1", "x2"] or any(f not in names for f in FLAGS):
        raise TranslateError("covar_dist: signature changed")
    cd = CD()
    text = cd.block(_body(fn))
    return text, cd.transposes, {k: bool(dflt.get(k, False)) for k in FLAGS}


# ===================================================================================== B. forward branches

def lean_bool(b):
    return "true" if b else "false"


def tr_branch_atom(e):
    src = ast.unparse(e)
    table = {"x1.requires_grad": "x1Grad", "x2.requires_grad": "x2Grad", "diag": "diag",
             "params.get('last_dim_is_batch', False)": "lastDimIsBatch", "trace_mode.on()": "traceMode",
             "self.ard_num_dims is not None": "ardNumDims.isSome"}
    if src in table:
        return table[src]
    m = re.fullmatch(r"self\.ard_num_dims (>|>=|==|!=|<|<=) (\d+)", src)
    if m:
        op = {"==": "==", "!=": "!="}.get(m.group(1))
        if op:
            return f"(ardNumDims.getD 0 {op} {m.group(2)})"
        return f"(decide (ardNumDims.getD 0 {m.group(1).replace('>=', '≥').replace('<=', '≤')} {m.group(2)}))"
    if isinstance(e, ast.BoolOp):
        op = " || " if isinstance(e.op, ast.Or) else " && "
        return "(" + op.join(tr_branch_atom(v) for v in e.values) + ")"
    if isinstance(e, ast.UnaryOp) and isinstance(e.op, ast.Not):
        return f"(!{tr_branch_atom(e.operand)})"
    _fail(e, "forward: branch condition outside the vocabulary")


def translate_forward_branch(tree, cls, fname, cd_defaults):
    """-> (lean condition for the generic branch, (square_dist, diag) of the fast path's callback)"""
    fn = _method(tree, cls, "forward")
    body = _body(fn)
    if len(body) != 2 or not isinstance(body[0], ast.If) or body[0].orelse or not isinstance(body[1], ast.Return):
        raise TranslateError(f"{cls}.forward: skeleton `if <generic>: … ; return {fname}.apply(…)` expected")
    cond = tr_branch_atom(body[0].test)
    call = body[1].value
    if not (isinstance(call, ast.Call) and ast.unparse(call.func) == f"{fname}.apply"):
        _fail(body[1], f"{cls}.forward: fast path must return {fname}.apply(..)")
    if [ast.unparse(a) for a in call.args[:3]] != ["x1", "x2", "self.lengthscale"]:
        _fail(call, f"{cls}.forward: fast path arguments")
    lam = call.args[-1]
    if not (isinstance(lam, ast.Lambda) and [a.arg for a in lam.args.args] == ["x1", "x2"]):
        _fail(call, f"{cls}.forward: the last argument of the fast path must be `lambda x1, x2: …`")
    c = lam.body
    if not (isinstance(c, ast.Call) and ast.unparse(c.func) == "self.covar_dist"
            and [ast.unparse(a) for a in c.args] == ["x1", "x2"]):
        _fail(lam, f"{cls}.forward: callback must be self.covar_dist(x1, x2, …)")
    flags = dict(cd_defaults)
    for k in c.keywords:
        if k.arg is None:
            if ast.unparse(k.value) != "params":
                _fail(k.value, "callback ** argument")
            continue
        if k.arg not in FLAGS or not isinstance(k.value, ast.Constant) or not isinstance(k.value.value, bool):
            _fail(lam, f"{cls}.forward: callback keyword outside the vocabulary")
        flags[k.arg] = k.value.value
    if flags["last_dim_is_batch"]:
        _fail(lam, "fast path with last_dim_is_batch")
    return cond, (flags["square_dist"], flags["diag"])


# ===================================================================================== C. call sites of the callbacks

DEF_RE = re.compile(r"^/-- (?P<doc>.*?) -/\ndef (?P<name>\w+) (?P<params>.*) : α :=\n  (?P<body>.*)$", re.M)
GROUP_RE = re.compile(r"\(([^:()]+) : ([^()]+)\)")


def parse_gen(path):
    out = {}
    for m in DEF_RE.finditer(open(path).read()):
        params = []
        for g in GROUP_RE.finditer(m.group("params")):
            for n in g.group(1).split():
                params.append((n, g.group(2).strip()))
        out[m.group("name")] = {"doc": m.group("doc"), "params": params, "body": m.group("body")}
    return out


def sexpr(s, k):
    """one balanced group or identifier starting at s[k] (after skipping blanks) -> (text, end)"""
    while k < len(s) and s[k] == " ":
        k += 1
    if k >= len(s):
        raise TranslateError("call site: argument missing")
    if s[k] == "(":
        depth, j = 0, k
        while j < len(s):
            if s[j] == "(":
                depth += 1
            elif s[j] == ")":
                depth -= 1
                if depth == 0:
                    return s[k:j + 1], j + 1
            j += 1
        raise TranslateError("call site: unbalanced parentheses")
    m = re.compile(r"[A-Za-z_][\w.]*").match(s, k)
    if not m:
        raise TranslateError(f"call site: unexpected text `{s[k:k + 30]}`")
    return m.group(0), m.end()


ZIP_RE = re.compile(r"\(Scalar\.zip \(fun u v => (sqd|distf) \[u\] \[v\]\) ")


def call_sites(body):
    """-> {callback: (A, ldb)}; checks that every call site of one callback passes the same arguments"""
    sites = {}

    def add(name, a, b, ldb):
        if re.search(r"\bx2\b", a):
            raise TranslateError(f"call site of {name}: the first argument is built from x2: {a[:80]}")
        if re.sub(r"\bx1\b", "x2", a) != b:
            raise TranslateError(f"call site of {name}: second argument is not the first with x1 -> x2: {a[:60]} / {b[:60]}")
        if name in sites and sites[name] != (a, ldb):
            raise TranslateError(f"callback {name} is called with different arguments in one term")
        sites[name] = (a, ldb)
    stripped = body
    for m in ZIP_RE.finditer(body):
        a, k = sexpr(body, m.end())
        b, k = sexpr(body, k)
        add(m.group(1), a, b, True)
    stripped = ZIP_RE.sub("(ZIP ", body)
    for m in re.finditer(r"\((sqd|distf) ", stripped):
        a, k = sexpr(stripped, m.end())
        b, k = sexpr(stripped, k)
        add(m.group(1), a, b, False)
    for name in ("sqd", "distf"):
        if name in sites and sites[name][1] and re.search(r"\(" + name + " ", stripped):
            raise TranslateError(f"callback {name} is used both per dimension and on whole rows")
    return sites


# family -> (generated file, definition, diag of the callback)
FAMS = [("rbfGeneric", "KernelFormulas", "rbfGeneric"), ("rbfFast", "Formulas", "rbfFwdNoGradOut"),
        ("matern12Generic", "KernelFormulas", "matern12Generic"), ("matern32Generic", "KernelFormulas", "matern32Generic"),
        ("matern52Generic", "KernelFormulas", "matern52Generic"),
        ("matern12Fast", "Formulas", "matern12FwdNoGradOut"), ("matern32Fast", "Formulas", "matern32FwdNoGradOut"),
        ("matern52Fast", "Formulas", "matern52FwdNoGradOut"),
        ("rq", "KernelFormulas", "rq"), ("periodic", "KernelFormulas", "periodic"), ("cosine", "KernelFormulas", "cosine"),
        ("linear", "KernelFormulas", "linear"), ("linearSame", "KernelFormulas", "linearSame"),
        ("polynomial", "KernelFormulas", "polynomial"), ("polynomialBatched", "KernelFormulas", "polynomialBatched"),
        ("pp0", "KernelFormulas", "piecewisePolynomial0"), ("pp1", "KernelFormulas", "piecewisePolynomial1"),
        ("pp2", "KernelFormulas", "piecewisePolynomial2"), ("pp3", "KernelFormulas", "piecewisePolynomial3"),
        ("constant", "KernelFormulas", "constantK")]
DIAG_FAMS = [("rbf", "KernelFormulas", "rbfGenericDiag"), ("rq", "KernelFormulas", "rqDiag"),
             ("periodic", "KernelFormulas", "periodicDiag"), ("polynomial", "KernelFormulas", "polynomialDiag"),
             ("constant", "KernelFormulas", "constantKDiag")]

LIST_FIELDS = {"lengthscale": "ls", "variance": "ls", "period_length": "ps"}


def theta_arg(name, ty):
    if ty == "List α":
        if name in LIST_FIELDS:
            return "θ." + LIST_FIELDS[name]
        raise TranslateError(f"per-dimension parameter {name} has no field in Theta")
    if ty == "α":
        return "θ.s"
    if ty == "Nat":
        return "θ.k"
    raise TranslateError(f"parameter {name} : {ty} outside the vocabulary")


def emit_matrix(fam_name, ns, dname, d, diag, flags_of, out):
    """one matrix-level (or diag-vector) definition; returns its Lean name"""
    cb = [(n, t) for n, t in d["params"] if t == "List α → List α → α"]
    rows = [n for n, t in d["params"] if n in ("x1", "x2", "mean")]
    others = [(n, t) for n, t in d["params"] if t != "List α → List α → α" and n not in ("x1", "x2", "mean")]
    if rows[:2] != ["x1", "x2"]:
        raise TranslateError(f"{dname}: no x1 x2 parameters")
    sites = call_sites(d["body"])
    lname = dname + ("Vec" if diag else "Mat")
    pos = "(i : Nat)" if diag else "(i j : Nat)"
    jj = "i" if diag else "j"
    ondiag = "true" if diag else "(i == j)"
    par = " ".join(f"({n} : {t})" for n, t in others)
    lines = [f"/-- matrix level of `Gen.{ns}.{dname}` ({d['doc']}): "
             + ("entry `i` of the `diag=True` result" if diag else "entry `(i, j)`") + " on whole inputs -/",
             f"def {lname} (P : Prims α) (same : Bool) {par}{' ' if par else ''}(X1 X2 : List (List α)) {pos} : α :="]
    if "mean" in rows:
        lines.append("  let mean := colMean X1")
    ldb_any = any(l for _, l in sites.values())
    args = []
    for n, t in d["params"]:
        if t == "List α → List α → α":
            if n not in sites:
                args.append("(fun _ _ => Scalar.lit (0 : Rat))")
                continue
            a, ldb = sites[n]
            sq, dg = flags_of(n, diag)
            lines.append(f"  let c_{n} := colMean (X1.map fun x1 => {a})")
            if ldb:
                continue
            args.append(f"(fun u v => covarDistEntry P {lean_bool(dg)} {lean_bool(sq)} same {ondiag} u v c_{n})")
        elif n == "x1":
            args.append("(X1.getD i [])")
        elif n == "x2":
            args.append(f"(X2.getD {jj} [])")
        else:
            args.append(n)
    if not ldb_any:
        lines.append(f"  Gen.{ns}.{dname} " + " ".join(args))
    else:
        # per-dimension helper (`last_dim_is_batch=True`): dimension k is its own batch element with centre c[k];
        # the generated term is re-emitted with the zip carrying the position
        body = d["body"]
        for n, (a, ldb) in sites.items():
            if not ldb:
                raise TranslateError(f"{dname}: mixes per-dimension and whole-row helpers")
            sq, dg = flags_of(n, diag)
            body = body.replace(f"(Scalar.zip (fun u v => {n} [u] [v]) ",
                                f"(zipIdx (fun k u v => covarDistEntry P {lean_bool(dg)} {lean_bool(sq)} same {ondiag} [u] [v] "
                                f"[c_{n}.getD k (Scalar.lit (0 : Rat))]) 0 ")
        if re.search(r"\b(sqd|distf)\b", body):
            raise TranslateError(f"{dname}: a helper call survived the per-dimension rewriting")
        lines.append("  let x1 := X1.getD i []")
        lines.append(f"  let x2 := X2.getD {jj} []")
        lines.append("  " + body)
    out.append("\n".join(lines) + "\n\n")
    call = f"{lname} P same " + "".join(theta_arg(n, t) + " " for n, t in others) + "X1 X2 i" + ("" if diag else " j")
    return call


# ===================================================================================== D. Kernel.__call__

REGS = {"x1": ".x1", "x2": ".x2", "x1_": ".x1w", "x2_": ".x2w"}


def tr_reg(e):
    if isinstance(e, ast.Name) and e.id in REGS:
        return REGS[e.id]
    _fail(e, "__call__: not a tensor variable of the preparation")


def tr_guard(e):
    """-> list of Lean guards (a conjunction is a list)"""
    src = ast.unparse(e)
    if src == "self.active_dims is not None":
        return [".activeSome"]
    if src == "settings.debug.on()":
        return [".debugOn"]
    if isinstance(e, ast.Compare) and len(e.ops) == 1:
        op, rhs = e.ops[0], e.comparators[0]
        if isinstance(rhs, ast.Constant) and rhs.value is None and isinstance(op, (ast.Is, ast.IsNot)):
            return [f"(.{'isNone' if isinstance(op, ast.Is) else 'isSome'} {tr_reg(e.left)})"]
        m = re.fullmatch(r"(\w+)\.ndimension\(\) == 1", src)
        if m and m.group(1) in REGS:
            return [f"(.is1d {REGS[m.group(1)]})"]
    m = re.fullmatch(r"not (\w+)\.size\(-1\) == (\w+)\.size\(-1\)", src)
    if m and m.group(1) in REGS and m.group(2) in REGS:
        return [f"(.lastSizesDiffer {REGS[m.group(1)]} {REGS[m.group(2)]})"]
    m = re.fullmatch(r"(\w+)\.size\(-1\) != (\w+)\.size\(-1\)", src)
    if m and m.group(1) in REGS and m.group(2) in REGS:
        return [f"(.lastSizesDiffer {REGS[m.group(1)]} {REGS[m.group(2)]})"]
    m = re.fullmatch(r"self\.ard_num_dims is not None and self\.ard_num_dims != (\w+)\.size\(-1\)", src)
    if m and m.group(1) in REGS:
        return [f"(.ardMismatch {REGS[m.group(1)]})"]
    _fail(e, "__call__: guard outside the vocabulary")


def tr_prep(stmts, guards, out):
    for st in stmts:
        if isinstance(st, ast.If):
            if ast.unparse(st.test) == "last_dim_is_batch" and len(st.body) == 1 and not st.orelse \
                    and ast.unparse(st.body[0]).startswith("warnings.warn("):
                continue                                      # the deprecation warning
            if st.orelse:
                _fail(st, "__call__: `else` in the input preparation")
            tr_prep(st.body, guards + tr_guard(st.test), out)
            continue
        if isinstance(st, ast.Raise):
            out.append((guards, ".raise"))
            continue
        if isinstance(st, ast.Assign) and len(st.targets) == 1:
            tgt, val = st.targets[0], st.value
            if isinstance(tgt, ast.Tuple) and isinstance(val, ast.Tuple) and len(tgt.elts) == len(val.elts):
                # simultaneous assignment of distinct variables from the arguments
                srcs = [tr_reg(v) for v in val.elts]
                dsts = [tr_reg(t) for t in tgt.elts]
                if set(srcs) & set(dsts):
                    _fail(st, "__call__: simultaneous assignment that reads what it writes")
                for dd, ss in zip(dsts, srcs):
                    out.append((guards, f"(.copy {dd} {ss})"))
                continue
            if isinstance(tgt, ast.Name) and tgt.id in REGS:
                dst = REGS[tgt.id]
                if isinstance(val, ast.Name):
                    out.append((guards, f"(.copy {dst} {tr_reg(val)})"))
                    continue
                src = ast.unparse(val)
                m = re.fullmatch(r"(\w+)\.index_select\(-1, self\.active_dims\)", src)
                if m and m.group(1) == tgt.id:
                    out.append((guards, f"(.selectLast {dst})"))
                    continue
                m = re.fullmatch(r"(\w+)\.unsqueeze\((-?\d+)\)", src)
                if m and m.group(1) == tgt.id:
                    k = int(m.group(2))
                    if k < 0:
                        k += 2                                 # a 1-d tensor gets rank 2
                    out.append((guards, f"(.unsqueeze {dst} {k})"))
                    continue
        _fail(st, "__call__: statement outside the vocabulary of the input preparation")


INT_NAMES = {}


def tr_int(e, env):
    src = ast.unparse(e)
    m = re.fullmatch(r"(x1_|x2_)\.dim\(\)", src)
    if m:
        return f"({'b1' if m.group(1) == 'x1_' else 'b2'}.length + 2)", False
    if src == "res.dim()":
        return "resDim", False
    m = re.fullmatch(r"len\(torch\.broadcast_shapes\((.*)\)\)", src)
    if m:
        parts = [p.strip() for p in m.group(1).split(",")]
        table = {"x1_.shape[:-2]": "b1", "x2_.shape[:-2]": "b2", "self.batch_shape": "bk"}
        if len(parts) != 3 or any(p not in table for p in parts):
            _fail(e, "__call__: broadcast_shapes arguments outside the vocabulary")
        a, b, c = (table[p] for p in parts)
        return f"((bcastR3 {a} {b} {c}).map List.length)", True
    if isinstance(e, ast.Name) and e.id in env:
        return e.id, False
    if isinstance(e, ast.Constant) and isinstance(e.value, int) and not isinstance(e.value, bool):
        return str(e.value), False
    if isinstance(e, ast.IfExp) and ast.unparse(e.test) == "last_dim_is_batch":
        a, _ = tr_int(e.body, env)
        b, _ = tr_int(e.orelse, env)
        return f"(if lastDimIsBatch then {a} else {b})", False
    if isinstance(e, ast.BinOp) and isinstance(e.op, (ast.Add, ast.Sub)):
        a, oa = tr_int(e.left, env)
        b, ob = tr_int(e.right, env)
        if oa or ob:
            _fail(e, "__call__: arithmetic on an unbound broadcast")
        return f"({a} {'+' if isinstance(e.op, ast.Add) else '-'} {b})", False
    _fail(e, "__call__: integer expression outside the vocabulary")


def tr_diag_cond(e, env):
    if isinstance(e, ast.BoolOp) and isinstance(e.op, ast.And):
        return "(" + " && ".join(tr_diag_cond(v, env) for v in e.values) + ")"
    src = ast.unparse(e)
    if src == "res.shape[-2:] == torch.Size((x1_.size(-2), x2_.size(-2)))":
        return "(resLast2 == (n1, n2))"
    if isinstance(e, ast.Compare) and len(e.ops) == 1 and isinstance(e.ops[0], ast.Eq):
        a, oa = tr_int(e.left, env)
        b, ob = tr_int(e.comparators[0], env)
        if oa or ob:
            _fail(e, "__call__: comparison with an unbound broadcast")
        return f"({a} == {b})"
    _fail(e, "__call__: diagonal decision outside the vocabulary")


def translate_call(tree):
    fn = _method(tree, "Kernel", "__call__")
    names, dflt = _defaults(fn)
    if names != ["self", "x1", "x2", "diag", "last_dim_is_batch"]:
        raise TranslateError("Kernel.__call__: signature changed")
    body = _body(fn)
    if not (isinstance(body[-1], ast.If) and ast.unparse(body[-1].test) == "diag" and body[-1].orelse):
        raise TranslateError("Kernel.__call__: the final `if diag: … else: …` is missing")
    prep = []
    tr_prep(body[:-1], [], prep)
    # ---- the diag branch
    dg = body[-1].body
    if not (len(dg) == 3 and isinstance(dg[0], ast.Assign) and isinstance(dg[1], ast.If) and isinstance(dg[2], ast.Return)
            and ast.unparse(dg[2].value) == "res"):
        raise TranslateError("Kernel.__call__: diag branch skeleton")
    call = dg[0].value
    if not (isinstance(call, ast.Call) and ast.unparse(call.func) == "super(Kernel, self).__call__"
            and [ast.unparse(a) for a in call.args] == ["x1_", "x2_"]):
        _fail(dg[0], "Kernel.__call__: diag branch must call forward on (x1_, x2_)")
    kw = {k.arg: ast.unparse(k.value) for k in call.keywords if k.arg}
    if kw.get("diag") != "True" or kw.get("last_dim_is_batch") != "last_dim_is_batch":
        _fail(dg[0], "Kernel.__call__: diag branch keywords")
    if ast.unparse(dg[1].test) != "not isinstance(res, LazyEvaluatedKernelTensor)" or dg[1].orelse:
        _fail(dg[1], "Kernel.__call__: diag branch, lazy test")
    lets, env, cond = [], set(), None
    for st in dg[1].body:
        if isinstance(st, ast.Assign) and len(st.targets) == 1 and isinstance(st.targets[0], ast.Name):
            v, opt = tr_int(st.value, env)
            lets.append((st.targets[0].id, v, opt))
            env.add(st.targets[0].id)
        elif isinstance(st, ast.If) and not st.orelse and len(st.body) == 1 \
                and ast.unparse(st.body[0]) == "res = res.diagonal(dim1=-1, dim2=-2)" and cond is None:
            cond = tr_diag_cond(st.test, env)
        else:
            _fail(st, "Kernel.__call__: diag post-processing outside the vocabulary")
    if cond is None:
        raise TranslateError("Kernel.__call__: no `res = res.diagonal(..)` decision")
    # ---- the non-diag branch: both evaluation modes must receive (x1_, x2_)
    nd = body[-1].orelse
    src = "\n".join(ast.unparse(s) for s in nd)
    if "LazyEvaluatedKernelTensor(x1_, x2_, kernel=self" not in src or "super(Kernel, self).__call__(x1_, x2_," not in src:
        raise TranslateError("Kernel.__call__: the kernel is not evaluated on (x1_, x2_)")
    return prep, lets, cond


# ===================================================================================== emission

HEADER = """/-
GENERATED by harness/translate/g5_kernel_call.py from $VERIF_REPO and from Gen/KernelFormulas.lean, Gen/Formulas.lean
— do not edit.  Matrix-level reading of the kernel code: `Kernel.covar_dist`, the call sites of the distance helpers
in every regenerated `forward` (centres = `colMean` of what the source passes as first argument), the branch selection
of `RBFKernel.forward` / `MaternKernel.forward`, and the input preparation / `diag` post-processing of `Kernel.__call__`.
-/
import GPVerif.Model.KernelMatrix
import GPVerif.Model.KernelCall
import GPVerif.Gen.KernelFormulas
import GPVerif.Gen.Formulas

set_option linter.unusedVariables false

namespace Gen.KernelCall
open KernelMatrix Bcast

variable {α : Type} [Add α] [Sub α] [Mul α] [Div α] [Neg α] [Scalar α]

/-- `sq_dist(x1, x2, x1_eq_x2)` at entry `(i, j)`: the configuration of g5_kernels that applies -/
def sqDistAt (same onDiag : Bool) (x1 x2 mean : List α) : α :=
  if same then (if onDiag then Gen.KernelFormulas.sqDistGenSameDiag x1 x2 mean else Gen.KernelFormulas.sqDistGenSameOff x1 x2 mean)
  else Gen.KernelFormulas.sqDistGen x1 x2 mean

/-- `dist(x1, x2, x1_eq_x2)` at entry `(i, j)` -/
def distAt (cdist : List α → List α → α) (same onDiag : Bool) (x1 x2 mean : List α) : α :=
  if same then (if onDiag then Gen.KernelFormulas.distGenSameDiag cdist x1 x2 mean else Gen.KernelFormulas.distGenSameOff cdist x1 x2 mean)
  else Gen.KernelFormulas.distGen cdist x1 x2 mean

"""


def translate(repo, lean_gen_dir):
    out = [HEADER]
    ktree = ast.parse(open(os.path.join(repo, "gpytorch/kernels/kernel.py")).read())
    # ---- A
    cd_text, transposes, cd_dflt = translate_covar_dist(ktree)
    out.append("/-- `Kernel.covar_dist` at one entry: `x1`, `x2` the two rows, `mean` the centre `sq_dist` subtracts, `same` = "
               "`torch.equal(x1, x2)`, `onDiag` = the entry is on the diagonal -/\n"
               "def covarDistEntry (P : Prims α) (diag squareDist same onDiag : Bool) (x1 x2 mean : List α) : α :=\n"
               f"  {cd_text}\n\n")
    out.append("/-- `covar_dist(last_dim_is_batch=True)` transposes both inputs: every input dimension becomes a batch element "
               "of 1-d points -/\n"
               f"def covarDistTransposesLastDim : Bool := {lean_bool(transposes)}\n\n")
    out.append("/-- declared defaults of `covar_dist` (diag, square_dist, last_dim_is_batch) -/\n"
               f"def covarDistDefaults : Bool × Bool × Bool := ({lean_bool(cd_dflt['diag'])}, {lean_bool(cd_dflt['square_dist'])}, "
               f"{lean_bool(cd_dflt['last_dim_is_batch'])})\n\n")
    # ---- B
    fast_flags = {}
    for cls, rel, fname, tag in (("RBFKernel", "rbf_kernel.py", "RBFCovariance", "rbf"),
                                 ("MaternKernel", "matern_kernel.py", "MaternCovariance", "matern")):
        tree = ast.parse(open(os.path.join(repo, "gpytorch/kernels", rel)).read())
        cond, (sq, dg) = translate_forward_branch(tree, cls, fname, cd_dflt)
        fast_flags[tag] = (sq, dg)
        out.append(f"/-- `{cls}.forward` takes the generic (autograd) branch -/\n"
                   f"def {tag}TakesGeneric (x1Grad x2Grad : Bool) (ardNumDims : Option Nat) (diag lastDimIsBatch traceMode : Bool) : Bool :=\n"
                   f"  {cond}\n\n")
        out.append(f"/-- (square_dist, diag) of the distance callback that `{cls}.forward` hands to `{fname}.apply` -/\n"
                   f"def {tag}FastCallback : Bool × Bool := ({lean_bool(sq)}, {lean_bool(dg)})\n\n")
    # ---- C
    gens = {"KernelFormulas": parse_gen(os.path.join(lean_gen_dir, "KernelFormulas.lean")),
            "Formulas": parse_gen(os.path.join(lean_gen_dir, "Formulas.lean"))}

    def flags_of_factory(fam, ns):
        def flags_of(cb, diag):
            if ns == "Formulas":
                # the flags the SOURCE passes (`lambda x1, x2: self.covar_dist(x1, x2, square_dist=…, diag=…)`), whatever
                # g5_formulas calls the callback: a changed flag changes the definition and `genMat_pairwise` stops proving
                return fast_flags["rbf" if fam.startswith("rbf") else "matern"]
            return cb == "sqd", diag
        return flags_of
    mat_calls, vec_calls = [], []
    for fam, ns, dname in FAMS:
        if dname not in gens[ns]:
            raise TranslateError(f"Gen.{ns}.{dname} is missing")
        mat_calls.append((fam, emit_matrix(fam, ns, dname, gens[ns][dname], False, flags_of_factory(fam, ns), out)))
    for fam, ns, dname in DIAG_FAMS:
        if dname not in gens[ns]:
            raise TranslateError(f"Gen.{ns}.{dname} is missing")
        vec_calls.append((fam, emit_matrix(fam, ns, dname, gens[ns][dname], True, flags_of_factory(fam, ns), out)))
    out.append("/-- the regenerated matrix-level forward of every family -/\n"
               "def genMat (P : Prims α) : Fam → MatFwd (Theta α) α\n"
               + "".join(f"  | .{fam}, same, θ, X1, X2, i, j => {call}\n" for fam, call in mat_calls) + "\n")
    out.append("/-- the regenerated `diag=True` forward -/\n"
               "def genDiag (P : Prims α) : DiagFam → DiagFwd (Theta α) α\n"
               + "".join(f"  | .{fam}, same, θ, X1, X2, i => {call}\n" for fam, call in vec_calls) + "\n")
    # ---- D
    prep, lets, cond = translate_call(ktree)
    out.append("/-- the input preparation of `Kernel.__call__`, statement by statement -/\n"
               "def callPrep : List KernelCall.GStmt :=\n  [" +
               ",\n   ".join("⟨[" + ", ".join(g) + "], " + a + "⟩" for g, a in prep) + "]\n\n")
    body = "(resLast2 : Nat × Nat) : Option Bool := do\n"
    for n, v, opt in lets:
        body += f"  let {n} {'←' if opt else ':='} {v}\n"
    body += f"  some {cond}\n"
    out.append("/-- `Kernel.__call__(diag=True)`: does it take `res.diagonal(dim1=-1, dim2=-2)` of what `forward` returned? "
               "(`b1 b2 bk` the batch shapes of `x1_`, `x2_`, the kernel; `resDim`, `resLast2` = `res.dim()`, `res.shape[-2:]`; "
               "`none`: the shapes do not broadcast) -/\n"
               "def callDiagTakesDiagonal (b1 b2 bk : RShape) (n1 n2 : Nat) (lastDimIsBatch : Bool) (resDim : Nat) " + body + "\n")
    out.append("end Gen.KernelCall\n")
    return "".join(out)


def generate(repo, path):
    text = translate(repo, os.path.dirname(path))
    old = open(path).read() if os.path.exists(path) else None
    if old != text:
        with open(path, "w") as fh:
            fh.write(text)
    return old != text


if __name__ == "__main__":
    import sys
    here = os.path.dirname(os.path.abspath(__file__))
    print(translate(sys.argv[1] if len(sys.argv) > 1 else os.environ.get("VERIF_REPO", "/repo"),
                    os.path.join(here, "..", "..", "lean", "GPVerif", "Gen")))

"""G7 (C02) — Python-AST -> Lean translator for the assembly of the exact objectives.

Reads from `$VERIF_REPO/gpytorch/mlls/`
  exact_marginal_log_likelihood.py    `forward` (log_prob -> _add_other_terms -> / num_data), `_add_other_terms`
                                      (sign of the added-loss terms, the per-batch reduction expression of a prior term)
  leave_one_out_pseudo_likelihood.py  `forward` (the sigma^2 / mu formulas, the two summands, the final reduction)
  sum_marginal_log_likelihood.py      `forward` (sum of the member objectives / their number)
and emits `GPVerif/Gen/MLLAssembly.lean`.  `Props/C02.lean` proves the generated definitions equal to the hand-written
model `GPVerif/Model/MLL.lean` (so `loo_eq_true_predictive` etc. apply to what the source says now); `drivers/C02.lean`
executes the generated definitions.  Anything outside the vocabulary raises `TranslateError`.
"""
import ast
import os


class TranslateError(Exception):
    pass


def _src(node):
    try:
        return ast.unparse(node)
    except Exception:
        return repr(node)


def _fail(what, node=None):
    raise TranslateError(what + (f": `{_src(node)[:200]}`" if node is not None else ""))


def _parse(repo, rel):
    path = os.path.join(repo, rel)
    with open(path) as fh:
        return ast.parse(fh.read(), filename=path)


def _cls(tree, name):
    for n in tree.body:
        if isinstance(n, ast.ClassDef) and n.name == name:
            return n
    _fail(f"class {name} not found")


def _method(cls, name):
    for n in cls.body:
        if isinstance(n, ast.FunctionDef) and n.name == name:
            return n
    _fail(f"method {cls.name}.{name} not found")


def _body(fn):
    b = list(fn.body)
    if b and isinstance(b[0], ast.Expr) and isinstance(b[0].value, ast.Constant) and isinstance(b[0].value.value, str):
        b = b[1:]
    return b


def _is_name(n, ident):
    return isinstance(n, ast.Name) and n.id == ident


def _call_attr(n):
    return n.func.attr if isinstance(n, ast.Call) and isinstance(n.func, ast.Attribute) else None


def _nat(e, env, leaves):
    """integer expression -> Lean Nat term; `leaves`: source text -> Lean name"""
    t = _src(e)
    if t in leaves:
        return leaves[t]
    if isinstance(e, ast.Name) and e.id in env:
        return env[e.id]
    if isinstance(e, ast.Constant) and isinstance(e.value, int) and e.value >= 0:
        return str(e.value)
    if isinstance(e, ast.BinOp) and type(e.op) in (ast.Add, ast.Sub, ast.Mult):
        op = {ast.Add: "+", ast.Sub: "-", ast.Mult: "*"}[type(e.op)]
        return f"({_nat(e.left, env, leaves)} {op} {_nat(e.right, env, leaves)})"
    _fail("count expression outside the vocabulary", e)


def _div(ret, env, leaves):
    """`X.div_(c)` / `X.div(c)` / `X / c`  ->  (X-node, Lean Nat term of c)"""
    if isinstance(ret, ast.Call) and _call_attr(ret) in ("div_", "div") and len(ret.args) == 1:
        return ret.func.value, _nat(ret.args[0], env, leaves)
    if isinstance(ret, ast.BinOp) and isinstance(ret.op, ast.Div):
        return ret.left, _nat(ret.right, env, leaves)
    _fail("the objective must be divided by a count", ret)


# ---------------------------------------------------------------------------------------------- exact MLL

def add_other_terms(tree):
    fn = _method(_cls(tree, "ExactMarginalLogLikelihood"), "_add_other_terms")
    body = _body(fn)
    info = {}
    keep_env = {}
    for s in body:
        if isinstance(s, ast.For) and _src(s.iter) == "self.model.added_loss_terms()":
            if len(s.body) != 1 or not isinstance(s.body[0], ast.Assign) or not _is_name(s.body[0].targets[0], "res"):
                _fail("_add_other_terms: added-loss loop outside the vocabulary", s)
            v = s.body[0].value
            tgt = s.target.id if isinstance(s.target, ast.Name) else None
            if _call_attr(v) in ("add", "sub") and _is_name(v.func.value, "res") and len(v.args) == 1 \
                    and _src(v.args[0]) == f"{tgt}.loss(*params)":
                info["added_sign"] = "+" if _call_attr(v) == "add" else "-"
            elif isinstance(v, ast.BinOp) and type(v.op) in (ast.Add, ast.Sub) and _is_name(v.left, "res") \
                    and _src(v.right) == f"{tgt}.loss(*params)":
                info["added_sign"] = "+" if isinstance(v.op, ast.Add) else "-"
            else:
                _fail("_add_other_terms: added-loss update outside the vocabulary", v)
        elif isinstance(s, ast.Assign) and isinstance(s.targets[0], ast.Name) and _src(s.value) in ("res.ndim", "res.dim()"):
            keep_env[s.targets[0].id] = "resShape.length"
        elif isinstance(s, ast.For) and _src(s.iter) == "self.model.named_priors()":
            names = [_src(t) for t in s.target.elts] if isinstance(s.target, ast.Tuple) else []
            if len(names) != 5:
                _fail("_add_other_terms: named_priors loop target outside the vocabulary", s.target)
            _n, mod, pri, clo, _x = names
            if len(s.body) != 2:
                _fail("_add_other_terms: prior loop must evaluate the term and add its reduction", s)
            a, b = s.body
            if not (isinstance(a, ast.Assign) and isinstance(a.targets[0], ast.Name)
                    and _src(a.value) == f"{pri}.log_prob({clo}({mod}))"):
                _fail("_add_other_terms: the prior term must be prior.log_prob(closure(module))", a)
            term = a.targets[0].id
            upd = b.value if isinstance(b, ast.Expr) else (b.value if isinstance(b, ast.Assign) else None)
            if not (_call_attr(upd) in ("add_", "add", "sub_", "sub") and _is_name(upd.func.value, "res") and len(upd.args) == 1):
                _fail("_add_other_terms: prior update outside the vocabulary", b)
            if isinstance(b, ast.Assign) and not _is_name(b.targets[0], "res"):
                _fail("_add_other_terms: prior update must assign res", b)
            if isinstance(b, ast.Expr) and not _call_attr(upd).endswith("_"):
                _fail("_add_other_terms: out-of-place prior update whose result is dropped", b)
            info["prior_sign"] = "+" if _call_attr(upd).startswith("add") else "-"
            red = upd.args[0]
            # <term>.view(*<term>.shape[:K], -1).sum(dim=-1)
            if not (_call_attr(red) == "sum" and ({k.arg: _src(k.value) for k in red.keywords} == {"dim": "-1"}
                                                  or [_src(x) for x in red.args] == ["-1"])):
                _fail("_add_other_terms: reduction must end in .sum(dim=-1)", red)
            vw = red.func.value
            if not (_call_attr(vw) in ("view", "reshape") and _is_name(vw.func.value, term) and len(vw.args) == 2
                    and isinstance(vw.args[0], ast.Starred) and _src(vw.args[1]) == "-1"):
                _fail("_add_other_terms: reduction must be term.view(*term.shape[:k], -1)", vw)
            sl = vw.args[0].value
            if not (isinstance(sl, ast.Subscript) and _src(sl.value) == f"{term}.shape" and isinstance(sl.slice, ast.Slice)
                    and sl.slice.lower is None and sl.slice.step is None and sl.slice.upper is not None):
                _fail("_add_other_terms: kept dimensions must be term.shape[:k]", sl)
            info["keep"] = _nat(sl.slice.upper, keep_env, {"res.ndim": "resShape.length", "res.dim()": "resShape.length"})
        elif isinstance(s, ast.Return):
            if not _is_name(s.value, "res"):
                _fail("_add_other_terms: must return res", s)
        else:
            _fail("_add_other_terms: statement outside the vocabulary", s)
    for k in ("added_sign", "prior_sign", "keep"):
        if k not in info:
            _fail(f"_add_other_terms: {k} not found")
    order = [("added" if _src(s.iter) == "self.model.added_loss_terms()" else "prior") for s in body if isinstance(s, ast.For)]
    info["order"] = order
    return info


def mll_forward(tree):
    fn = _method(_cls(tree, "ExactMarginalLogLikelihood"), "forward")
    env = {}
    steps = []
    ret = None
    for s in _body(fn):
        if isinstance(s, ast.If):
            t = _src(s.test)
            if t.startswith("not isinstance(function_dist") or "observation_nan_policy" in t:
                continue        # type guard / NaN policy (C16)
            _fail("ExactMarginalLogLikelihood.forward: conditional outside the vocabulary", s.test)
        if isinstance(s, ast.Assign) and _is_name(s.targets[0], "output") and _src(s.value) == \
                "self.likelihood(function_dist, *params, **kwargs)":
            steps.append("marginal")
        elif isinstance(s, ast.Assign) and _is_name(s.targets[0], "res") and _src(s.value) == "output.log_prob(target)":
            steps.append("log_prob")
        elif isinstance(s, ast.Assign) and _is_name(s.targets[0], "res") and _src(s.value) == \
                "self._add_other_terms(res, params)":
            steps.append("other")
        elif isinstance(s, ast.Assign) and isinstance(s.targets[0], ast.Name) and s.targets[0].id != "res":
            env[s.targets[0].id] = _nat(s.value, env, {"function_dist.event_shape.numel()": "eventNumel"})
        elif isinstance(s, ast.Return):
            ret = s.value
        else:
            _fail("ExactMarginalLogLikelihood.forward: statement outside the vocabulary", s)
    if steps != ["marginal", "log_prob", "other"] or ret is None:
        _fail(f"ExactMarginalLogLikelihood.forward: expected marginal -> log_prob -> _add_other_terms -> division, got {steps}")
    num, cnt = _div(ret, env, {"function_dist.event_shape.numel()": "eventNumel"})
    if not _is_name(num, "res"):
        _fail("ExactMarginalLogLikelihood.forward: the divided quantity must be res", ret)
    return cnt


# ---------------------------------------------------------------------------------------------- LOO

class _Loo:
    """elementwise translation of the LOO formulas at an index `i`"""

    def __init__(self):
        self.mats = {}      # python name -> 'A' | 'X' | 'L'
        self.vecs = {}      # python name -> Lean term at index `{i}` (format string)
        self.ident = set()

    def mat(self, e):
        """matrix-valued expression -> Lean matrix name"""
        t = _src(e)
        if t in ("output.covariance_matrix", "output.lazy_covariance_matrix", "output.lazy_covariance_matrix.to_dense()"):
            return "A"
        if isinstance(e, ast.Name) and self.mats.get(e.id) in ("A", "X"):
            return self.mats[e.id]
        if _call_attr(e) == "_cholesky_solve" and isinstance(e.func.value, ast.Name) and self.mats.get(e.func.value.id) == "L" \
                and len(e.args) == 1 and isinstance(e.args[0], ast.Name) and e.args[0].id in self.ident:
            return "X"      # A^{-1} = chol-solve of the identity
        _fail("LOO: matrix expression outside the vocabulary", e)

    def vec(self, e, i):
        """vector-valued expression at index i -> Lean scalar term"""
        if isinstance(e, ast.Name):
            if e.id in self.vecs:
                return self.vecs[e.id].format(i=i)
            _fail("LOO: unknown vector", e)
        if isinstance(e, ast.Constant) and e.value in (1.0, 1):
            return "1"
        if isinstance(e, ast.BinOp) and type(e.op) in (ast.Add, ast.Sub, ast.Mult, ast.Div):
            op = {ast.Add: "+", ast.Sub: "-", ast.Mult: "*", ast.Div: "/"}[type(e.op)]
            return f"({self.vec(e.left, i)} {op} {self.vec(e.right, i)})"
        if _call_attr(e) == "diagonal":
            return f"({self.mat(e.func.value)} {i} {i})"
        if _call_attr(e) == "squeeze" and _call_attr(e.func.value) == "_cholesky_solve":
            c = e.func.value
            if not (isinstance(c.func.value, ast.Name) and self.mats.get(c.func.value.id) == "L" and len(c.args) == 1
                    and _call_attr(c.args[0]) == "unsqueeze"):
                _fail("LOO: solve outside the vocabulary", e)
            inner = self.vec(c.args[0].func.value, "j")
            return f"((X *ᵥ fun j => {inner}) {i})"
        _fail("LOO: vector expression outside the vocabulary", e)


def _loo_scalar(e, env):
    """the two summands: expressions over sigma2 / mu / target -> Lean scalar over s2 mu y with half, logS2"""
    if isinstance(e, ast.Name) and e.id in env:
        return env[e.id]
    if isinstance(e, ast.Constant) and e.value == -0.5:
        return "(-half)"
    if isinstance(e, ast.UnaryOp) and isinstance(e.op, ast.USub) and isinstance(e.operand, ast.Constant) and e.operand.value == 0.5:
        return "(-half)"
    if isinstance(e, ast.Constant) and e.value == 0.5:
        return "half"
    if isinstance(e, ast.BinOp) and type(e.op) in (ast.Add, ast.Sub, ast.Mult, ast.Div):
        op = {ast.Add: "+", ast.Sub: "-", ast.Mult: "*", ast.Div: "/"}[type(e.op)]
        return f"({_loo_scalar(e.left, env)} {op} {_loo_scalar(e.right, env)})"
    if _call_attr(e) == "log" and _is_name(e.func.value, "sigma2") and not e.args:
        return "logS2"
    if _call_attr(e) == "pow" and len(e.args) == 1 and isinstance(e.args[0], ast.Constant) and e.args[0].value in (2, 2.0):
        x = _loo_scalar(e.func.value, env)
        return f"({x} * {x})"
    if _call_attr(e) == "square" and not e.args:
        x = _loo_scalar(e.func.value, env)
        return f"({x} * {x})"
    _fail("LOO: summand expression outside the vocabulary", e)


def loo_forward(tree):
    fn = _method(_cls(tree, "LeaveOneOutPseudoLikelihood"), "forward")
    T = _Loo()
    T.vecs["target"] = "(y {i})"
    out = {}
    env = {}
    terms = {}
    ret = None
    for s in _body(fn):
        if isinstance(s, ast.Return):
            ret = s.value
            continue
        if not isinstance(s, ast.Assign) or len(s.targets) != 1:
            _fail("LOO.forward: statement outside the vocabulary", s)
        tg, v = s.targets[0], s.value
        if _is_name(tg, "output"):
            if _src(v) != "self.likelihood(function_dist, *params)":
                _fail("LOO.forward: output must be the likelihood marginal", s)
        elif isinstance(tg, ast.Tuple) and [_src(t) for t in tg.elts] == ["m", "L"]:
            if [_src(x) for x in v.elts] != ["output.mean", "output.lazy_covariance_matrix.cholesky(upper=False)"]:
                _fail("LOO.forward: m, L must be the marginal mean and the Cholesky factor of its covariance", s)
            T.vecs["m"] = "(m {i})"
            T.mats["L"] = "L"
        elif _is_name(tg, "m") and _call_attr(v) == "reshape" and _is_name(v.func.value, "m"):
            pass
        elif _is_name(tg, "identity") and isinstance(v, ast.Call) and _src(v.func) == "torch.eye":
            T.ident.add("identity")
        elif _is_name(tg, "sigma2"):
            out["sigma2"] = T.vec(v, "i")
            T.vecs["sigma2"] = "(looSigma2 A X {i})"
        elif _is_name(tg, "mu"):
            out["mu"] = T.vec(v, "i")
        elif isinstance(tg, ast.Name) and tg.id in ("term1", "term2"):
            terms[tg.id] = _loo_scalar(v, {"sigma2": "s2", "mu": "mu", "target": "y"})
        elif _is_name(tg, "res") and "sum" in _src(v) and "term" in _src(v):
            if not (_call_attr(v) == "sum" and ({k.arg: _src(k.value) for k in v.keywords} == {"dim": "-1"}
                                                or [_src(x) for x in v.args] == ["-1"])):
                _fail("LOO.forward: the summands must be summed over the last dimension", s)
            out["term"] = _loo_scalar(v.func.value, terms)
        elif _is_name(tg, "res") and _src(v) == "self._add_other_terms(res, params)":
            out["other"] = True
        elif isinstance(tg, ast.Name):
            env[tg.id] = _nat(v, env, {"target.size(-1)": "n", "target.shape[-1]": "n"})
        else:
            _fail("LOO.forward: statement outside the vocabulary", s)
    for k in ("sigma2", "mu", "term", "other"):
        if k not in out:
            _fail(f"LOO.forward: {k} not found")
    # final: res.div_(num_data) - 0.5 * math.log(2 * math.pi)
    if not (isinstance(ret, ast.BinOp) and isinstance(ret.op, ast.Sub) and _src(ret.right) == "0.5 * math.log(2 * math.pi)"):
        _fail("LOO.forward: final expression must be <res / n> - 0.5 * math.log(2 * math.pi)", ret)
    num, cnt = _div(ret.left, env, {"target.size(-1)": "n", "target.shape[-1]": "n"})
    if not _is_name(num, "res"):
        _fail("LOO.forward: the divided quantity must be res", ret)
    out["count"] = cnt
    return out


# ---------------------------------------------------------------------------------------------- Sum MLL

def sum_forward(tree):
    fn = _method(_cls(tree, "SumMarginalLogLikelihood"), "forward")
    body = _body(fn)
    ret = None
    nsum = 0
    for s in ast.walk(fn):
        if isinstance(s, ast.Assign) and _is_name(s.targets[0], "sum_mll"):
            v = s.value
            if not (isinstance(v, ast.Call) and _is_name(v.func, "sum") and len(v.args) == 1
                    and isinstance(v.args[0], ast.GeneratorExp) and _src(v.args[0].elt).startswith("mll(output, target")
                    and "self.mlls" in _src(v.args[0].generators[0].iter)):
                _fail("SumMarginalLogLikelihood.forward: sum_mll must be sum(mll(output, target, ...) over the members)", s)
            nsum += 1
    for s in body:
        if isinstance(s, ast.Return):
            ret = s.value
    if nsum == 0 or ret is None:
        _fail("SumMarginalLogLikelihood.forward: structure outside the vocabulary")
    num, cnt = _div(ret, {}, {"len(self.mlls)": "ms.length"})
    if not _is_name(num, "sum_mll"):
        _fail("SumMarginalLogLikelihood.forward: the divided quantity must be sum_mll", ret)
    return cnt


# ---------------------------------------------------------------------------------------------- emit

def render(repo):
    ex = _parse(repo, "gpytorch/mlls/exact_marginal_log_likelihood.py")
    lo = _parse(repo, "gpytorch/mlls/leave_one_out_pseudo_likelihood.py")
    su = _parse(repo, "gpytorch/mlls/sum_marginal_log_likelihood.py")
    other = add_other_terms(ex)
    cnt = mll_forward(ex)
    loo = loo_forward(lo)
    scnt = sum_forward(su)
    folds = {"added": f"added.foldl (fun r t => r {other['added_sign']} t)", "prior": f"priors.foldl (fun r t => r {other['prior_sign']} t)"}
    first, second = other["order"]
    facts = {"add_other_terms": other, "mll_count": cnt, "loo": loo, "sum_count": scnt}
    text = f"""/-
GENERATED by harness/translate/g7_mll_assembly.py from $VERIF_REPO/gpytorch/mlls/
(exact_marginal_log_likelihood.py, leave_one_out_pseudo_likelihood.py, sum_marginal_log_likelihood.py) — do not edit.
Props/C02.lean proves these equal to GPVerif/Model/MLL.lean; drivers/C02.lean runs them.
-/
import GPVerif.Model.MLL

open Matrix
set_option linter.unusedVariables false

namespace Gen.MLLAssembly
variable {{α : Type}}

/-- `_add_other_terms`: loops in source order {other['order']}; added-loss terms enter with `{other['added_sign']}`, prior
terms with `{other['prior_sign']}`. -/
def addOtherTerms [Add α] [Sub α] (res : α) (priors added : List α) : α :=
  let res := {folds[first]} res
  {folds[second]} res

/-- the reduction of one prior term: `term.view(*term.shape[:k], -1).sum(dim=-1)` with `k = {other['keep']}`, then the
broadcast onto `res`. -/
def priorReduce [Add α] [Zero α] [Inhabited α] (resShape termShape : List Nat) (vals : Array α) (b : List Nat) : α :=
  let k := {other['keep']}
  let kept := termShape.take k
  let rest := (termShape.drop k).prod
  let row := MLL.flatIdx (MLL.bcastIdx kept b) kept
  ((List.range rest).map fun j => vals[row * rest + j]!).sum

/-- `ExactMarginalLogLikelihood.forward`: log_prob → `_add_other_terms` → `/ {cnt}`. -/
def mllForward [Add α] [Sub α] [Div α] [NatCast α] (logN : α) (priors added : List α) (eventNumel : Nat) : α :=
  (addOtherTerms logN priors added) / ((({cnt}) : Nat) : α)

/-- LOO: `sigma2` at index `i` (`A` = marginal covariance, `X` = chol-solve of the identity = `A⁻¹`). -/
def looSigma2 [Field α] {{n : Nat}} (A X : Matrix (Fin n) (Fin n) α) (i : Fin n) : α :=
  {loo['sigma2']}

/-- LOO: `mu` at index `i`. -/
def looMu [Field α] {{n : Nat}} (A X : Matrix (Fin n) (Fin n) α) (y m : Fin n → α) (i : Fin n) : α :=
  {loo['mu']}

/-- LOO: one summand `term1 + term2` (with `logS2 = log sigma2`). -/
def looTermExpr [Add α] [Sub α] [Mul α] [Div α] [Neg α] (half logS2 y mu s2 : α) : α :=
  {loo['term']}

/-- LOO: `sum(-1)` → `_add_other_terms` → `/ {loo['count']}` → `- 0.5 log 2π`. -/
def looReduce [Add α] [Zero α] [Sub α] [Mul α] [Div α] [NatCast α] (half log2pi : α) (terms priors added : List α)
    (n : Nat) : α :=
  (addOtherTerms terms.sum priors added) / ((({loo['count']}) : Nat) : α) - half * log2pi

/-- `SumMarginalLogLikelihood.forward`: `sum(member objectives) / {scnt}`. -/
def sumMllExpr [Add α] [Zero α] [Div α] [NatCast α] (ms : List α) : α :=
  ms.sum / ((({scnt}) : Nat) : α)

end Gen.MLLAssembly
"""
    return text, facts


def generate(repo, out_path):
    text, facts = render(repo)
    old = open(out_path).read() if os.path.exists(out_path) else None
    if old != text:
        with open(out_path, "w") as fh:
            fh.write(text)
    return facts, old != text


if __name__ == "__main__":
    import sys
    print(render(sys.argv[1] if len(sys.argv) > 1 else "/repo")[0])

"""G1 — Python-AST -> Lean translator for the settings classes.

Reads `$VERIF_REPO/gpytorch/settings.py`, `beta_features.py` and (because gpytorch.settings re-exports
them) `linear_operator/settings.py`, resolves each exported class's MRO, inlines classmethod / super() /
member-manager calls, and emits `GPVerif/Gen/Settings.lean`: one `ClassDesc` per class whose
`__init__/__enter__/__exit__` are flat statement lists of the IR in `GPVerif/Model/Settings.lean`.

Anything outside the vocabulary raises `TranslateError` (a broken tie, never silently skipped).
"""
import ast
import importlib.util
import os
import re


class TranslateError(Exception):
    pass


# Class fields that are caches, not settings: writes to them are dropped from the model (documented in
# DESIGN.md §C20: `deterministic_probes._set_state` also resets the probe-vector cache on every state change).
IGNORED_CLASS_FIELDS = {("deterministic_probes", "probe_vectors")}
# Documented constructor defaults (the public API as described in the class docstrings / signatures of the pinned
# release): an omitted argument means THIS value inside the block, whatever the enclosing blocks set.  Per-dtype
# settings are absent on purpose: there `None` is documented to mean "keep the current value".
DOCUMENTED_CTOR_DEFAULTS = {
    "*flag*": {"state": "True"},                      # every _feature_flag subclass: `with flag():` switches it on
    "fast_pred_var": {"state": "True", "num_probe_vectors": "1"},
    "fast_computations": {"covar_root_decomposition": "True", "log_prob": "True", "solves": "True"},
    "linalg_dtypes": {"default": "torch.double"},
}
# Parameters for which an omitted argument / `None` is DOCUMENTED to mean "keep the value that is visible where the block
# is entered" (the per-dtype settings: a block names a SUBSET of the three fields, the others keep the enclosing value).
# This is the specification side: the generated `kept_*` theorems state it for the class description translated from the
# source (whose constructor's defaulting expression `x if x is not None else <orig>` is translated, not assumed), and
# `keep_params_default_none` (Props/C20.lean) states that the declared default of each of them is `None`.
NONE_MEANS_KEEP = ("float_value", "double_value", "half_value")
# Composite settings (no fields of their own; they enter member managers): constructor parameter -> (member class,
# observer of the member that must show the argument inside the block).  `fallback`: parameter whose value an omitted /
# None argument takes (linalg_dtypes: `symeig` / `cholesky` default to `default`).
COMPOSITE_OBS = {
    "fast_computations": {"covar_root_decomposition": ("_fast_covar_root_decomposition", "on()", None),
                          "log_prob": ("_fast_log_prob", "on()", None),
                          "solves": ("_fast_solves", "on()", None)},
    "linalg_dtypes": {"symeig": ("_linalg_dtype_symeig", "value()", "default"),
                      "cholesky": ("_linalg_dtype_cholesky", "value()", "default")},
}
# observer -> constructor parameter that it must show inside the block
OBS_PARAM = {"on()": "state", "value()": "value", "value(torch.float)": "float_value",
             "value(torch.double)": "double_value", "value(torch.half)": "half_value",
             "num_probe_vectors()": "num_probe_vectors"}


class Tables:
    def __init__(self):
        self.cls, self.fld, self.atom = [], [], []

    def _id(self, tab, name):
        if name not in tab:
            tab.append(name)
        return tab.index(name)

    def c(self, n):
        return self._id(self.cls, n)

    def f(self, n):
        return self._id(self.fld, n)

    def a(self, n):
        return self._id(self.atom, n)


def const_atom(node):
    """Canonical text of a constant expression, or None if `node` is not one.  Python None -> 'None'."""
    if isinstance(node, ast.Constant):
        return repr(node.value)
    if isinstance(node, ast.UnaryOp) and isinstance(node.op, ast.USub) and isinstance(node.operand, ast.Constant):
        return repr(-node.operand.value)
    if isinstance(node, ast.Attribute) and isinstance(node.value, ast.Name) and node.value.id == "torch":
        return "torch." + node.attr
    return None


class Source:
    """All ClassDefs of the three files, by name (gpytorch's definitions shadow linear_operator's)."""

    def __init__(self, repo):
        self.files = {}
        lo = importlib.util.find_spec("linear_operator")
        if lo is None:
            raise TranslateError("linear_operator not importable")
        lo_file = os.path.join(os.path.dirname(lo.origin), "settings.py")
        self.gp_file = os.path.join(repo, "gpytorch", "settings.py")
        self.beta_file = os.path.join(repo, "gpytorch", "beta_features.py")
        self.lo_file = lo_file
        self.trees = {f: ast.parse(open(f).read()) for f in (self.gp_file, self.beta_file, lo_file)}
        self.classes = {}  # (file, name) -> ClassDef

        for f, t in self.trees.items():
            for n in t.body:
                if isinstance(n, ast.ClassDef):
                    self.classes[(f, n.name)] = n

    def all_list(self, f):
        for n in self.trees[f].body:
            if isinstance(n, ast.Assign) and any(isinstance(t, ast.Name) and t.id == "__all__" for t in n.targets):
                return [e.value for e in n.value.elts]
        raise TranslateError(f"no __all__ in {f}")

    def imported_from_lo(self):
        names = set()
        for n in self.trees[self.gp_file].body:
            if isinstance(n, ast.ImportFrom) and n.module == "linear_operator.settings":
                names |= {a.asname or a.name for a in n.names}
        return names

    def resolve(self, f, name):
        """Class `name` as visible in file f -> (file, ClassDef)."""
        if (f, name) in self.classes:
            return f, self.classes[(f, name)]
        if f == self.gp_file and name in self.imported_from_lo() and (self.lo_file, name) in self.classes:
            return self.lo_file, self.classes[(self.lo_file, name)]
        if f == self.beta_file and (self.gp_file, name) in self.classes:  # from .settings import …
            return self.gp_file, self.classes[(self.gp_file, name)]
        return None

    def mro(self, f, cd):
        chain = [(f, cd)]
        while True:
            f, cd = chain[-1]
            bases = [b for b in cd.bases if not (isinstance(b, ast.Name) and b.id == "object")]
            if not bases:
                return chain
            if len(bases) > 1 or not isinstance(bases[0], ast.Name):
                raise TranslateError(f"unsupported bases of {cd.name}")
            r = self.resolve(f, bases[0].id)
            if r is None:
                raise TranslateError(f"base {bases[0].id} of {cd.name} not found")
            chain.append(r)


def find_method(chain, start, name):
    for k in range(start, len(chain)):
        f, cd = chain[k]
        for n in cd.body:
            if isinstance(n, ast.FunctionDef) and n.name == name:
                kind = "inst"
                for d in n.decorator_list:
                    if isinstance(d, ast.Name) and d.id in ("classmethod", "staticmethod"):
                        kind = d.id
                return k, n, kind
    return None


class Translator:
    def __init__(self, repo):
        self.src = Source(repo)
        self.T = Tables()
        self.T.a("None")  # atom 0 is never used for None (None is Lean `none`) but keeps ids stable
        self.descs = {}   # class key -> dict
        self.order = []

    # ------------------------------------------------------------ expressions
    def lean_val(self, atom_text):
        return "none" if atom_text == "None" else f"(some {self.T.a(atom_text)})"

    def expr(self, node, cx):
        """cx: dict(chain, pos, cname, env (local name -> lean expr / ('const', text)), prefix)"""
        ca = const_atom(node)
        if ca is not None:
            return ("const", ca)
        if isinstance(node, ast.Name):
            if node.id in cx["env"]:
                return cx["env"][node.id]
            raise TranslateError(f"unbound name {node.id} in {cx['cname']}")
        if isinstance(node, ast.Attribute):
            if isinstance(node.value, ast.Name) and node.value.id == "self":
                if cx["self_ok"]:
                    return ("self", cx["prefix"] + node.attr)
                raise TranslateError("self in classmethod")
            if self.is_cls_ref(node.value):
                return ("cls", cx["cname"], node.attr)
            raise TranslateError(f"attribute {ast.unparse(node)} in {cx['cname']}")
        if isinstance(node, ast.IfExp):
            t = node.test
            if isinstance(t, ast.Compare) and len(t.ops) == 1 and const_atom(t.comparators[0]) == "None":
                c = self.expr(t.left, cx)
                a, b = self.expr(node.body, cx), self.expr(node.orelse, cx)
                if isinstance(t.ops[0], ast.IsNot):
                    return ("ite", c, a, b)
                if isinstance(t.ops[0], ast.Is):
                    return ("ite", c, b, a)
            raise TranslateError(f"conditional {ast.unparse(node)}")
        if isinstance(node, ast.Call):
            return self.call_expr(node, cx)
        if isinstance(node, ast.Compare) and len(node.ops) == 1 and isinstance(node.ops[0], ast.Is) \
                and const_atom(node.comparators[0]) == "None":
            return ("isnone", self.expr(node.left, cx))  # only meaningful as the test of an `if`
        raise TranslateError(f"expression {ast.unparse(node)} in {cx['cname']}")

    @staticmethod
    def is_cls_ref(node):
        return (isinstance(node, ast.Name) and node.id == "cls") or (
            isinstance(node, ast.Attribute) and node.attr == "__class__"
            and isinstance(node.value, ast.Name) and node.value.id == "self")

    @staticmethod
    def is_super(node):
        return isinstance(node, ast.Call) and isinstance(node.func, ast.Name) and node.func.id == "super"

    def bind(self, fn, kind, call, cx):
        """Bind call arguments to the parameters of fn -> env."""
        params = [a.arg for a in fn.args.args]
        if kind in ("inst", "classmethod"):
            params = params[1:]
        defaults = fn.args.defaults
        env = {}
        dstart = len(params) - len(defaults)
        for i, p in enumerate(params):
            if i >= dstart:
                env[p] = self.expr(defaults[i - dstart], cx)
        pos = [a for a in call.args if not isinstance(a, ast.Starred)]
        for p, a in zip(params, pos):
            env[p] = self.expr(a, cx)
        for kw in call.keywords:
            if kw.arg is None:
                continue  # **kwargs forwarded: the generated classes take none
            env[kw.arg] = self.expr(kw.value, cx)
        for p in params:
            if p not in env:
                raise TranslateError(f"parameter {p} of {fn.name} unbound")
        return env

    def call_expr(self, node, cx):
        """A classmethod call used as a value: inline its return expression (static if-chains only)."""
        f = node.func
        if isinstance(f, ast.Attribute) and (self.is_cls_ref(f.value) or self.is_super(f.value)):
            start = cx["pos"] + 1 if self.is_super(f.value) else 0
            r = find_method(cx["chain"], start, f.attr)
            if r is None:
                raise TranslateError(f"method {f.attr} not found for {cx['cname']}")
            pos, fn, kind = r
            if kind == "inst" and not self.is_super(f.value):
                raise TranslateError(f"instance method {f.attr} called on class")
            env = self.bind(fn, kind, node, cx)
            cx2 = dict(cx, pos=pos, env=env, self_ok=(kind == "inst" and cx["self_ok"]))
            return self.ret_expr(fn.body, cx2)
        raise TranslateError(f"call {ast.unparse(node)} in {cx['cname']}")

    def static_test(self, test, cx):
        """Decide a test statically (for the dtype dispatch of `value`): returns True/False or None."""
        if isinstance(test, ast.Call) and ast.unparse(test.func) == "torch.is_tensor":
            a = self.expr(test.args[0], cx)
            if a[0] == "const":
                return False
            return None
        if isinstance(test, ast.Compare) and len(test.ops) == 1 and isinstance(test.ops[0], ast.Eq):
            a, b = self.expr(test.left, cx), self.expr(test.comparators[0], cx)
            if a[0] == "const" and b[0] == "const":
                # torch.float == torch.float32 etc. are aliases inside torch; we only compare spelled names
                alias = {"torch.float32": "torch.float", "torch.float64": "torch.double", "torch.float16": "torch.half"}
                return alias.get(a[1], a[1]) == alias.get(b[1], b[1])
            return None
        if isinstance(test, ast.Call) and isinstance(test.func, ast.Attribute) and self.is_cls_ref(test.func.value):
            return None
        return None

    def ret_expr(self, body, cx):
        for st in body:
            if isinstance(st, ast.Expr) and isinstance(st.value, ast.Constant):
                continue
            if isinstance(st, ast.Return):
                return self.expr(st.value, cx)
            if isinstance(st, ast.If):
                # `if cls.is_default(): return cls._default` style: a dynamic None test
                t = st.test
                dyn = None
                if isinstance(t, ast.Compare) and len(t.ops) == 1 and const_atom(t.comparators[0]) == "None":
                    dyn = (self.expr(t.left, cx), isinstance(t.ops[0], ast.IsNot))
                elif isinstance(t, ast.Call) and not (ast.unparse(t.func) == "torch.is_tensor"):
                    inner = self.call_expr(t, cx)
                    if inner[0] == "isnone":
                        dyn = (inner[1], False)
                if dyn is not None:
                    c, notnone = dyn
                    a = self.ret_expr(st.body, cx)
                    rest = body[body.index(st) + 1:]
                    b = self.ret_expr(st.orelse if st.orelse else rest, cx)
                    return ("ite", c, a, b) if notnone else ("ite", c, b, a)
                s = self.static_test(t, cx)
                if s is True:
                    return self.ret_expr(st.body, cx)
                if s is False:
                    if st.orelse:
                        r = self.ret_expr_opt(st.orelse, cx)
                        if r is not None:
                            return r
                    continue
                raise TranslateError(f"undecidable test {ast.unparse(t)} in {cx['cname']}")
            if isinstance(st, ast.Assign) and len(st.targets) == 1 and isinstance(st.targets[0], ast.Name):
                # only reached on statically-false branches (`dtype = dtype.dtype`); reject otherwise
                raise TranslateError(f"assignment in value method of {cx['cname']}")
            if isinstance(st, ast.Raise):
                raise TranslateError(f"value method of {cx['cname']} raises on this path")
            raise TranslateError(f"statement {ast.unparse(st)} in value method")
        raise TranslateError("no return")

    def ret_expr_opt(self, body, cx):
        try:
            return self.ret_expr(body, cx)
        except TranslateError:
            raise

    def falsy_atoms(self):
        return [self.T.a(a) for a in ("False", "0", "0.0", "''", '""') if a in self.T.atom or a in ("False", "0")]

    def cond(self, t, cx):
        """Translate the test of an `if`: `x is [not] None`, `not c`, or Python truthiness of an expression."""
        if isinstance(t, ast.UnaryOp) and isinstance(t.op, ast.Not):
            return ("neg", self.cond(t.operand, cx))
        if isinstance(t, ast.Compare) and len(t.ops) == 1 and const_atom(t.comparators[0]) == "None":
            e = self.expr(t.left, cx)
            if isinstance(t.ops[0], ast.IsNot):
                return ("notNone", e)
            if isinstance(t.ops[0], ast.Is):
                return ("neg", ("notNone", e))
        if isinstance(t, (ast.Name, ast.Attribute, ast.Call, ast.IfExp)):
            e = self.expr(t, cx)
            if e[0] == "isnone":
                return ("neg", ("notNone", e[1]))
            return ("truthy", e)
        raise TranslateError(f"condition `{ast.unparse(t)}` in {cx['cname']}.{cx['meth']}")

    def reads_expr(self, e):
        k = e[0]
        if k == "self":
            return {("self", e[1])}
        if k == "cls":
            return {("cls", e[1], e[2])}
        if k == "ite":
            return self.reads_expr(e[1]) | self.reads_expr(e[2]) | self.reads_expr(e[3])
        return set()

    def reads_cond(self, c):
        if c[0] == "neg":
            return self.reads_cond(c[1])
        return self.reads_expr(c[1])

    def writes(self, s_):
        if s_[0] == "setSelf":
            return {("self", s_[1])}
        if s_[0] == "setCls":
            return {("cls", s_[1], s_[2])}
        if s_[0] == "guard":
            return self.writes(s_[2])
        return set()

    # ------------------------------------------------------------ statements
    def stmts(self, body, cx, out):
        """Translate a method body; returns True when a `return` ended it."""
        for st in body:
            if isinstance(st, ast.Expr) and isinstance(st.value, ast.Constant):
                continue
            if isinstance(st, ast.Pass):
                continue
            if isinstance(st, ast.Expr) and isinstance(st.value, ast.Call):
                if ast.unparse(st.value.func) == "warnings.warn":
                    out.append(("warn",))  # raises when warnings are escalated to errors
                    continue
                self.call_stmt(st.value, cx, out)
                continue
            if isinstance(st, ast.Return):
                v = st.value
                if v is None or const_atom(v) in ("False", "None"):
                    return True
                if isinstance(v, ast.Name) and cx["env"].get(v.id) in (("const", "None"), ("const", "False")):
                    return True
                if isinstance(v, ast.Call):
                    self.call_stmt(v, cx, out, returns=True)
                    return True
                raise TranslateError(f"return value {ast.unparse(v)} in {cx['cname']}.{cx['meth']}")
            if isinstance(st, ast.Assign) and len(st.targets) == 1:
                t = st.targets[0]
                if isinstance(t, ast.Name):
                    v = st.value
                    if isinstance(v, ast.Call) and isinstance(v.func, ast.Attribute) and v.func.attr in (
                            "__enter__", "__exit__", "_set_state", "_set_value", "_set_num_probe_vectors"):
                        # a call executed for its effect whose (None/False) result is kept in a local
                        self.call_stmt(v, cx, out)
                        cx["env"][t.id] = ("const", "None")
                        continue
                    cx["env"][t.id] = self.expr(v, cx)
                    continue
                if isinstance(t, ast.Attribute):
                    if isinstance(t.value, ast.Name) and t.value.id == "self" and cx["self_ok"]:
                        if isinstance(st.value, ast.Call) and isinstance(st.value.func, ast.Name):
                            r = self.src.resolve(cx["chain"][cx["pos"]][0], st.value.func.id)
                            if r is not None:
                                self.member_init(t.attr, r, st.value, cx, out)
                                continue
                        out.append(("setSelf", cx["prefix"] + t.attr, self.expr(st.value, cx)))
                        continue
                    if self.is_cls_ref(t.value):
                        if (cx["cname"], t.attr) in IGNORED_CLASS_FIELDS:
                            continue
                        out.append(("setCls", cx["cname"], t.attr, self.expr(st.value, cx)))
                        continue
            if isinstance(st, ast.If):
                t = st.test
                # `if e not in {consts}: raise` (constructor validation)
                if not st.orelse and isinstance(t, ast.Compare) and len(t.ops) == 1 and isinstance(t.ops[0], ast.NotIn) \
                        and isinstance(t.comparators[0], ast.Set) and len(st.body) == 1 and isinstance(st.body[0], ast.Raise):
                    if cx["meth"] != "__init__":
                        raise TranslateError("raise outside __init__")
                    allowed = [const_atom(e) for e in t.comparators[0].elts]
                    if any(a is None for a in allowed):
                        raise TranslateError("non-constant allowed set")
                    out.append(("raiseUnlessIn", self.expr(t.left, cx), allowed))
                    continue
                cond = self.cond(t, cx)
                for branch, c in ((st.body, cond), (st.orelse, ("neg", cond))):
                    inner = []
                    if self.stmts(branch, cx, inner):
                        raise TranslateError("return inside a conditional block")
                    for s_ in inner:
                        # the branch must not change what its own condition reads (else flattening into guards is unsound)
                        if self.writes(s_) & self.reads_cond(cond):
                            raise TranslateError(f"branch of `if {ast.unparse(t)}` writes a location its condition reads")
                        out.append(("guard", c, s_))
                continue
            raise TranslateError(f"statement `{ast.unparse(st)[:80]}` in {cx['cname']}.{cx['meth']}")
        return False

    def member_init(self, attr, resolved, call, cx, out):
        f, cd = resolved
        chain = self.src.mro(f, cd)
        self.ensure_class(f, cd)
        r = find_method(chain, 0, "__init__")
        pos, fn, kind = r
        env = self.bind(fn, kind, call, cx)
        cx["members"][cx["prefix"] + attr] = (f, cd, chain)
        cx2 = dict(chain=chain, pos=pos, cname=cd.name, env=env, prefix=cx["prefix"] + attr + ".", self_ok=True,
                   meth="__init__", members=cx["members"])
        self.stmts(fn.body, cx2, out)

    def call_stmt(self, node, cx, out, returns=False):
        f = node.func
        if not isinstance(f, ast.Attribute):
            raise TranslateError(f"call {ast.unparse(node)}")
        recv = f.value
        # self.member.__enter__() / __exit__()
        if isinstance(recv, ast.Attribute) and isinstance(recv.value, ast.Name) and recv.value.id == "self" \
                and recv.attr != "__class__":
            key = cx["prefix"] + recv.attr
            if key not in cx["members"]:
                raise TranslateError(f"unknown member {key} in {cx['cname']}")
            mf, mcd, mchain = cx["members"][key]
            r = find_method(mchain, 0, f.attr)
            if r is None:
                raise TranslateError(f"member method {f.attr}")
            pos, fn, kind = r
            env = self.bind(fn, kind, node, cx)
            cx2 = dict(chain=mchain, pos=pos, cname=mcd.name, env=env, prefix=key + ".", self_ok=True,
                       meth=f.attr, members=cx["members"])
            self.stmts(fn.body, cx2, out)
            return
        if self.is_cls_ref(recv) or self.is_super(recv):
            start = cx["pos"] + 1 if self.is_super(recv) else 0
            r = find_method(cx["chain"], start, f.attr)
            if r is None:
                raise TranslateError(f"method {f.attr} not found for {cx['cname']}")
            pos, fn, kind = r
            if kind == "inst" and not self.is_super(recv):
                raise TranslateError("instance method via class")
            env = self.bind(fn, kind, node, cx)
            cx2 = dict(cx, pos=pos, env=env, self_ok=(cx["self_ok"] and kind == "inst"), meth=cx["meth"])
            self.stmts(fn.body, cx2, out)
            return
        raise TranslateError(f"call {ast.unparse(node)} in {cx['cname']}.{cx['meth']}")

    # ------------------------------------------------------------ classes
    def ensure_class(self, f, cd):
        key = (f, cd.name)
        if key in self.descs:
            return self.descs[key]
        d = self.descs[key] = {"name": cd.name, "file": f}
        self.order.append(key)
        self.T.c(cd.name)
        chain = self.src.mro(f, cd)
        # class fields (nearest definition wins)
        fields = {}
        opaque = set()
        for _, c in reversed(chain):
            for n in c.body:
                if isinstance(n, ast.Assign) and len(n.targets) == 1 and isinstance(n.targets[0], ast.Name):
                    ca = const_atom(n.value)
                    if (cd.name, n.targets[0].id) in IGNORED_CLASS_FIELDS:
                        continue
                    if ca is not None:
                        fields[n.targets[0].id] = ca
                    elif isinstance(n.value, ast.Name) and self.src.resolve(f, n.value.id):
                        pass  # alias of another settings class (fast_computations.solves = _fast_solves)
                    else:
                        opaque.add(n.targets[0].id)  # e.g. a logger object: legal as long as no method touches it
        d["fields"] = fields
        # constructor parameters
        r = find_method(chain, 0, "__init__")
        if r is None:
            raise TranslateError(f"{cd.name} has no __init__")
        pos, fn, kind = r
        if fn.args.vararg or fn.args.kwarg or fn.args.kwonlyargs:
            raise TranslateError(f"{cd.name}.__init__ signature")
        params = [a.arg for a in fn.args.args][1:]
        defaults = [None] * (len(params) - len(fn.args.defaults)) + [const_atom(x) for x in fn.args.defaults]
        d["params"] = list(zip(params, defaults))
        members = {}
        methods = {}
        for meth in ("__init__", "__enter__", "__exit__"):
            r = find_method(chain, 0, meth)
            if r is None:
                raise TranslateError(f"{cd.name} lacks {meth}")
            pos, fn, kind = r
            env = {p: ("param", p) for p in params} if meth == "__init__" else {}
            cx = dict(chain=chain, pos=pos, cname=cd.name, env=env, prefix="", self_ok=True, meth=meth, members=members)
            out = []
            self.stmts(fn.body, cx, out)
            methods[meth] = out
        d["methods"] = methods

        def touched(e):
            if e[0] == "cls":
                yield e[2]
            for x in e[1:]:
                if isinstance(x, tuple):
                    yield from touched(x)
        for meth, ss in methods.items():
            for st in ss:
                if st[0] == "setCls" and (st[2] in opaque or (st[1] == cd.name and st[2] not in fields)):
                    raise TranslateError(f"{cd.name}.{meth} writes undeclared/opaque class field {st[2]}")
                for x in st[1:]:
                    if isinstance(x, tuple) and any(t in opaque for t in touched(x)):
                        raise TranslateError(f"{cd.name}.{meth} reads opaque class field")
        # observers: visible value(s) as expressions, for the driver and the `innermost wins` theorems
        obs = {}
        cx = dict(chain=chain, pos=0, cname=cd.name, env={}, prefix="", self_ok=False, meth="obs", members={})
        for name, args in (("on", []), ("value", []), ("value", ["torch.float"]), ("value", ["torch.double"]),
                           ("value", ["torch.half"]), ("num_probe_vectors", [])):
            r = find_method(chain, 0, name)
            if r is None:
                continue
            pos, fn, kind = r
            nparams = len(fn.args.args) - 1
            ndef = len(fn.args.defaults)
            if not (nparams - ndef <= len(args) <= nparams):
                continue
            call = ast.parse(f"cls.{name}({', '.join(args)})").body[0].value
            try:
                obs[f"{name}({', '.join(args)})"] = self.expr(call, dict(cx, env={}))
            except TranslateError:
                if args or name == "value":
                    continue  # e.g. value() without a dtype raises in the real code as well
                raise
        d["observers"] = obs
        doc = ast.get_docstring(cd) or ""
        d["doc_defaults"] = []
        m = re.search(r"\(?Default:\s*([^\s)]+)\)?", doc)
        if m and "on()" in obs:
            d["doc_defaults"].append(("_default", m.group(1)))
        elif m and "value()" in obs and "_global_value" in fields:
            d["doc_defaults"].append(("_global_value", m.group(1)))
        for ty, txt in re.findall(r"Default for `(float|double|half)`:\s*([^\s]+)", doc):
            d["doc_defaults"].append((f"_global_{ty}_value", txt))
        return d

    # ------------------------------------------------------------ emit
    def lexpr(self, e):
        k = e[0]
        if k == "const":
            return f"(.const {self.lean_val(e[1])})"
        if k == "param":
            return f"(.param {self.T.f(e[1])})"
        if k == "self":
            return f"(.self {self.T.f(e[1])})"
        if k == "cls":
            return f"(.cls {self.T.c(e[1])} {self.T.f(e[2])})"
        if k == "ite":
            return f"(.ifNotNone {self.lexpr(e[1])} {self.lexpr(e[2])} {self.lexpr(e[3])})"
        raise TranslateError(f"emit {e}")

    def lcond(self, c):
        if c[0] == "neg":
            return f"(.neg {self.lcond(c[1])})"
        if c[0] == "notNone":
            return f"(.notNone {self.lexpr(c[1])})"
        if c[0] == "truthy":
            return f"(.truthy {self.lexpr(c[1])} [{', '.join(str(a) for a in self.falsy_atoms())}])"
        raise TranslateError(f"emit cond {c}")

    def lstmt(self, s):
        k = s[0]
        if k == "setSelf":
            return f".setSelf {self.T.f(s[1])} {self.lexpr(s[2])}"
        if k == "setCls":
            return f".setCls {self.T.c(s[1])} {self.T.f(s[2])} {self.lexpr(s[3])}"
        if k == "guard":
            return f".guard {self.lcond(s[1])} ({self.lstmt(s[2])})"
        if k == "warn":
            return ".warn"
        if k == "raiseUnlessIn":
            return f".raiseUnlessIn {self.lexpr(s[1])} [{', '.join(self.lean_val(a) for a in s[2])}]"
        raise TranslateError(f"emit {s}")

    def run(self):
        exported = []
        for f in (self.src.gp_file, self.src.beta_file):
            for name in self.src.all_list(f):
                r = self.src.resolve(f, name)
                if r is None:
                    raise TranslateError(f"exported name {name} is not a class")
                d = self.ensure_class(*r)
                exported.append(d["name"])
            # public settings classes DEFINED in the file but missing from `__all__` (min_fixed_noise): still reachable
            # as `gpytorch.settings.<name>` and used by the library, hence part of the model
            for (cf, cname), cd in self.src.classes.items():
                if cf != f or cname.startswith("_") or cname in exported:
                    continue
                chain = self.src.mro(cf, cd)
                if find_method(chain, 0, "__enter__") is None or find_method(chain, 0, "__exit__") is None:
                    continue
                d = self.ensure_class(cf, cd)
                exported.append(d["name"])
        names = [self.descs[k]["name"] for k in self.order]
        if len(set(names)) != len(names):
            raise TranslateError("two translated classes share a name")
        # no exported class may subclass another translated class (class-attribute inheritance would couple them)
        keys = set(self.order)
        for k in self.order:
            f, name = k
            chain = self.src.mro(f, self.src.classes[k])
            for bf, bcd in chain[1:]:
                if (bf, bcd.name) in keys:
                    raise TranslateError(f"{name} subclasses translated class {bcd.name}")
        return exported

    def emit(self, exported):
        L = ["/- GENERATED by harness/translate/g1_settings.py from the working tree — do not edit. -/",
             "import GPVerif.Model.Settings", "", "namespace Gen.Settings", "open _root_.Settings", ""]
        body = []
        for k in self.order:
            d = self.descs[k]
            cid = self.T.c(d["name"])
            fields = ", ".join(f"({self.T.f(n)}, {self.lean_val(v)})" for n, v in d["fields"].items())
            params = ", ".join(
                f"({self.T.f(p)}, {'none' if dv is None else 'some ' + self.lean_val(dv)})" for p, dv in d["params"])
            ms = {m: ",\n      ".join(self.lstmt(s) for s in ss) for m, ss in d["methods"].items()}
            body.append(f"def c_{d['name']} : ClassDesc :=\n  {{ id := {cid}, fields := [{fields}], params := [{params}],\n"
                        f"    m := {{\n      init := [\n      {ms['__init__']}],\n      enter := [\n      {ms['__enter__']}],\n"
                        f"      exit := [\n      {ms['__exit__']}] }} }}\n")
        obs = []
        for k in self.order:
            d = self.descs[k]
            for oname, e in d["observers"].items():
                obs.append(f"  ({self.T.c(d['name'])}, \"{oname}\", {self.lexpr(e)})")
        docd = []
        self.doc_mismatch = []
        for k in self.order:
            d = self.descs[k]
            for fld, txt in d["doc_defaults"]:
                try:
                    val = ast.literal_eval(txt)
                    actual = d["fields"].get(fld)
                    try:
                        aval = ast.literal_eval(actual) if actual is not None else None
                    except Exception:
                        aval = actual
                    atom = actual if (aval == val and type(aval) is type(val) or
                                      (isinstance(val, (int, float)) and isinstance(aval, (int, float))
                                       and not isinstance(val, bool) and not isinstance(aval, bool) and val == aval)) \
                        else repr(val)
                except Exception:
                    atom = txt.rstrip(".")
                docd.append(f"  ({self.T.c(d['name'])}, {self.T.f(fld)}, {self.lean_val(atom)})")
        L += body
        L.append("def classes : List ClassDesc := [" + ", ".join(f"c_{self.descs[k]['name']}" for k in self.order) + "]\n")
        L.append("def exported : List Nat := [" + ", ".join(str(self.T.c(n)) for n in exported) + "]\n")
        L.append("/-- classes defined outside /repo (linear_operator): translated, but not repairable here -/")
        L.append("def external : List Nat := [" + ", ".join(
            str(self.T.c(self.descs[k]["name"])) for k in self.order if self.descs[k]["file"] == self.src.lo_file) + "]\n")
        L.append("def observers : List (Nat × String × Expr) := [\n" + ",\n".join(obs) + "]\n")
        L.append("/-- (class, field, documented default) parsed from the class docstrings -/")
        L.append("def docDefaults : List (Nat × Nat × Val) := [\n" + ",\n".join(docd) + "]\n")
        q = lambda s: '"' + s.replace("\\", "\\\\").replace('"', '\\"') + '"'
        ctor = []
        for k in self.order:
            d = self.descs[k]
            pn = [p for p, _ in d["params"]]
            tab = dict(DOCUMENTED_CTOR_DEFAULTS.get(d["name"], {}))
            if not tab and pn == ["state"] and "on()" in d["observers"]:
                tab = dict(DOCUMENTED_CTOR_DEFAULTS["*flag*"])
            for p_, v_ in tab.items():
                ctor.append(f"  ({self.T.c(d['name'])}, {self.T.f(p_)}, {self.lean_val(v_)})")
        L.append("/-- (class, constructor parameter, documented default) — from the hand-written table in the translator -/")
        L.append("def documentedCtorDefaults : List (Nat × Nat × Val) := [\n" + ",\n".join(ctor) + "]\n")
        keep = []
        for k in self.order:
            d = self.descs[k]
            if [p for p, _ in d["params"]] == list(NONE_MEANS_KEEP):
                for p_ in NONE_MEANS_KEEP:
                    keep.append(f"({self.T.c(d['name'])}, {self.T.f(p_)})")
        L.append("/-- (class, constructor parameter) for which `None` / omitted is documented to mean: keep the enclosing value -/")
        L.append("def keepParams : List (Nat × Nat) := [" + ", ".join(keep) + "]\n")
        L.append("def clsNames : List String := [" + ", ".join(q(s) for s in self.T.cls) + "]")
        L.append("def fldNames : List String := [" + ", ".join(q(s) for s in self.T.fld) + "]")
        L.append("def atomNames : List String := [" + ", ".join(q(s) for s in self.T.atom) + "]")
        L.append("")
        for i, n in enumerate(self.T.cls):
            L.append(f"abbrev cid_{n} : Nat := {i}")
        for i, n in enumerate(self.T.fld):
            if re.fullmatch(r"\w+", n):
                L.append(f"abbrev fid_{n} : Nat := {i}")
        L.append("\nend Gen.Settings")
        return "\n".join(L) + "\n"


    def emit_thms(self, partial):
        """Gen/SettingsThms.lean: one `Restores` theorem per class (except those listed as partial, for which
        Props/C20.lean carries a hand-stated weaker theorem), their assembly, and the `entered_*` theorems."""
        L = ["/- GENERATED by harness/translate/g1_settings.py from the working tree — do not edit. -/",
             "import GPVerif.Gen.Settings", "import GPVerif.Bridge.SettingsTac", "",
             "namespace Gen.Settings", "open _root_.Settings", ""]
        ok = []
        for k in self.order:
            d = self.descs[k]
            n = d["name"]
            if n in partial:
                continue
            ok.append(n)
            L.append(f"theorem restores_{n} : Restores c_{n} := by settings_restores c_{n}")
        L.append("")
        L.append("/-- ids of the classes for which only a conditional statement is proved (see Props/C20.lean) -/")
        L.append("def partialIds : List Nat := [" + ", ".join(str(self.T.c(n)) for n in partial) + "]\n")
        L.append("theorem restores_all : ∀ d ∈ classes, d.id ∉ partialIds → Restores d := by")
        L.append("  intro d hd hne")
        L.append("  simp only [classes, List.mem_cons, List.not_mem_nil, or_false] at hd")
        L.append("  rcases hd with " + " | ".join("rfl" for _ in self.order))
        for k in self.order:
            n = self.descs[k]["name"]
            if n in partial:
                L.append(f"  · exact absurd (by decide) hne")
            else:
                L.append(f"  · exact restores_{n}")
        L.append("")
        for k in self.order:
            d = self.descs[k]
            n = d["name"]
            pnames = [p for p, _ in d["params"]]
            allowed = [s for s in d["methods"]["__init__"] if s[0] == "raiseUnlessIn"]
            for oname, e in d["observers"].items():
                pn = OBS_PARAM.get(oname)
                if pn is None or pn not in pnames:
                    continue
                hyp = f"(_h : (args {self.T.f(pn)}).isSome = true)"
                for a in allowed:
                    hyp += f" (ha : [{', '.join(self.lean_val(x) for x in a[2])}].contains ({self.lexpr_args(a[1])}) = true)"
                tname = "entered_" + n + "_" + re.sub(r"\W+", "_", oname).strip("_")
                L.append(f"theorem {tname} (σ : Store) (args : Frame) {hyp} :\n"
                         f"    (enteredStore c_{n} args σ).map (fun σ' => Expr.eval ⟨σ', fun _ => none, fun _ => none, false⟩ {self.lexpr(e)})\n"
                         f"      = some (args {self.T.f(pn)}) := by\n"
                         f"  settings_entered c_{n}")
            # fields NOT named by the block keep the enclosing value (per-dtype settings: None = keep)
            if pnames == list(NONE_MEANS_KEEP):
                for oname, e in d["observers"].items():
                    pn = OBS_PARAM.get(oname)
                    if pn is None or pn not in pnames:
                        continue
                    tname = "kept_" + n + "_" + re.sub(r"\W+", "_", oname).strip("_")
                    ev = lambda st: f"Expr.eval ⟨{st}, fun _ => none, fun _ => none, false⟩ {self.lexpr(e)}"
                    L.append(f"theorem {tname} (σ : Store) (args : Frame) (_h : args {self.T.f(pn)} = none) :\n"
                             f"    (enteredStore c_{n} args σ).map (fun σ' => {ev(chr(963) + chr(39))})\n"
                             f"      = some ({ev(chr(963))}) := by\n"
                             f"  settings_kept c_{n}")
            # composite settings: the member's observer shows the argument (or the documented fallback parameter)
            for pn, (mname, moname, fallback) in COMPOSITE_OBS.get(n, {}).items():
                if pn not in pnames:
                    raise TranslateError(f"composite setting {n} has no constructor parameter {pn}")
                mk = [k2 for k2 in self.order if self.descs[k2]["name"] == mname]
                if not mk or moname not in self.descs[mk[0]]["observers"]:
                    raise TranslateError(f"composite setting {n}: member {mname}.{moname} not translated")
                me = self.descs[mk[0]]["observers"][moname]
                tname = "entered_" + n + "_" + pn
                lhs = (f"(enteredStore c_{n} args σ).map (fun σ' => Expr.eval ⟨σ', fun _ => none, fun _ => none, false⟩ "
                       f"{self.lexpr(me)})")
                if fallback is None:
                    L.append(f"theorem {tname} (σ : Store) (args : Frame) (_h : (args {self.T.f(pn)}).isSome = true) :\n"
                             f"    {lhs}\n      = some (args {self.T.f(pn)}) := by\n  settings_entered c_{n}")
                else:
                    L.append(f"theorem {tname} (σ : Store) (args : Frame) :\n    {lhs}\n"
                             f"      = some (if (args {self.T.f(pn)}).isSome then args {self.T.f(pn)} else args {self.T.f(fallback)}) := by\n"
                             f"  settings_entered c_{n}")
        L.append("\nend Gen.Settings")
        return "\n".join(L) + "\n"

    def lexpr_args(self, e):
        if e[0] == "param":
            return f"args {self.T.f(e[1])}"
        raise TranslateError("raise test on a non-parameter")


def _write(path, text):
    old = open(path).read() if os.path.exists(path) else None
    if old != text:
        os.makedirs(os.path.dirname(path), exist_ok=True)
        with open(path, "w") as fh:
            fh.write(text)
    return old != text


def generate(repo, out_path, partial=("cholesky_jitter",)):
    tr = Translator(repo)
    exported = tr.run()
    text = tr.emit(exported)
    thms = tr.emit_thms([n for n in partial if any(tr.descs[k]["name"] == n for k in tr.order)])
    changed = _write(out_path, text)
    changed |= _write(out_path.replace("Settings.lean", "SettingsThms.lean"), thms)
    return tr, exported, changed


if __name__ == "__main__":
    import sys
    repo = sys.argv[1] if len(sys.argv) > 1 else "/repo"
    out = sys.argv[2] if len(sys.argv) > 2 else os.path.join(os.path.dirname(__file__), "../../lean/GPVerif/Gen/Settings.lean")
    tr, exported, changed = generate(repo, os.path.abspath(out))
    print(f"{len(tr.order)} classes, {len(exported)} exported, changed={changed}")

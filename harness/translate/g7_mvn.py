"""G7 (C10): Python-AST -> Lean translator for `gpytorch/distributions/multivariate_normal.py`.

Emits `lean/GPVerif/Gen/MVN.lean` (namespace `GenMVN`) with, regenerated from the source on every run,

(a) `kl_mvn_mvn`: which operand is solved against / rooted / log-det'ed (`Side`), the stacked `inv_quad` right-hand side
    `[mean_diffs | root]` (block order and sign of the difference), and the scalar assembly `0.5 * sum([...])`;
(b) `log_prob`: `value - mean`, the batch reconciliation branch, `padded_batch_shape` and the repeat factors as
    `Nat` list expressions, the operator / right-hand side of `inv_quad_logdet`, and the assembly `-0.5 * sum([...])`;
(c) `__getitem__`: the ellipsis pre-pass, the dispatch (conditions as `Int` / `Bool` expressions over `len(idx)`,
    `mean.dim()`, the kind of `last_idx`) and, per branch, the tuple the covariance operator is indexed with (`CovSel`);
(d) `__mul__`, `__truediv__`, `__add__`, `__radd__` (mean / covariance formulas; any other statement — e.g. copying a
    cached factor — is out of vocabulary), the `variance` clamp, `confidence_region`, `expand` / `unsqueeze` shape and
    dimension arithmetic, `add_jitter`;
(e) `rsample(base_samples)` / `get_base_samples`: view shapes, the two axis moves (any chain of `permute` / `transpose`
    calls, folded into the one equivalent permutation), `root @ eps + loc`;
(f) `__init__`, LinearOperator branch: `batch_shape = torch.broadcast_shapes(...)`, `event_shape`, each conditional
    `expand` of `mean` / `covariance_matrix` (condition: shape comparison or comparison of `len(...)`s; target shape), what
    is stored as `self.loc` / `self._covar`, the batch shape handed to `Distribution.__init__`.

Vocabulary (anything else raises `TranslateError` = broken tie):
  scalar expressions   int/float constants (as exact decimals), names, `+ - * /`, `** <int>`, unary `-`, `sum([...])`,
                       `.mul(c) .mul_(c) .add(x) .sub(x)`, `float(x)`, `<event-sized tensor>.size(-1)` (= k),
                       `math.log(2 * math.pi)` (= the symbol `log2pi`)
  tensor expressions   mean/covariance names combined with `+ -` and scalars with `*`, `.matmul`, `.unsqueeze(-1)`
  integer expressions  `len(x)`, `x.dim()`, `+ - * //`, constants, comparisons, `and`/`or`/`not`, `Ellipsis [not] in x`
  shape expressions    names, `x.shape`, `x.shape[:-k]`, `x.shape[-k:]`, `x.shape[: e]`, `+`, starred tuples with
                       `(1 for _ in range(e))`, `zip` generator of an integer expression
  index tuples         `idx`, `rest_idx`, `(*rest_idx, t, ...)` with `t` in `last_idx`, `last_idx +/- c`,
                       `slice(None, None, None)`, `...`
  statements           only the statement shapes listed per method in the code below
"""
import ast
import os
from fractions import Fraction

REL = "gpytorch/distributions/multivariate_normal.py"


class TranslateError(Exception):
    pass


def bad(node, why):
    src = ast.unparse(node) if isinstance(node, ast.AST) else str(node)
    raise TranslateError(f"{REL}:{getattr(node, 'lineno', '?')}: outside the G7 vocabulary ({why}): {src[:200]}")


def U(node):
    return ast.unparse(node)


def expect(node, text, why):
    if U(node) != text:
        bad(node, f"{why}; expected `{text}`")


def strip_doc(body):
    if body and isinstance(body[0], ast.Expr) and isinstance(body[0].value, ast.Constant) and isinstance(body[0].value.value, str):
        return body[1:]
    return body


def rat(v):
    f = Fraction(repr(v)) if isinstance(v, float) else Fraction(v)
    if f.denominator == 1:
        return str(f.numerator) if f >= 0 else f"(-{-f.numerator})"
    s = f"({abs(f.numerator)} / {f.denominator})"
    return s if f >= 0 else f"(-{s})"


def is_call(node, dotted):
    return isinstance(node, ast.Call) and U(node.func) == dotted


# ----------------------------------------------------------------------------------------------- expression translators

def sexpr(node, env, ksized=()):
    """Scalar expression -> Lean text over a field.  env: python name -> lean text."""
    if isinstance(node, ast.Constant) and isinstance(node.value, (int, float)) and not isinstance(node.value, bool):
        return rat(node.value)
    if isinstance(node, ast.Name):
        if node.id not in env:
            bad(node, "unknown scalar name")
        return env[node.id]
    if isinstance(node, ast.UnaryOp) and isinstance(node.op, ast.USub):
        return f"(-{sexpr(node.operand, env, ksized)})"
    if isinstance(node, ast.BinOp):
        if isinstance(node.op, ast.Pow):
            if not (isinstance(node.right, ast.Constant) and isinstance(node.right.value, int) and node.right.value >= 0):
                bad(node, "power with a non-constant exponent")
            return f"({sexpr(node.left, env, ksized)} ^ {node.right.value})"
        ops = {ast.Add: "+", ast.Sub: "-", ast.Mult: "*", ast.Div: "/"}
        if type(node.op) not in ops:
            bad(node, "scalar operator")
        return f"({sexpr(node.left, env, ksized)} {ops[type(node.op)]} {sexpr(node.right, env, ksized)})"
    if is_call(node, "sum") and len(node.args) == 1 and isinstance(node.args[0], ast.List) and not node.keywords:
        return "(" + " + ".join(sexpr(e, env, ksized) for e in node.args[0].elts) + ")"
    if is_call(node, "float") and len(node.args) == 1 and not node.keywords:
        return sexpr(node.args[0], env, ksized)
    if is_call(node, "math.log"):
        expect(node, "math.log(2 * math.pi)", "only log(2 pi) is a known constant")
        return "log2pi"
    if isinstance(node, ast.Call) and isinstance(node.func, ast.Attribute) and not node.keywords:
        meth, recv = node.func.attr, node.func.value
        if meth == "size" and U(node) .endswith(".size(-1)") and isinstance(recv, ast.Name) and recv.id in ksized:
            return "k"
        if meth in ("mul", "mul_") and len(node.args) == 1:
            return f"({sexpr(recv, env, ksized)} * {sexpr(node.args[0], env, ksized)})"
        if meth == "add" and len(node.args) == 1:
            return f"({sexpr(recv, env, ksized)} + {sexpr(node.args[0], env, ksized)})"
        if meth == "sub" and len(node.args) == 1:
            return f"({sexpr(recv, env, ksized)} - {sexpr(node.args[0], env, ksized)})"
    bad(node, "scalar expression")


def texpr(node, tenv, senv):
    """Tensor expression (column vectors / square matrices as DMat) -> (lean text, kind) with kind in
    {'vec','mat'}.  tenv: python source text of a tensor atom -> (lean text, kind)."""
    key = U(node)
    if key in tenv:
        return tenv[key]
    if isinstance(node, ast.BinOp) and isinstance(node.op, (ast.Add, ast.Sub, ast.Mult)):
        lt = _try_t(node.left, tenv, senv)
        rt = _try_t(node.right, tenv, senv)
        if isinstance(node.op, ast.Mult):
            if lt and not rt:
                return f"({lt[0]}.smul {sexpr(node.right, senv)})", lt[1]
            if rt and not lt:
                return f"({rt[0]}.smul {sexpr(node.left, senv)})", rt[1]
            bad(node, "product of two tensors / two scalars")
        m = "add" if isinstance(node.op, ast.Add) else "sub"
        if lt and rt:
            if lt[1] != rt[1]:
                bad(node, "sum of a vector and a matrix")
            return f"({lt[0]}.{m} {rt[0]})", lt[1]
        if lt and not rt and lt[1] == "vec":
            return f"({lt[0]}.{m} (colVec fun _ => {sexpr(node.right, senv)}))", "vec"
        if rt and not lt and rt[1] == "vec" and m == "add":
            return f"((colVec fun _ => {sexpr(node.left, senv)}).add {rt[0]})", "vec"
        bad(node, "tensor sum")
    if isinstance(node, ast.Call) and isinstance(node.func, ast.Attribute) and node.func.attr == "matmul" \
            and len(node.args) == 1 and not node.keywords:
        a = texpr(node.func.value, tenv, senv)
        b = texpr(node.args[0], tenv, senv)
        return f"({a[0]}.mul {b[0]})", "vec"
    if isinstance(node, ast.Call) and isinstance(node.func, ast.Attribute) and node.func.attr == "unsqueeze" \
            and U(node).endswith(".unsqueeze(-1)"):
        return texpr(node.func.value, tenv, senv)
    bad(node, "tensor expression")


def _try_t(node, tenv, senv):
    try:
        return texpr(node, tenv, senv)
    except TranslateError:
        return None


CMP = {ast.Lt: "<", ast.LtE: "≤", ast.Gt: ">", ast.GtE: "≥", ast.Eq: "=", ast.NotEq: "≠"}


def iexpr(node, atoms):
    """Integer expression -> Lean text.  atoms: python source text -> lean text."""
    key = U(node)
    if key in atoms:
        return atoms[key]
    if isinstance(node, ast.Constant) and isinstance(node.value, int) and not isinstance(node.value, bool):
        return str(node.value) if node.value >= 0 else f"({node.value})"
    if isinstance(node, ast.UnaryOp) and isinstance(node.op, ast.USub):
        return f"(-{iexpr(node.operand, atoms)})"
    if isinstance(node, ast.BinOp) and type(node.op) in (ast.Add, ast.Sub, ast.Mult, ast.FloorDiv):
        op = {ast.Add: "+", ast.Sub: "-", ast.Mult: "*", ast.FloorDiv: "/"}[type(node.op)]
        return f"({iexpr(node.left, atoms)} {op} {iexpr(node.right, atoms)})"
    bad(node, "integer expression")


def bexpr(node, atoms, batoms):
    """Condition -> Lean Prop text.  batoms: python source text -> lean Prop text."""
    key = U(node)
    if key in batoms:
        return batoms[key]
    if isinstance(node, ast.BoolOp):
        op = " ∧ " if isinstance(node.op, ast.And) else " ∨ "
        return "(" + op.join(bexpr(v, atoms, batoms) for v in node.values) + ")"
    if isinstance(node, ast.UnaryOp) and isinstance(node.op, ast.Not):
        return f"(¬ {bexpr(node.operand, atoms, batoms)})"
    if isinstance(node, ast.Compare) and len(node.ops) == 1 and type(node.ops[0]) in CMP:
        return f"({iexpr(node.left, atoms)} {CMP[type(node.ops[0])]} {iexpr(node.comparators[0], atoms)})"
    bad(node, "condition")


def shape_expr(node, satoms, iatoms):
    """Shape (tuple of ints) expression -> Lean `List Nat` text.  satoms: python source text of a shape -> lean list."""
    key = U(node)
    if key in satoms:
        return satoms[key]
    if isinstance(node, ast.BinOp) and isinstance(node.op, ast.Add):
        return f"({shape_expr(node.left, satoms, iatoms)} ++ {shape_expr(node.right, satoms, iatoms)})"
    if isinstance(node, ast.Subscript) and isinstance(node.slice, ast.Slice) and node.slice.step is None:
        base = shape_expr(node.value, satoms, iatoms)
        lo, hi = node.slice.lower, node.slice.upper
        if lo is None and hi is not None:
            if isinstance(hi, ast.UnaryOp) and isinstance(hi.op, ast.USub) and isinstance(hi.operand, ast.Constant):
                return f"({base}.take ({base}.length - {hi.operand.value}))"
            return f"({base}.take {iexpr(hi, iatoms)})"
        if hi is None and lo is not None and isinstance(lo, ast.UnaryOp) and isinstance(lo.op, ast.USub) \
                and isinstance(lo.operand, ast.Constant):
            return f"({base}.drop ({base}.length - {lo.operand.value}))"
        bad(node, "shape slice")
    bad(node, "shape expression")


def perm_args(call, locdim, rank):
    """Arguments of `.permute(...)` -> Lean `List Nat` text.  `rank`: lean text of the tensor's rank (for negative ints)."""
    parts = []
    for a in call.args:
        if isinstance(a, ast.Starred) and is_call(a.value, "range") and 1 <= len(a.value.args) <= 2 and not a.value.keywords:
            rargs = [iexpr(x, {"self.loc.dim()": locdim}) for x in a.value.args]
            lo, hi = ("0", rargs[0]) if len(rargs) == 1 else rargs
            parts.append(f"(List.range' {lo} ({hi} - {lo}))")
        elif isinstance(a, ast.Constant) and isinstance(a.value, int):
            parts.append(f"[{a.value}]")
        elif isinstance(a, ast.UnaryOp) and isinstance(a.op, ast.USub) and isinstance(a.operand, ast.Constant):
            parts.append(f"[{rank} - {a.operand.value}]")
        else:
            bad(a, "permute argument")
    return "(" + " ++ ".join(parts) + ")"


def perm_chain(node, recv, locdim, rank):
    """`<recv>.permute(...)` / `<recv>.transpose(a, b)`, possibly chained -> Lean `List Nat` text of the ONE permutation `p`
    with `result = <recv>.permute(p)`.  `t.permute(p).permute(q) = t.permute(q.map (p[·]))`, `t.permute(p).transpose(a, b) =
    t.permute(swapAt p a b)`.  A single `permute` keeps its argument list verbatim."""
    chain = []
    cur = node
    while isinstance(cur, ast.Call) and isinstance(cur.func, ast.Attribute) and cur.func.attr in ("permute", "transpose"):
        chain.append(cur)
        cur = cur.func.value
    if not (isinstance(cur, ast.Name) and cur.id == recv) or not chain:
        bad(node, f"expected a permute / transpose chain on `{recv}`")
    chain.reverse()

    def dim(a):
        if isinstance(a, ast.Constant) and isinstance(a.value, int) and not isinstance(a.value, bool):
            return str(a.value)
        if isinstance(a, ast.UnaryOp) and isinstance(a.op, ast.USub) and isinstance(a.operand, ast.Constant) \
                and isinstance(a.operand.value, int):
            return f"({rank} - {a.operand.value})"
        bad(a, "transpose dimension")
    text = None
    for c in chain:
        if c.keywords:
            bad(c, "keyword arguments of permute / transpose")
        if c.func.attr == "permute":
            p_ = perm_args(c, locdim, rank)
            text = p_ if text is None else f"({p_}.map fun j => {text}.getD j 0)"
        else:
            if len(c.args) != 2:
                bad(c, "transpose takes two dimensions")
            base = f"(List.range {rank})" if text is None else text
            text = f"(swapAt {base} {dim(c.args[0])} {dim(c.args[1])})"
    return text


# ----------------------------------------------------------------------------------------------- the translator

class Translator:
    def __init__(self, repo):
        self.path = os.path.join(repo, REL)
        self.tree = ast.parse(open(self.path).read())
        cls = [n for n in self.tree.body if isinstance(n, ast.ClassDef) and n.name == "MultivariateNormal"]
        if len(cls) != 1:
            raise TranslateError("class MultivariateNormal not found")
        self.methods = {}
        for n in cls[0].body:
            if isinstance(n, ast.FunctionDef):
                decos = [U(d) for d in n.decorator_list]
                if any(d.endswith(".setter") for d in decos):
                    continue
                self.methods[n.name] = n
        kls = [n for n in self.tree.body if isinstance(n, ast.FunctionDef) and n.name == "kl_mvn_mvn"]
        if len(kls) != 1:
            raise TranslateError("kl_mvn_mvn not found")
        self.kl = kls[0]
        self.out = []
        self.notes = {}

    def m(self, name):
        if name not in self.methods:
            raise TranslateError(f"method {name} not found")
        return self.methods[name]

    def emit(self, text):
        self.out.append(text)

    # ---------------------------------------------------------------- (a) kl_mvn_mvn
    def gen_kl(self):
        fn = self.kl
        if [a.arg for a in fn.args.args] != ["p_dist", "q_dist"]:
            bad(fn, "kl_mvn_mvn signature")
        side = {"p_dist": "p", "q_dist": "q"}
        means, covars, roots, logdets = {}, {}, {}, {}
        diffs, rhs, tpq, res = None, None, None, None
        body = strip_doc(fn.body)
        for s in body:
            src = U(s)
            if src == "output_shape = torch.broadcast_shapes(p_dist.batch_shape, q_dist.batch_shape)":
                continue
            if isinstance(s, ast.If) and src in (
                    "if output_shape != p_dist.batch_shape:\n    p_dist = p_dist.expand(output_shape)",
                    "if output_shape != q_dist.batch_shape:\n    q_dist = q_dist.expand(output_shape)"):
                continue
            if src == "if isinstance(root_p_covar, LinearOperator):\n    root_p_covar = root_p_covar.to_dense()":
                continue
            if isinstance(s, ast.Return):
                if res is None or U(s.value) != res[0]:
                    bad(s, "return of something that is not the assembled value")
                continue
            if not isinstance(s, ast.Assign) or len(s.targets) != 1:
                bad(s, "statement in kl_mvn_mvn")
            tgt, v = s.targets[0], s.value
            if isinstance(tgt, ast.Name):
                if isinstance(v, ast.Attribute) and isinstance(v.value, ast.Name) and v.value.id in side:
                    if v.attr == "loc":
                        means[tgt.id] = side[v.value.id]
                        continue
                    if v.attr == "lazy_covariance_matrix":
                        covars[tgt.id] = side[v.value.id]
                        continue
                if isinstance(v, ast.Call) and U(v).endswith(".root_decomposition().root.to_dense()"):
                    c = U(v)[: -len(".root_decomposition().root.to_dense()")]
                    if c not in covars:
                        bad(s, "root of something that is not a covariance")
                    roots[tgt.id] = covars[c]
                    continue
                if isinstance(v, ast.Call) and U(v).endswith(".logdet()") and U(v)[:-9] in covars:
                    logdets[tgt.id] = covars[U(v)[:-9]]
                    continue
                if isinstance(v, ast.BinOp) and isinstance(v.op, (ast.Sub, ast.Add)) and isinstance(v.left, ast.Name) \
                        and isinstance(v.right, ast.Name) and v.left.id in means and v.right.id in means:
                    if diffs is not None:
                        bad(s, "second mean difference")
                    op = "sub" if isinstance(v.op, ast.Sub) else "add"
                    diffs = (tgt.id, f"{v.left.id}.{op} {v.right.id}", means[v.left.id], means[v.right.id])
                    continue
                if is_call(v, "torch.cat") and len(v.args) == 2 and isinstance(v.args[0], ast.List) and U(v.args[1]) == "-1":
                    blocks = []
                    for e in v.args[0].elts:
                        if diffs and U(e) == f"{diffs[0]}.unsqueeze(-1)":
                            blocks.append(("diff", None))
                        elif isinstance(e, ast.Name) and e.id in roots:
                            blocks.append(("root", roots[e.id]))
                        else:
                            bad(e, "block of the stacked right-hand side")
                    rhs = (tgt.id, blocks)
                    continue
                if res is None and tpq is not None:
                    env = {n_: f"(ld Side.{sd})" for n_, sd in logdets.items()}
                    env[tpq[0]] = "trace_plus_inv_quad_form"
                    res = (tgt.id, sexpr(v, env, ksized=(diffs[0],) if diffs else ()))
                    continue
                bad(s, "assignment in kl_mvn_mvn")
            if isinstance(tgt, ast.Tuple) and len(tgt.elts) == 2 and all(isinstance(e, ast.Name) for e in tgt.elts) \
                    and isinstance(v, ast.Call) and isinstance(v.func, ast.Attribute) and v.func.attr == "inv_quad_logdet":
                c = U(v.func.value)
                kws = {k.arg: U(k.value) for k in v.keywords}
                if c not in covars or v.args or rhs is None or kws != {"inv_quad_rhs": rhs[0], "logdet": "True"}:
                    bad(s, "inv_quad_logdet call")
                tpq = (tgt.elts[0].id, covars[c])
                logdets[tgt.elts[1].id] = covars[c]
                continue
            bad(s, "statement in kl_mvn_mvn")
        if not (diffs and rhs and tpq and res):
            bad(fn, "kl_mvn_mvn: missing mean difference / stacked rhs / inv_quad_logdet / assembly")
        if [b[0] for b in rhs[1]] not in (["diff", "root"], ["root", "diff"]) or len({b[1] for b in rhs[1] if b[0] == "root"}) != 1:
            bad(fn, "stacked right-hand side must be one mean-difference column and one root")
        root_side = [b[1] for b in rhs[1] if b[0] == "root"][0]
        pm = [n_ for n_, sd in means.items() if sd == "p"][0]
        qm = [n_ for n_, sd in means.items() if sd == "q"][0]
        diff_first = rhs[1][0][0] == "diff"
        cols = "1 + m" if diff_first else "m + 1"
        cat = f"hcat (klMeanDiffs {pm} {qm}) root" if diff_first else f"hcat root (klMeanDiffs {pm} {qm})"
        self.emit(f"""/-! ### (a) `kl_mvn_mvn` -/

section kl
variable [Field α] [DecidableEq α]

/-- `{diffs[0]} = {U(ast.parse(diffs[1].replace('.sub ', ' - ').replace('.add ', ' + ')).body[0].value)}` -/
def klMeanDiffs ({pm} {qm} : DMat n 1 α) : DMat n 1 α := {diffs[1]}

/-- operand whose covariance is solved against (`inv_quad_logdet` receiver) -/
def klSolveSide : Side := Side.{tpq[1]}
/-- operand whose `root_decomposition().root` is stacked -/
def klRootSide : Side := Side.{root_side}

/-- `{rhs[0]} = torch.cat([...], -1)` -/
def klInvQuadRhs ({pm} {qm} : DMat n 1 α) (root : DMat n m α) : DMat n ({cols}) α :=
  {cat}

/-- `inv_quad` part of `<solve side>.inv_quad_logdet(inv_quad_rhs={rhs[0]}, logdet=True)` -/
def klTracePlusInvQuadForm? (covar : Side → DMat n n α) ({pm} {qm} : DMat n 1 α) (root : DMat n m α) : Option α :=
  invQuadCols? (covar klSolveSide) (klInvQuadRhs {pm} {qm} root)

/-- `{res[0]} = ...` with `ld s` the log-determinant of operand `s`, `k = {diffs[0]}.size(-1)` -/
def klRes (ld : Side → α) (trace_plus_inv_quad_form k : α) : α :=
  {res[1]}

end kl
""")
        self.notes["kl_solve_side"], self.notes["kl_root_side"] = tpq[1], root_side

    # ---------------------------------------------------------------- (b) log_prob
    def gen_logprob(self):
        fn = self.m("log_prob")
        body = strip_doc(fn.body)
        it = iter(body)
        s = next(it)
        expect(s, "if settings.fast_computations.log_prob.off():\n    return super().log_prob(value)", "Cholesky-path delegation")
        s = next(it)
        expect(s, "if self._validate_args:\n    self._validate_sample(value)", "validation")
        s = next(it)
        expect(s, "mean, covar = (self.loc, self.lazy_covariance_matrix)", "mean/covar binding")
        s = next(it)
        if not (isinstance(s, ast.Assign) and U(s.targets[0]) == "diff"):
            bad(s, "diff assignment")
        diff_t, _ = texpr(s.value, {"value": ("value", "vec"), "mean": ("mean", "vec")}, {})
        s = next(it)
        if not (isinstance(s, ast.If) and not s.orelse and len(s.body) == 1 and isinstance(s.body[0], ast.If)):
            bad(s, "batch reconciliation block")
        iat = {"len(diff.shape[:-1])": "ds.length", "len(covar.batch_shape)": "cs.length",
               "diff.dim()": "(ds.length + 1)", "covar.dim()": "(cs.length + 2)"}
        outer = s.test
        if not (isinstance(outer, ast.Compare) and len(outer.ops) == 1 and isinstance(outer.ops[0], (ast.NotEq, ast.Eq))
                and {U(outer.left), U(outer.comparators[0])} == {"diff.shape[:-1]", "covar.batch_shape"}):
            bad(outer, "outer reconciliation test")
        outer_t = "ds ≠ cs" if isinstance(outer.ops[0], ast.NotEq) else "ds = cs"
        inner = s.body[0]
        inner_t = bexpr(inner.test, iat, {})
        # which inner branch expands diff / repeats covar
        def classify(stmts):
            if len(stmts) == 1 and U(stmts[0]) == "diff = diff.expand(covar.shape[:-1])":
                return "expand", None
            if len(stmts) == 2 and isinstance(stmts[0], ast.Assign) and U(stmts[0].targets[0]) == "padded_batch_shape" \
                    and isinstance(stmts[1], ast.Assign) and U(stmts[1].targets[0]) == "covar":
                return "repeat", stmts
            bad(stmts[0], "reconciliation branch")
        kb, sb = classify(inner.body)
        ko, so = classify(inner.orelse)
        if {kb, ko} != {"expand", "repeat"}:
            bad(inner, "reconciliation must have one expand and one repeat branch")
        rs = sb if kb == "repeat" else so
        # padded_batch_shape = (*(1 for _ in range(E)), *covar.batch_shape)
        tup = rs[0].value
        parts = []
        if not isinstance(tup, ast.Tuple):
            bad(tup, "padded_batch_shape")
        for e in tup.elts:
            if isinstance(e, ast.Starred) and isinstance(e.value, ast.GeneratorExp) and len(e.value.generators) == 1 \
                    and isinstance(e.value.elt, ast.Constant) and isinstance(e.value.elt.value, int) \
                    and is_call(e.value.generators[0].iter, "range") and len(e.value.generators[0].iter.args) == 1:
                parts.append(f"List.replicate {iexpr(e.value.generators[0].iter.args[0], iat)} {e.value.elt.value}")
            elif isinstance(e, ast.Starred) and U(e.value) == "covar.batch_shape":
                parts.append("cs")
            elif isinstance(e, ast.Starred) and U(e.value) == "diff.shape[:-1]":
                parts.append("ds")
            else:
                bad(e, "element of padded_batch_shape")
        padded = " ++ ".join(parts)
        # covar = covar.repeat(*(elt for a, b in zip(X, Y)), 1, 1)
        rep = rs[1].value
        if not (isinstance(rep, ast.Call) and U(rep.func) == "covar.repeat" and not rep.keywords and len(rep.args) >= 1
                and isinstance(rep.args[0], ast.Starred) and isinstance(rep.args[0].value, ast.GeneratorExp)):
            bad(rep, "covar.repeat call")
        ge = rep.args[0].value
        g = ge.generators[0]
        if not (len(ge.generators) == 1 and not g.ifs and is_call(g.iter, "zip") and len(g.iter.args) == 2
                and isinstance(g.target, ast.Tuple) and len(g.target.elts) == 2):
            bad(ge, "repeat-factor generator")
        zsrc = {"diff.shape[:-1]": "ds", "padded_batch_shape": "(logProbPadded ds cs)", "covar.batch_shape": "cs"}
        za, zb = (zsrc.get(U(x)) for x in g.iter.args)
        if za is None or zb is None:
            bad(g.iter, "zip operands")
        a, b = (e.id for e in g.target.elts)
        elt = iexpr(ge.elt, {a: a, b: b})
        tail = []
        for x in rep.args[1:]:
            if not (isinstance(x, ast.Constant) and isinstance(x.value, int)):
                bad(x, "trailing repeat factor")
            tail.append(str(x.value))
        s = next(it)
        expect(s, "covar = covar.evaluate_kernel()", "evaluate_kernel")
        s = next(it)
        if not (isinstance(s, ast.Assign) and U(s.targets[0]) == "(inv_quad, logdet)" and isinstance(s.value, ast.Call)
                and U(s.value.func) == "covar.inv_quad_logdet"
                and {k.arg: U(k.value) for k in s.value.keywords} == {"inv_quad_rhs": "diff.unsqueeze(-1)", "logdet": "True"}):
            bad(s, "inv_quad_logdet call of log_prob")
        s = next(it)
        if not (isinstance(s, ast.Assign) and U(s.targets[0]) == "res"):
            bad(s, "assembly")
        res = sexpr(s.value, {"inv_quad": "inv_quad", "logdet": "logdet"}, ksized=("diff",))
        s = next(it)
        expect(s, "return res", "return")
        if list(it):
            bad(fn, "trailing statements in log_prob")
        b1, b2 = ("1", "2") if kb == "expand" else ("2", "1")
        self.emit(f"""/-! ### (b) `log_prob` -/

/-- `padded_batch_shape`; `ds = diff.shape[:-1]`, `cs = covar.batch_shape` -/
def logProbPadded (ds cs : List Nat) : List Nat := {padded}

/-- arguments of `covar.repeat(...)` -/
def logProbRepeat (ds cs : List Nat) : List Nat :=
  List.zipWith (fun {a} {b} => {elt}) {za} {zb} ++ [{", ".join(tail)}]

/-- reconciliation branch: 0 = none, 1 = `diff.expand(covar.shape[:-1])`, 2 = `covar.repeat(...)` -/
def logProbBranch (ds cs : List Nat) : Nat := if {outer_t} then (if {inner_t} then {b1} else {b2}) else 0

section logprob
variable [Field α] [DecidableEq α]

/-- `diff = {U(body[3].value)}` -/
def logProbDiff (value mean : DMat n 1 α) : DMat n 1 α := {diff_t}

/-- `inv_quad` of `covar.inv_quad_logdet(inv_quad_rhs=diff.unsqueeze(-1), logdet=True)` -/
def logProbInvQuad? (covar : DMat n n α) (value mean : DMat n 1 α) : Option α := quadForm? covar (logProbDiff value mean)

/-- `res = {U(body[-2].value)}`; `k = diff.size(-1)`, `log2pi = math.log(2 * math.pi)` -/
def logProbRes (inv_quad logdet k log2pi : α) : α := {res}

end logprob
""")

    # ---------------------------------------------------------------- (c) __getitem__
    def cov_sel(self, node):
        """RHS of `new_cov = ...` -> CovSel text."""
        def toks(t):
            if isinstance(t, ast.Name) and t.id == "idx":
                return ["Tok.whole"]
            if isinstance(t, ast.Name) and t.id == "rest_idx":
                return ["Tok.rest"]
            if not isinstance(t, ast.Tuple):
                bad(t, "index tuple of the covariance")
            out = []
            for e in t.elts:
                if isinstance(e, ast.Starred) and U(e.value) == "rest_idx":
                    out.append("Tok.rest")
                elif isinstance(e, ast.Name) and e.id == "last_idx":
                    out.append("Tok.last")
                elif isinstance(e, ast.BinOp) and isinstance(e.op, (ast.Add, ast.Sub)) and U(e.left) == "last_idx" \
                        and isinstance(e.right, ast.Constant) and isinstance(e.right.value, int):
                    k = e.right.value if isinstance(e.op, ast.Add) else -e.right.value
                    out.append(f"Tok.lastPlus ({k})")
                elif U(e) == "slice(None, None, None)":
                    out.append("Tok.full")
                elif isinstance(e, ast.Constant) and e.value is Ellipsis:
                    out.append("Tok.ell")
                else:
                    bad(e, "entry of the covariance index tuple")
            return out
        L = "self.lazy_covariance_matrix"
        if isinstance(node, ast.Subscript) and U(node.value) == L:
            return f"CovSel.index [{', '.join(toks(node.slice))}]"
        if isinstance(node, ast.Subscript) and isinstance(node.value, ast.Subscript) and U(node.value.value) == L:
            return f"CovSel.indexThen [{', '.join(toks(node.value.slice))}] [{', '.join(toks(node.slice))}]"
        if is_call(node, "DiagLinearOperator") and len(node.args) == 1 and not node.keywords \
                and isinstance(node.args[0], ast.Subscript) \
                and U(node.args[0].value) in (L + ".diagonal(dim1=-1, dim2=-2)", L + ".diagonal(dim1=-2, dim2=-1)"):
            return f"CovSel.diagOf [{', '.join(toks(node.args[0].slice))}]"
        bad(node, "covariance of the indexed distribution")

    def gen_getitem(self):
        fn = self.m("__getitem__")
        body = strip_doc(fn.body)
        it = iter(body)
        expect(next(it), "if not isinstance(idx, tuple):\n    idx = (idx,)", "tuple wrap")
        s = next(it)
        iat = {"len(idx)": "(lenIdx : Int)", "self.mean.dim()": "(meanDim : Int)"}
        if not (isinstance(s, ast.If) and not s.orelse and len(s.body) == 2
                and U(s.body[0]) == "idx = tuple((i for i in idx if i != Ellipsis))"
                and isinstance(s.body[1], ast.If) and len(s.body[1].body) == 1 and isinstance(s.body[1].body[0], ast.Raise)
                and not s.body[1].orelse):
            bad(s, "ellipsis pre-pass")
        pre_c = bexpr(s.test, iat, {"Ellipsis in idx": "(numEll > 0)"})
        iat2 = {"len(idx)": "((lenIdx : Int) - (numEll : Int))", "self.mean.dim()": "(meanDim : Int)"}
        pre_r = bexpr(s.body[1].test, iat2, {})
        expect(next(it), "rest_idx = idx[:-1]", "rest_idx")
        expect(next(it), "last_idx = idx[-1]", "last_idx")
        expect(next(it), "new_mean = self.mean[idx]", "new_mean")
        s = next(it)
        batoms = {"Ellipsis not in rest_idx": "(ellInRest = false)", "Ellipsis in rest_idx": "(ellInRest = true)",
                  "isinstance(last_idx, int)": "(last.isInt = true)", "isinstance(last_idx, slice)": "(last.isSlice = true)",
                  "last_idx is ...": "(last.isEllipsis = true)", "last_idx is Ellipsis": "(last.isEllipsis = true)"}
        kind_of = {"isinstance(last_idx, int)": "int", "isinstance(last_idx, slice)": "slice", "last_idx is ...": "ellipsis",
                   "last_idx is Ellipsis": "ellipsis"}
        branches = []    # (cond text or None, Br, CovSel)

        def body_sel(stmts):
            if len(stmts) == 1 and isinstance(stmts[0], ast.Raise):
                return "CovSel.raise"
            if len(stmts) == 1 and isinstance(stmts[0], ast.Assign) and U(stmts[0].targets[0]) == "new_cov":
                return self.cov_sel(stmts[0].value)
            bad(stmts[0], "branch body of __getitem__")

        def walk(node, top):
            # node: ast.If ; returns nothing, fills `branches`
            cond = bexpr(node.test, iat, batoms)
            if top == 0:
                br = "batchOnly"
            elif top == 1:
                br = "tooMany"
            else:
                if U(node.test) not in kind_of:
                    bad(node.test, "test on the kind of last_idx")
                br = kind_of[U(node.test)]
            branches.append((cond, br, body_sel(node.body)))
            if len(node.orelse) == 1 and isinstance(node.orelse[0], ast.If):
                walk(node.orelse[0], top + 1 if top < 2 else 2)
            elif top == 1:
                # else: nested chain on last_idx
                if len(node.orelse) == 1 and isinstance(node.orelse[0], ast.If):
                    walk(node.orelse[0], 2)
                else:
                    bad(node, "else branch of the dispatch")
            elif top >= 2:
                branches.append((None, "advanced", body_sel(node.orelse)))
            else:
                bad(node, "dispatch shape")
        if not isinstance(s, ast.If):
            bad(s, "dispatch")
        walk(s, 0)
        expect(next(it), "return self.__class__(mean=new_mean, covariance_matrix=new_cov)", "result")
        if list(it):
            bad(fn, "trailing statements in __getitem__")
        names = [b[1] for b in branches]
        if sorted(names) != sorted(["batchOnly", "tooMany", "int", "slice", "ellipsis", "advanced"]):
            bad(fn, f"dispatch branches {names}")
        disp = ""
        for cond, br, _ in branches:
            disp += (f"  if {cond} then Br.{br}\n  else" if cond is not None else f" Br.{br}\n")
        disp = disp.replace("else  if", "else if")
        cov = "\n".join(f"  | Br.{br} => {sel}" for _, br, sel in branches)
        self.emit(f"""/-! ### (c) `__getitem__` -/

/-- ellipsis pre-pass: new `len(idx)` (`none` = IndexError); `numEll` = number of `Ellipsis` entries of `idx` -/
def getitemPre (lenIdx meanDim numEll : Nat) : Option Nat :=
  if {pre_c} then (if {pre_r} then none else some (lenIdx - numEll)) else some lenIdx

/-- the if / elif chain -/
def getitemDispatch (lenIdx meanDim : Nat) (ellInRest : Bool) (last : Idx) : Br :=
{disp}
/-- what each branch indexes the covariance operator with -/
def getitemCov : Br → CovSel
{cov}
""")

    # ---------------------------------------------------------------- (d) affine ops, variance, confidence region, shapes
    def class_call(self, node):
        """`self.__class__(mean=…, covariance_matrix=…)` or positional -> (mean node, cov node)."""
        if not (isinstance(node, ast.Call) and U(node.func) == "self.__class__"):
            bad(node, "result must be built with self.__class__(mean, covariance)")
        if node.args and not node.keywords and len(node.args) == 2:
            return node.args[0], node.args[1]
        kws = {k.arg: k.value for k in node.keywords}
        if not node.args and set(kws) == {"mean", "covariance_matrix"}:
            return kws["mean"], kws["covariance_matrix"]
        bad(node, "arguments of self.__class__")

    def gen_affine(self):
        tenv = {"self.mean": ("mean", "vec"), "self.lazy_covariance_matrix": ("cov", "mat"),
                "other.mean": ("mean2", "vec"), "other.lazy_covariance_matrix": ("cov2", "mat")}
        senv = {"other": "other"}
        # __mul__
        body = strip_doc(self.m("__mul__").body)
        if len(body) != 3:
            bad(self.m("__mul__"), "__mul__ must be: type guard, `if other == 1: return self`, return self.__class__(...)")
        expect(body[0], "if not (isinstance(other, int) or isinstance(other, float)):\n    raise RuntimeError('Can only multiply by scalars')",
               "scalar guard")
        if not (isinstance(body[1], ast.If) and not body[1].orelse and U(body[1].body[0]) == "return self"
                and isinstance(body[1].test, ast.Compare) and U(body[1].test.left) == "other"
                and isinstance(body[1].test.ops[0], ast.Eq)):
            bad(body[1], "identity shortcut")
        ident = sexpr(body[1].test.comparators[0], {})
        if not isinstance(body[2], ast.Return):
            bad(body[2], "__mul__ return")
        mn, cv = self.class_call(body[2].value)
        mul_mean, k1 = texpr(mn, tenv, senv)
        mul_cov, k2 = texpr(cv, tenv, senv)
        if (k1, k2) != ("vec", "mat"):
            bad(body[2], "mean must be a vector expression, covariance a matrix expression")
        # __truediv__
        body = strip_doc(self.m("__truediv__").body)
        if not (len(body) == 1 and isinstance(body[0], ast.Return) and isinstance(body[0].value, ast.Call)
                and U(body[0].value.func) == "self.__mul__" and len(body[0].value.args) == 1 and not body[0].value.keywords):
            bad(self.m("__truediv__"), "__truediv__ must return self.__mul__(<scalar>)")
        div = sexpr(body[0].value.args[0], senv)
        # __add__
        body = strip_doc(self.m("__add__").body)
        if not (len(body) == 1 and isinstance(body[0], ast.If)):
            bad(self.m("__add__"), "__add__ shape")
        a = body[0]
        expect(a.test, "isinstance(other, MultivariateNormal)", "first branch of __add__")
        if not (len(a.body) == 1 and isinstance(a.body[0], ast.Return)):
            bad(a, "MVN branch")
        mn, cv = self.class_call(a.body[0].value)
        add_mean, _ = texpr(mn, tenv, senv)
        add_cov, _ = texpr(cv, tenv, senv)
        b = a.orelse[0] if len(a.orelse) == 1 and isinstance(a.orelse[0], ast.If) else bad(a, "scalar branch")
        expect(b.test, "isinstance(other, int) or isinstance(other, float)", "scalar branch of __add__")
        if not (len(b.body) == 1 and isinstance(b.body[0], ast.Return) and len(b.orelse) == 1 and isinstance(b.orelse[0], ast.Raise)):
            bad(b, "scalar branch")
        mn, cv = self.class_call(b.body[0].value)
        adds_mean, _ = texpr(mn, tenv, senv)
        adds_cov, _ = texpr(cv, tenv, senv)
        body = strip_doc(self.m("__radd__").body)
        if not (len(body) == 2 and U(body[1]) == "return self.__add__(other)" and isinstance(body[0], ast.If)
                and U(body[0].body[0]) == "return self" and U(body[0].test.left) == "other"
                and isinstance(body[0].test.ops[0], ast.Eq)):
            bad(self.m("__radd__"), "__radd__ shape")
        rid = sexpr(body[0].test.comparators[0], {})
        # add_jitter
        fn = self.m("add_jitter")
        body = strip_doc(fn.body)
        if not (len(body) == 1 and isinstance(body[0], ast.Return) and len(fn.args.defaults) == 1):
            bad(fn, "add_jitter shape")
        mn, cv = self.class_call(body[0].value)
        expect(mn, "self.mean", "add_jitter keeps the mean")
        expect(cv, "self.lazy_covariance_matrix.add_jitter(noise)", "add_jitter covariance")
        jit = sexpr(fn.args.defaults[0], {})
        self.emit(f"""/-! ### (d) `__mul__`, `__truediv__`, `__add__`, `__radd__`, `add_jitter` -/

section affine
variable [Field α] [DecidableEq α]

/-- `__mul__`: returns `self` unchanged when `other ==` this value -/
def mulIdentity : α := {ident}
/-- `__mul__`: mean of the result -/
def mulMean (other : α) (mean : DMat n 1 α) : DMat n 1 α := {mul_mean}
/-- `__mul__`: covariance of the result -/
def mulCov (other : α) (cov : DMat n n α) : DMat n n α := {mul_cov}
/-- `__truediv__`: the scalar handed to `__mul__` -/
def divFactor (other : α) : α := {div}
/-- `__add__` (MultivariateNormal): mean / covariance -/
def addMean (mean mean2 : DMat n 1 α) : DMat n 1 α := {add_mean}
def addCov (cov cov2 : DMat n n α) : DMat n n α := {add_cov}
/-- `__add__` (scalar): mean / covariance -/
def addScalarMean (other : α) (mean : DMat n 1 α) : DMat n 1 α := {adds_mean}
def addScalarCov (cov : DMat n n α) : DMat n n α := {adds_cov}
/-- `__radd__`: returns `self` when `other ==` this value (so that `sum([...])` works) -/
def raddIdentity : α := {rid}
/-- `add_jitter`: default noise; covariance `lazy_covariance_matrix.add_jitter(noise)`, mean unchanged -/
def addJitterDefault : α := {jit}
def addJitterCov (noise : α) (cov : DMat n n α) : DMat n n α := jitterCov noise cov

end affine
""")

    def gen_variance(self):
        fn = self.m("variance")
        body = strip_doc(fn.body)
        if len(body) != 4:
            bad(fn, "variance must be: lazy/dense diagonal, min_variance lookup, clamp, return")
        lz = body[0]
        if not (isinstance(lz, ast.If) and U(lz.test) == "self.islazy" and len(lz.body) == 3 and len(lz.orelse) == 1):
            bad(lz, "lazy / dense split of variance")
        expect(lz.body[0], "diag = self.lazy_covariance_matrix.diagonal(dim1=-1, dim2=-2)", "diagonal of the lazy covariance")
        expect(lz.body[1], "diag = diag.view(diag.shape[:-1] + self._event_shape)", "view")
        expect(lz.body[2], "variance = diag.expand(self._batch_shape + self._event_shape)", "expand")
        expect(lz.orelse[0], "variance = super().variance", "dense variance")
        expect(body[1], "min_variance = settings.min_variance.value(variance.dtype)", "floor lookup")
        c = body[2]
        if not (isinstance(c, ast.If) and not c.orelse and len(c.body) == 2 and is_call(c.body[0].value, "warnings.warn")
                and isinstance(c.body[1], ast.Assign) and U(c.body[1].targets[0]) == "variance"):
            bad(c, "clamp block")
        t = c.test
        if not (isinstance(t, ast.Call) and U(t.func).endswith(".any") and isinstance(t.func.value, ast.Call)
                and U(t.func.value.func) in ("variance.lt", "variance.le") and U(t.func.value.args[0]) == "min_variance"):
            bad(t, "clamp test")
        rel = "<" if U(t.func.value.func).endswith(".lt") else "≤"
        v = c.body[1].value
        if not (isinstance(v, ast.Call) and U(v.func) in ("variance.clamp_min", "variance.clamp_max") and len(v.args) == 1
                and not v.keywords):
            bad(v, "clamp expression")
        mm = "max" if U(v.func).endswith("clamp_min") else "min"
        arg = sexpr(v.args[0], {"min_variance": "min_variance"})
        expect(body[3], "return variance", "return")
        # confidence_region
        fn = self.m("confidence_region")
        body = strip_doc(fn.body)
        if not (len(body) == 3 and isinstance(body[0], ast.Assign) and U(body[0].targets[0]) == "std2"
                and U(body[1]) == "mean = self.mean" and isinstance(body[2], ast.Return)
                and isinstance(body[2].value, ast.Tuple) and len(body[2].value.elts) == 2):
            bad(fn, "confidence_region shape")
        env = {"mean": "(mean i)"}
        env["std2"] = sexpr(body[0].value, {}, ()) if False else None
        std2 = _sexpr_attr(body[0].value, {"self.stddev": "(stddev i)"})
        env["std2"] = std2
        lo = sexpr(body[2].value.elts[0], env)
        hi = sexpr(body[2].value.elts[1], env)
        expect(self.m("stddev").body[-1], "return self.variance.sqrt()", "stddev = sqrt(variance)")
        self.emit(f"""/-! ### (d) `variance`, `confidence_region` -/

section order
variable [Field α] [LinearOrder α]

/-- lazy branch: `self.lazy_covariance_matrix.diagonal(dim1=-1, dim2=-2)` -/
def varianceLazy (cov : DMat n n α) : Fin n → α := cov.diag

/-- `if variance.lt(min_variance).any(): variance = variance.clamp_min(min_variance)` -/
def varianceClamp (min_variance : α) (variance : Fin n → α) : Fin n → α :=
  if (∃ i, variance i {rel} min_variance) then (fun i => {mm} (variance i) {arg}) else variance

end order

section conf
variable [Field α]

/-- `std2 = {U(body[0].value)}`; `return {U(body[2].value.elts[0])}, {U(body[2].value.elts[1])}` -/
def confidenceRegion (mean stddev : Fin n → α) : (Fin n → α) × (Fin n → α) :=
  (fun i => {lo}, fun i => {hi})

end conf
""")

    def gen_shapes(self):
        # expand
        fn = self.m("expand")
        exps = {}
        for node in ast.walk(fn):
            if isinstance(node, ast.Call) and isinstance(node.func, ast.Attribute) and node.func.attr == "expand" \
                    and len(node.args) == 1 and not node.keywords:
                exps[U(node.func.value)] = node.args[0]
        need = {"self.loc": "loc", "self._covar": "cov", "self.__unbroadcasted_scale_tril": "tril", "self.covariance_matrix": "dcov"}
        if set(exps) != set(need):
            bad(fn, f"expand sites {sorted(exps)}")
        sh = {}
        for src, nm in need.items():
            sat = {"batch_size": "bs", src + ".shape": "xs"}
            sh[nm] = shape_expr(exps[src], sat, {})
        if not (sh["cov"] == sh["tril"] == sh["dcov"]):
            bad(fn, "the three matrix-valued expand sites differ")
        # unsqueeze
        fn = self.m("unsqueeze")
        body = strip_doc(fn.body)
        iat = {"len(self.batch_shape)": "(nb : Int)", "dim": "dim"}
        g, r = body[0], body[1]
        if not (isinstance(g, ast.If) and len(g.body) == 1 and isinstance(g.body[0], ast.Raise) and not g.orelse):
            bad(g, "range guard of unsqueeze")
        guard = bexpr(g.test, iat, {})
        if not (isinstance(r, ast.If) and not r.orelse and len(r.body) == 1 and isinstance(r.body[0], ast.Assign)
                and U(r.body[0].targets[0]) == "dim"):
            bad(r, "negative-dim rewrite of unsqueeze")
        neg = bexpr(r.test, iat, {})
        newdim = iexpr(r.body[0].value, iat)
        sites = [U(n) for n in ast.walk(fn) if isinstance(n, ast.Call) and isinstance(n.func, ast.Attribute)
                 and n.func.attr == "unsqueeze"]
        want = {"self.loc.unsqueeze(dim)", "self._covar.unsqueeze(dim)", "self.__unbroadcasted_scale_tril.unsqueeze(dim)",
                "self.covariance_matrix.unsqueeze(dim)"}
        if set(sites) != want:
            bad(fn, f"unsqueeze sites {sorted(set(sites))}")
        # _extended_shape
        fn = self.m("_extended_shape")
        ret = strip_doc(fn.body)[-1]
        if not isinstance(ret, ast.Return):
            bad(fn, "_extended_shape")
        ext = shape_expr(ret.value, {"sample_shape": "ss", "self._batch_shape": "bs", "self.base_sample_shape": "ks"}, {})
        gb = self.m("get_base_samples")
        srcs = [U(s) for s in ast.walk(gb) if isinstance(s, ast.Assign)]
        if "shape = self._extended_shape(sample_shape)" not in srcs or \
                "base_samples = _standard_normal(shape, dtype=self.loc.dtype, device=self.loc.device)" not in srcs:
            bad(gb, "get_base_samples")
        self.emit(f"""/-! ### (d) `expand`, `unsqueeze`; (e) `get_base_samples` -/

/-- `self.loc.expand(...)`: target shape; `xs = self.loc.shape` -/
def expandLocShape (bs xs : List Nat) : List Nat := {sh['loc']}
/-- `self._covar.expand(...)` (also the cached factor and the dense covariance): `xs` = that operand's shape -/
def expandCovShape (bs xs : List Nat) : List Nat := {sh['cov']}

/-- `unsqueeze(dim)`: `none` = IndexError, otherwise the non-negative dimension used; `nb = len(batch_shape)` -/
def unsqueezeDim (nb : Nat) (dim : Int) : Option Int :=
  if {guard} then none else some (if {neg} then {newdim} else dim)

/-- `_extended_shape(sample_shape)` = shape of `get_base_samples(sample_shape)` -/
def extendedShape (ss bs ks : List Nat) : List Nat := {ext}
""")

    # ---------------------------------------------------------------- (f) __init__ (lazy branch): batch broadcast
    def gen_init(self):
        fn = self.m("__init__")
        if [a.arg for a in fn.args.args] != ["self", "mean", "covariance_matrix", "validate_args"]:
            bad(fn, "__init__ signature")
        body = strip_doc(fn.body)
        if not (len(body) == 2 and U(body[0]) == "self._islazy = isinstance(mean, LinearOperator) or isinstance(covariance_matrix, LinearOperator)"
                and isinstance(body[1], ast.If) and U(body[1].test) == "self._islazy"):
            bad(fn, "__init__ must be: _islazy flag, lazy / dense split")
        expect(body[1].orelse[0] if len(body[1].orelse) == 1 else body[1],
               "super().__init__(loc=mean, covariance_matrix=covariance_matrix, validate_args=validate_args)", "dense branch")
        satoms = {"mean.shape": "ms", "covariance_matrix.shape": "cs"}
        cur = {"mean": "ms", "covariance_matrix": "cs"}           # current shape of the two arguments
        bshape, eshape, stored, dist_batch = None, None, {}, None

        def cond(test):
            if isinstance(test, ast.Compare) and len(test.ops) == 1 and isinstance(test.ops[0], (ast.Eq, ast.NotEq)):
                try:
                    l_ = shape_expr(test.left, satoms, {})
                    r_ = shape_expr(test.comparators[0], satoms, {})
                    return f"({l_} {'≠' if isinstance(test.ops[0], ast.NotEq) else '='} {r_})"
                except TranslateError:
                    pass
            atoms = {}
            for nd in ast.walk(test):
                if is_call(nd, "len") and len(nd.args) == 1 and not nd.keywords:
                    atoms[U(nd)] = f"({shape_expr(nd.args[0], satoms, {})}).length"
            return bexpr(test, atoms, {})
        for s in body[1].body:
            src = U(s)
            if isinstance(s, ast.If) and U(s.test) == "validate_args":
                continue
            if src in ("self.__unbroadcasted_scale_tril = None", "self._validate_args = validate_args"):
                continue
            if isinstance(s, ast.Assign) and U(s.targets[0]) == "batch_shape":
                v = s.value
                if not (is_call(v, "torch.broadcast_shapes") and len(v.args) == 2 and not v.keywords) or bshape is not None:
                    bad(s, "batch_shape must be torch.broadcast_shapes(<mean batch>, <covariance batch>)")
                bshape = f"broadcastShapes {shape_expr(v.args[0], satoms, {})} {shape_expr(v.args[1], satoms, {})}"
                satoms["batch_shape"] = "bs"
                continue
            if isinstance(s, ast.Assign) and U(s.targets[0]) == "event_shape":
                eshape = shape_expr(s.value, satoms, {})
                satoms["event_shape"] = "(initEventShape ms)"
                continue
            if isinstance(s, ast.If) and not s.orelse and len(s.body) == 1 and isinstance(s.body[0], ast.Assign) \
                    and U(s.body[0].targets[0]) in cur:
                if bshape is None:
                    bad(s, "expand before batch_shape is known")
                nm = U(s.body[0].targets[0])
                v = s.body[0].value
                if not (isinstance(v, ast.Call) and U(v.func) == nm + ".expand" and v.args and not v.keywords
                        and all(isinstance(a, ast.Starred) for a in v.args)):
                    bad(s, "expand of a constructor argument")
                if cur[nm] != satoms[nm + ".shape"]:
                    bad(s, "second expand of the same argument")
                tgt = " ++ ".join(shape_expr(a.value, satoms, {}) for a in v.args)
                cur[nm] = f"(if {cond(s.test)} then ({tgt}) else {cur[nm]})"
                continue
            if isinstance(s, ast.Assign) and U(s.targets[0]) in ("self.loc", "self._covar") and isinstance(s.value, ast.Name) \
                    and s.value.id in cur:
                stored[U(s.targets[0])] = cur[s.value.id]
                continue
            if isinstance(s, ast.Expr) and is_call(s.value, "super(TMultivariateNormal, self).__init__"):
                a_ = s.value.args
                if not (len(a_) == 2 and U(a_[1]) == "event_shape" and {k.arg: U(k.value) for k in s.value.keywords} == {"validate_args": "False"}):
                    bad(s, "Distribution.__init__ call")
                dist_batch = shape_expr(a_[0], satoms, {})
                continue
            bad(s, "statement in the lazy branch of __init__")
        if bshape is None or eshape is None or set(stored) != {"self.loc", "self._covar"} or dist_batch is None:
            bad(fn, "__init__: missing batch_shape / event_shape / self.loc / self._covar / Distribution.__init__")
        self.emit(f"""/-! ### (f) `__init__` (LinearOperator branch): batch broadcast of mean and covariance -/

/-- `batch_shape`; `ms = mean.shape`, `cs = covariance_matrix.shape` (`none`: the batch shapes do not broadcast) -/
def initBatchShape (ms cs : List Nat) : Option (List Nat) := {bshape}
/-- `event_shape` -/
def initEventShape (ms : List Nat) : List Nat := {eshape}
/-- shape of `self.loc` after the conditional `expand`; `bs = batch_shape` -/
def initLocShape (ms cs bs : List Nat) : List Nat := {stored['self.loc']}
/-- shape of `self._covar` after the conditional `expand` -/
def initCovShape (ms cs bs : List Nat) : List Nat := {stored['self._covar']}
/-- batch shape handed to `Distribution.__init__` -/
def initDistBatch (ms cs bs : List Nat) : List Nat := {dist_batch}
/-- `(self.loc.shape, self._covar.shape)` -/
def initShapes (ms cs : List Nat) : Option (List Nat × List Nat) :=
  (initBatchShape ms cs).map fun bs => (initLocShape ms cs bs, initCovShape ms cs bs)
""")

    # ---------------------------------------------------------------- (e) rsample
    def gen_rsample(self):
        fn = self.m("rsample")
        body = strip_doc(fn.body)
        expect(body[0], "covar = self.lazy_covariance_matrix", "covar binding")
        top = body[1]
        if not (isinstance(top, ast.If) and U(top.test) == "base_samples is None" and U(body[2]) == "return res" and len(body) == 3):
            bad(fn, "rsample shape")
        # the `base_samples is None` branch is delegated to linear_operator's sampler: only this exact shape is in vocabulary
        # (the draw itself is tied by the `fsample` correspondence: seeded rsample() == mean + R eps for the recovered draw)
        if len(top.body) != 3:
            bad(top, "no-base-samples branch of rsample must be: num_samples, zero_mean_mvn_samples + loc, view")
        expect(top.body[0], "num_samples = sample_shape.numel() or 1", "number of samples")
        expect(top.body[1], "res = covar.zero_mean_mvn_samples(num_samples) + self.loc.unsqueeze(0)", "sampler delegation")
        expect(top.body[2], "res = res.view(sample_shape + self.loc.shape)", "view of the drawn samples")
        st = top.orelse
        it = iter(st)
        expect(next(it), "covar_root = covar.root_decomposition().root", "root")
        g = next(it)
        if not (isinstance(g, ast.If) and len(g.body) == 1 and isinstance(g.body[0], ast.Raise) and not g.orelse):
            bad(g, "base-sample shape guard")
        s = next(it)
        if not (isinstance(s, ast.Assign) and U(s.targets[0]) == "sample_shape"):
            bad(s, "sample_shape")
        ss = shape_expr(s.value, {"base_samples.shape": "bshape"},
                        {"base_samples.dim()": "bshape.length", "self.loc.dim()": "locDim"})
        s = next(it)
        if not (isinstance(s, ast.Assign) and isinstance(s.value, ast.Call) and U(s.value.func) == "base_samples.view"
                and len(s.value.args) == 3 and U(s.value.args[0]) == "-1" and isinstance(s.value.args[1], ast.Starred)):
            bad(s, "view of the base samples")
        vt = shape_expr(s.value.args[1].value, {"self.loc.shape": "loc"}, {})
        expect(s.value.args[2], "covar_root.shape[-1]", "last view dimension")
        s = next(it)
        if not (isinstance(s, ast.Assign) and U(s.targets[0]) == "base_samples" and isinstance(s.value, ast.Call)):
            bad(s, "first permute")
        pin = perm_chain(s.value, "base_samples", "locDim", "(locDim + 1)")
        s = next(it)
        expect(s, "if covar_root.shape[-1] < base_samples.shape[-2]:\n    base_samples = base_samples[..., :covar_root.shape[-1], :]\n"
                  "elif covar_root.shape[-1] > base_samples.shape[-2]:\n    covar_root = covar_root.transpose(-2, -1)", "rank adjustment")
        s = next(it)
        if not (isinstance(s, ast.Assign) and U(s.targets[0]) == "res"):
            bad(s, "core of rsample")
        core, _ = texpr(s.value, {"covar_root": ("root", "mat"), "base_samples": ("eps", "vec"), "self.loc": ("loc", "vec")}, {})
        s = next(it)
        if not (isinstance(s, ast.Assign) and U(s.targets[0]) == "res" and isinstance(s.value, ast.Call)
                and U(s.value.func).endswith(".contiguous") and not s.value.args and isinstance(s.value.func.value, ast.Call)):
            bad(s, "second permute")
        pout = perm_chain(s.value.func.value, "res", "locDim", "(locDim + 1)")
        s = next(it)
        if not (isinstance(s, ast.Assign) and isinstance(s.value, ast.Call) and U(s.value.func) == "res.view"
                and len(s.value.args) == 1):
            bad(s, "final view")
        outs = shape_expr(s.value.args[0], {"sample_shape": "ss", "self.loc.shape": "loc"}, {})
        if list(it):
            bad(fn, "trailing statements in rsample")
        self.emit(f"""/-! ### (e) `rsample(base_samples=…)` -/

/-- `sample_shape` recovered from the base samples; `bshape = base_samples.shape`, `locDim = self.loc.dim()` -/
def rsampleSampleShape (bshape : List Nat) (locDim : Nat) : List Nat := {ss}
/-- `base_samples.view(-1, <this>, covar_root.shape[-1])`; `loc = self.loc.shape` -/
def rsampleViewBatch (loc : List Nat) : List Nat := {vt}
/-- first `permute` (on the viewed base samples, rank `locDim + 1`) -/
def rsamplePermIn (locDim : Nat) : List Nat := {pin}
/-- second `permute` (on the result, rank `locDim + 1`) -/
def rsamplePermOut (locDim : Nat) : List Nat := {pout}
/-- final `view` -/
def rsampleOutShape (ss loc : List Nat) : List Nat := {outs}

section rs
variable [Field α] [DecidableEq α]
/-- `res = {U(st[6].value)}` (one batch element, one base sample) -/
def rsampleCore (loc : DMat n 1 α) (root : DMat n m α) (eps : DMat m 1 α) : DMat n 1 α := {core}
end rs
""")

    def run(self):
        self.emit(f"""/-
GENERATED by harness/translate/g7_mvn.py from {REL} — do not edit.
Regenerated from $VERIF_REPO on every `./check C10`; the theorems `C10.gen_*` of Props/C10.lean state that these
definitions equal the specifications of Model/MVN.lean.
-/
import GPVerif.Model.MVN
import GPVerif.Model.MVNShape

namespace GenMVN
open MVN

variable {{n m : Nat}} {{α : Type}}
""")
        self.gen_kl()
        self.gen_logprob()
        self.gen_getitem()
        self.gen_affine()
        self.gen_variance()
        self.gen_shapes()
        self.gen_rsample()
        self.gen_init()
        self.emit("end GenMVN\n")
        return "\n".join(self.out)


def _sexpr_attr(node, attrs):
    """sexpr with attribute atoms (`self.stddev`) replaced first."""
    class R(ast.NodeTransformer):
        def visit_Attribute(self, n):
            if U(n) in attrs:
                return ast.Name(id="__atom_" + U(n).replace(".", "_"), ctx=ast.Load())
            return self.generic_visit(n)
    tree = R().visit(ast.parse(U(node), mode="eval").body)
    env = {"__atom_" + k.replace(".", "_"): v for k, v in attrs.items()}
    return sexpr(tree, env)


def generate(repo, out_path):
    """Writes the Lean file; returns (notes, changed)."""
    tr = Translator(repo)
    text = tr.run()
    old = open(out_path).read() if os.path.exists(out_path) else None
    if old != text:
        with open(out_path, "w") as fh:
            fh.write(text)
    return tr.notes, old != text


if __name__ == "__main__":
    import sys
    repo = sys.argv[1] if len(sys.argv) > 1 else "/repo"
    print(Translator(repo).run())

"""G2p — Python-AST -> Lean translator for the persistence tables of C18.

Reads every `$VERIF_REPO/gpytorch/**/*.py` (the test helpers under gpytorch/test are not part of the library
and are skipped), finds every class that derives — transitively, through the package's own classes — from
`torch.nn.Module` (hence also every `gpytorch.Module`), and emits `GPVerif/Gen/Persistence.lean`:

* per class: bases, registrations (`register_parameter` / `register_buffer` (persistent flag) /
  `register_prior` / `register_constraint` / `add_module` / child-module assignments), the plain attributes
  assigned on `self` in `__init__` (constructor-determined), the attributes written on `self` in OTHER methods
  (mutable, non-persisted state), registrations made outside `__init__` (lazy), the memo names of `@cached`
  methods, which persistence hooks the class overrides, and what its `_clear_cache` clears;
* facts about the two generic mechanisms: `Module._load_from_state_dict` calls `_clear_cache()` before
  delegating, `Module.train` calls `_clear_cache()`, `Kernel.__getstate__` returns `self.__dict__` after
  resetting exactly one field, `DefaultPredictionStrategy.__deepcopy__` returns None.

Vocabulary (anything else raises `TranslateError` = broken tie):
  names of registrations are string constants, f-strings / `+`-concatenations of constants and variables
  (variables become `*`), or a loop variable over a constant tuple; `_clear_cache` bodies consist of `pass`,
  docstrings, `if hasattr(self, "X"): del self.X`, `self.X = None`, `clear_cache_hook(self)`,
  `super()._clear_cache()`; helper functions that register buffers on a module argument are inlined at call
  sites with a constant tuple of names (`priors.utils._bufferize_attributes`).
"""
import ast
import os
import re
import warnings


class TranslateError(Exception):
    pass


HOOKS = ["__getstate__", "__setstate__", "__deepcopy__", "__copy__", "__reduce__", "__reduce_ex__",
         "_load_from_state_dict", "load_state_dict", "state_dict", "_save_to_state_dict", "_apply",
         "__setattr__", "__getattr__", "__delattr__", "train", "_clear_cache"]
HOOK_CALLS = ["_register_load_state_dict_pre_hook", "register_load_state_dict_post_hook",
              "_register_state_dict_hook", "register_state_dict_pre_hook", "_register_load_state_dict_post_hook"]
# external packages a base class may come from without being an nn.Module
NON_MODULE_EXTERNAL = ("torch.distributions", "torch.autograd", "abc", "builtins", "pyro", "linear_operator",
                       "typing", "enum", "contextlib", "warnings", "unittest", "collections", "torch.optim", "torch.utils",
                       "torch.Tensor", "torch.jit")
NN_ROOTS = ("torch.nn.Module", "torch.nn.ModuleList", "torch.nn.ModuleDict", "torch.nn.Sequential",
            "torch.nn.parallel.DataParallel", "torch.nn.modules.Module", "torch.nn.modules.module.Module")
BUILTIN_BASES = {"object", "Exception", "RuntimeError", "ValueError", "Warning", "UserWarning", "DeprecationWarning",
                 "dict", "list", "tuple", "type", "float", "int", "str", "RuntimeWarning", "KeyError"}
# annotations of constructor parameters that denote child modules (resolved like base classes)
REG_KINDS = ("param", "buffer", "nbuffer", "prior", "constraint", "child", "lossterm")


def _skip(path):
    return "/gpytorch/test/" in path.replace(os.sep, "/")


class Pkg:
    """All modules of the package: ASTs, class definitions, import maps."""

    def __init__(self, repo):
        self.root = os.path.join(repo, "gpytorch")
        if not os.path.isdir(self.root):
            raise TranslateError(f"{self.root} not found")
        self.trees, self.classes, self.imports, self.funcs, self.alts = {}, {}, {}, {}, {}
        for d, _, fs in sorted(os.walk(self.root)):
            for f in sorted(fs):
                p = os.path.join(d, f)
                if f.endswith(".py") and not _skip(p):
                    try:
                        with warnings.catch_warnings():
                            warnings.simplefilter("ignore", SyntaxWarning)
                            self.trees[p] = ast.parse(open(p).read(), filename=p)
                    except SyntaxError as e:
                        raise TranslateError(f"unparsable source {p}: {e}")
        for p, t in self.trees.items():
            self.imports[p] = self._import_map(p, t)
            for n in ast.walk(t):
                if isinstance(n, ast.ClassDef):
                    if (p, n.name) in self.classes:
                        # alternative definitions (try/except ImportError branches): bases and bodies are united
                        self.alts.setdefault((p, n.name), []).append(n)
                        continue
                    self.classes[(p, n.name)] = n
            for n in t.body:
                if isinstance(n, ast.FunctionDef):
                    self.funcs[(p, n.name)] = n

    def rel(self, p):
        return os.path.relpath(p, os.path.dirname(self.root))

    def _mod_file(self, dotted_parts):
        base = os.path.join(os.path.dirname(self.root), *dotted_parts)
        if os.path.isfile(base + ".py"):
            return base + ".py"
        if os.path.isfile(os.path.join(base, "__init__.py")):
            return os.path.join(base, "__init__.py")
        return None

    def _import_map(self, p, t):
        """local name -> ('int', file, name|None) | ('ext', dotted)"""
        m = {}
        pkg_parts = os.path.relpath(os.path.dirname(p), os.path.dirname(self.root)).split(os.sep)
        for n in ast.walk(t):
            if isinstance(n, ast.Import):
                for a in n.names:
                    local = a.asname or a.name.split(".")[0]
                    dotted = a.name if a.asname else a.name.split(".")[0]
                    if dotted.split(".")[0] == "gpytorch":
                        f = self._mod_file(dotted.split("."))
                        m[local] = ("int", f, None) if f else ("ext", dotted)
                    else:
                        m[local] = ("ext", dotted)
            elif isinstance(n, ast.ImportFrom):
                if n.level > 0:
                    base = pkg_parts[: len(pkg_parts) - (n.level - 1)]
                    parts = base + (n.module.split(".") if n.module else [])
                elif n.module and n.module.split(".")[0] == "gpytorch":
                    parts = n.module.split(".")
                else:
                    for a in n.names:
                        m[a.asname or a.name] = ("ext", f"{n.module}.{a.name}")
                    continue
                f = self._mod_file(parts)
                for a in n.names:
                    sub = self._mod_file(parts + [a.name])
                    if sub is not None and (f is None or not self._defines(f, a.name)):
                        m[a.asname or a.name] = ("int", sub, None)      # a submodule
                    elif f is not None:
                        m[a.asname or a.name] = ("int", f, a.name)
                    else:
                        raise TranslateError(f"cannot resolve `from {'.' * n.level}{n.module or ''} import {a.name}` in {p}")
        return m

    def _defines(self, f, name):
        t = self.trees.get(f)
        if t is None:
            return False
        for n in ast.walk(t):
            if isinstance(n, (ast.ClassDef, ast.FunctionDef)) and n.name == name:
                return True
            if isinstance(n, ast.Assign) and any(isinstance(x, ast.Name) and x.id == name for x in n.targets):
                return True
        return False

    def resolve_name(self, f, name, depth=0):
        """-> ('cls', file, name) | ('ext', dotted) | ('mod', file) | None"""
        if depth > 12:
            raise TranslateError(f"import cycle resolving {name} from {f}")
        if (f, name) in self.classes:
            return ("cls", f, name)
        e = self.imports.get(f, {}).get(name)
        if e is None:
            return None
        if e[0] == "ext":
            return e
        _, tf, tn = e
        if tn is None:
            return ("mod", tf)
        if tf not in self.trees:
            return ("ext", "gpytorch.<skipped>." + tn)
        r = self.resolve_name(tf, tn, depth + 1)
        return r

    def resolve_expr(self, f, node):
        if isinstance(node, ast.Name):
            if node.id in BUILTIN_BASES:
                return ("ext", "builtins." + node.id)
            return self.resolve_name(f, node.id)
        if isinstance(node, ast.Attribute):
            b = self.resolve_expr(f, node.value)
            if b is None:
                return None
            if b[0] == "ext":
                return ("ext", b[1] + "." + node.attr)
            if b[0] == "mod":
                return self.resolve_name(b[1], node.attr)
            return None
        if isinstance(node, ast.Subscript):      # Generic[T]
            return self.resolve_expr(f, node.value)
        return None


def _canon_ext(d):
    d = d.replace("torch.nn.modules.module.", "torch.nn.").replace("torch.nn.modules.", "torch.nn.")
    if d.startswith("nn."):
        d = "torch." + d
    return d


def name_pattern(node, env):
    """Abstract value of a registration-name expression: list of alternatives (strings, `*` = unknown part)."""
    if isinstance(node, ast.Constant) and isinstance(node.value, str):
        return [node.value]
    if isinstance(node, ast.Name):
        return env.get(node.id, ["*"])
    if isinstance(node, ast.JoinedStr):
        outs = [""]
        for v in node.values:
            if isinstance(v, ast.Constant):
                alts = [str(v.value)]
            elif isinstance(v, ast.FormattedValue):
                alts = name_pattern(v.value, env)
            else:
                raise TranslateError("f-string piece")
            outs = [o + a for o in outs for a in alts]
        return [re.sub(r"\*+", "*", o) for o in outs]
    if isinstance(node, ast.BinOp) and isinstance(node.op, ast.Add):
        return [re.sub(r"\*+", "*", a + b) for a in name_pattern(node.left, env) for b in name_pattern(node.right, env)]
    if isinstance(node, ast.Call) and isinstance(node.func, ast.Name) and node.func.id == "str":
        return ["#"]       # `str(i)`: a run of digits
    if isinstance(node, ast.Call) and isinstance(node.func, ast.Attribute) and node.func.attr in ("format", "join"):
        return ["*"]
    if isinstance(node, (ast.Subscript, ast.Attribute)):
        return ["*"]
    raise TranslateError(f"registration name expression `{ast.unparse(node)}` outside the vocabulary")


def _is_self(node, selfname="self"):
    return isinstance(node, ast.Name) and node.id == selfname


def _arg(call, pos, kw):
    for k in call.keywords:
        if k.arg == kw:
            return k.value
    if len(call.args) > pos and not any(isinstance(a, ast.Starred) for a in call.args[: pos + 1]):
        return call.args[pos]
    return None


class ClassInfo:
    def __init__(self, file, cd):
        self.file, self.cd, self.name = file, cd, cd.name
        self.bases = []           # keys of internal bases
        self.ext_bases = []       # dotted externals
        self.is_module = False
        self.regs = []            # (kind, name, in_init)
        self.init_attrs, self.mut_attrs = set(), set()
        self.persisted_writes = set()   # names written outside __init__ that are registered names (buffers/params)
        self.memo = set()
        self.hooks, self.hook_calls = set(), set()
        self.clears = set()       # attributes cleared by this class's own _clear_cache
        self.clear_calls_super = False
        self.props = set()        # property names (assignments to them are setter calls, not attributes)
        self.methods = {}
        self.registrars = {}      # method -> [(kind, template over its positional parameters)]
        self.gs = None            # parsed own __getstate__: dict(resets, drops, live, from_super)
        self.lambda_priors = set()   # names of priors registered with a lambda / local function as closure
        self.writers = {}         # attr -> {(method, writer kind)}: who writes it outside __init__
        self.reads = {}           # method -> {attr}: `self.<attr>` loads (all methods, `__init__` included)
        self.alias_reads = {}     # method -> {attr}: `<param>.<attr>` loads on the method's other parameters
        self.dyn_reads = set()    # methods with a computed read (`getattr(self, <expr>)`, `vars(self)`, `self.__dict__[<expr>]`)
        self.members = set()      # methods, properties and class-level attributes (code, not instance state)
        self.settings_reads = {}  # method -> {settings class}: global settings consulted
        self.settings_stores = set()   # (attr, setting, in_init): `self.<attr> = <expression mentioning a setting>`
        self.ctor_aliases = set()      # (registered name, expression): parameter / buffer that may share the caller's tensor
        self.global_uses = set()       # (global name, kind, method): module-level Module / tensor constant used by a method


    def own_reads_all(self):
        return set().union(*[r for m, r in self.reads.items() if m != "__init__"]) if self.reads else set()


class Translator:
    def __init__(self, repo):
        self.pkg = Pkg(repo)
        self.info = {}
        self.helpers = {}   # (file, fname) -> list of name templates over the loop variable of param 1
        self.foreign = set()
        self.facts = {}

    # ------------------------------------------------------------------ class graph
    def build_graph(self):
        P = self.pkg
        for key, cd in P.classes.items():
            ci = self.info[key] = ClassInfo(key[0], cd)
            for b in list(cd.bases) + [b for alt in P.alts.get(key, []) for b in alt.bases]:
                r = P.resolve_expr(key[0], b)
                if r is None:
                    raise TranslateError(f"base `{ast.unparse(b)}` of {cd.name} ({P.rel(key[0])}) cannot be resolved")
                if r[0] == "cls":
                    ci.bases.append((r[1], r[2]))
                elif r[0] == "ext":
                    ci.ext_bases.append(_canon_ext(r[1]))
                else:
                    raise TranslateError(f"base `{ast.unparse(b)}` of {cd.name} is a module")
        # module-ness: fixpoint
        for ci in self.info.values():
            for e in ci.ext_bases:
                if e in NN_ROOTS:
                    ci.is_module = True
                elif e.startswith("torch.nn."):
                    raise TranslateError(f"{ci.name}: torch.nn base {e} not in the vocabulary")
                elif not e.startswith(NON_MODULE_EXTERNAL) and not e.startswith("gpytorch.<skipped>"):
                    raise TranslateError(f"{ci.name}: external base {e} of unknown kind")
        changed = True
        while changed:
            changed = False
            for ci in self.info.values():
                if not ci.is_module and any(self.info[b].is_module for b in ci.bases):
                    ci.is_module = changed = True

    def mro(self, key):
        """Linearisation good enough for attribute lookup: depth-first, left-to-right, duplicates removed (last kept
        as in C3 for the diamond shapes that occur here)."""
        out = []

        def go(k):
            out.append(k)
            for b in self.info[k].bases:
                go(b)
        go(key)
        seen, res = set(), []
        for k in reversed(out):
            if k not in seen:
                seen.add(k)
                res.append(k)
        return list(reversed(res))

    # ------------------------------------------------------------------ helper functions registering on an argument
    def scan_helpers(self):
        for (f, fname), fn in self.pkg.funcs.items():
            if not fn.args.args:
                continue
            p0 = fn.args.args[0].arg
            tmpl = []
            for n in ast.walk(fn):
                if isinstance(n, ast.Call) and isinstance(n.func, ast.Attribute) and _is_self(n.func.value, p0) \
                        and n.func.attr in ("register_buffer", "register_parameter"):
                    nm = _arg(n, 0, "name")
                    if len(fn.args.args) < 2:
                        raise TranslateError(f"helper {fname} registers on its argument without a name list")
                    loopvars = [x.target.id for x in ast.walk(fn) if isinstance(x, (ast.For, ast.comprehension))
                                and isinstance(x.target, ast.Name)]
                    env = {v: ["{}"] for v in loopvars}
                    # dict-comprehension .items() loops: `for attr, value in attr_clones.items()`
                    for x in ast.walk(fn):
                        if isinstance(x, ast.For) and isinstance(x.target, ast.Tuple):
                            env[x.target.elts[0].id] = ["{}"]
                    pats = name_pattern(nm, env)
                    if any("*" in q for q in pats):
                        raise TranslateError(f"helper {fname}: registration name `{ast.unparse(nm)}` not derived from its name list")
                    kind = "buffer" if n.func.attr == "register_buffer" else "param"
                    pers = _arg(n, 2, "persistent")
                    if pers is not None and not (isinstance(pers, ast.Constant) and pers.value is True):
                        kind = "nbuffer"
                    tmpl += [(kind, q) for q in pats]
            if tmpl:
                self.helpers[(f, fname)] = tmpl

    # ------------------------------------------------------------------ per class
    def child_annotation(self, ci, fn, argname):
        for a in fn.args.args + fn.args.kwonlyargs:
            if a.arg == argname and a.annotation is not None:
                for n in ast.walk(a.annotation):
                    if isinstance(n, (ast.Name, ast.Attribute)):
                        r = self.pkg.resolve_expr(ci.file, n)
                        if r and r[0] == "cls" and self.info[(r[1], r[2])].is_module:
                            return True
                        if r and r[0] == "ext" and _canon_ext(r[1]) in NN_ROOTS:
                            return True
                    if isinstance(n, ast.Constant) and isinstance(n.value, str):
                        r = self.pkg.resolve_name(ci.file, n.value.strip('"'))
                        if r and r[0] == "cls" and self.info[(r[1], r[2])].is_module:
                            return True
        return False

    def value_kind(self, ci, fn, v):
        """Kind of an assigned value as far as syntax tells: 'param' | 'child' | 'attr'."""
        if isinstance(v, ast.Call):
            r = self.pkg.resolve_expr(ci.file, v.func)
            if r and r[0] == "ext" and _canon_ext(r[1]) in ("torch.nn.Parameter", "torch.nn.parameter.Parameter"):
                return "param"
            if r and r[0] == "ext" and _canon_ext(r[1]) in NN_ROOTS:
                return "child"
            if r and r[0] == "cls" and self.info[(r[1], r[2])].is_module:
                return "child"
        if isinstance(v, ast.Name) and self.child_annotation(ci, fn, v.id):
            return "child"
        return "attr"

    def scan_class(self, key):
        ci = self.info[key]
        bodies = [x for d in [ci.cd] + self.pkg.alts.get(key, []) for x in d.body]
        for n in bodies:
            if isinstance(n, ast.FunctionDef):
                if any((isinstance(d, ast.Name) and d.id in ("property", "abstractproperty", "cached_property"))
                       or (isinstance(d, ast.Attribute) and d.attr in ("setter", "getter", "deleter"))
                       for d in n.decorator_list):
                    ci.props.add(n.name)
                ci.methods.setdefault(n.name, []).append(n)
                if n.name in HOOKS:
                    ci.hooks.add(n.name)
                for d in n.decorator_list:
                    if isinstance(d, ast.Call) and isinstance(d.func, ast.Name) and d.func.id == "cached":
                        nm = _arg(d, 99, "name")
                        if nm is None or not isinstance(nm, ast.Constant):
                            raise TranslateError(f"{ci.name}.{n.name}: @cached without a constant name")
                        ci.memo.add(nm.value)
                    elif isinstance(d, ast.Name) and d.id == "cached":
                        ci.memo.add(n.name)
        for n in bodies:        # class-level names: code / constants of the class, not instance state
            if isinstance(n, ast.Assign):
                for t in n.targets:
                    for e in ([t] if isinstance(t, ast.Name) else t.elts if isinstance(t, (ast.Tuple, ast.List)) else []):
                        if isinstance(e, ast.Name):
                            ci.members.add(e.id)
            elif isinstance(n, ast.AnnAssign) and isinstance(n.target, ast.Name):
                ci.members.add(n.target.id)
            elif isinstance(n, (ast.FunctionDef, ast.AsyncFunctionDef, ast.ClassDef)):
                ci.members.add(n.name)
        for mname, fns in ci.methods.items():
            for fn in fns:
                self.scan_method(ci, mname, fn)
        for fn in ci.methods.get("__init__", []):
            if fn.args.args:
                self.scan_ctor_aliases(ci, fn)
        if "_clear_cache" in ci.methods:
            self.scan_clear_cache(ci, ci.methods["_clear_cache"][-1])
        if "__getstate__" in ci.methods:
            self.scan_getstate(ci, ci.methods["__getstate__"][-1])

    def scan_method(self, ci, mname, fn):
        if not fn.args.args or any(isinstance(d, ast.Name) and d.id in ("staticmethod", "classmethod")
                                   for d in fn.decorator_list):
            return
        S = fn.args.args[0].arg
        in_init = mname == "__init__"
        fkind = self.writer_kind(mname, fn)
        self.scan_reads(ci, mname, fn, S)
        self.scan_settings(ci, mname, fn, S, in_init)
        # loop variables over constant tuples/lists -> alternatives
        env = {}
        for n in ast.walk(fn):
            if isinstance(n, ast.For) and isinstance(n.target, ast.Name) and isinstance(n.iter, (ast.Tuple, ast.List)) \
                    and all(isinstance(e, ast.Constant) and isinstance(e.value, str) for e in n.iter.elts):
                env[n.target.id] = [e.value for e in n.iter.elts]
        if not in_init:
            # a method whose registration names derive from its own parameters is a *registrar*: its
            # registrations are instantiated at the call sites `self.<method>(<constant>, …)` (second pass)
            for i, a in enumerate(fn.args.args[1:]):
                env.setdefault(a.arg, ["{%d}" % i])

        def reg(kind, node, suffix=""):
            if node is None:
                raise TranslateError(f"{ci.name}.{mname}: registration without a name")
            for q in name_pattern(node, env):
                if "{" in q:
                    ci.registrars.setdefault(mname, []).append((kind, q + suffix))
                else:
                    ci.regs.append((kind, q + suffix, in_init))

        def write(name, value=None):
            if name.startswith("__") and name.endswith("__"):
                return
            if name.startswith("__"):       # Python's private-name mangling
                name = "_" + ci.name.lstrip("_") + name
            if "{" in name:
                name = re.sub(r"\*+", "*", re.sub(r"\{\d+\}", "*", name))
            kind = self.value_kind(ci, fn, value) if value is not None else "attr"
            if kind == "param":
                ci.regs.append(("param", name, in_init))
            elif kind == "child":
                ci.regs.append(("child", name, in_init))
            elif in_init:
                ci.init_attrs.add(name)
            else:
                ci.mut_attrs.add(name)
                ci.writers.setdefault(name, set()).add((mname, fkind))

        def target(t, value):
            if isinstance(t, ast.Attribute):
                if _is_self(t.value, S):
                    write(t.attr, value)
                else:
                    self.foreign.add(t.attr)
            elif isinstance(t, (ast.Tuple, ast.List)):
                for e in t.elts:
                    target(e, None)
            elif isinstance(t, ast.Starred):
                target(t.value, None)
            elif isinstance(t, ast.Subscript):
                # self.__dict__["x"] = …
                if isinstance(t.value, ast.Attribute) and t.value.attr == "__dict__" and _is_self(t.value.value, S):
                    if isinstance(t.slice, ast.Constant) and isinstance(t.slice.value, str):
                        write(t.slice.value, value)
                    else:
                        raise TranslateError(f"{ci.name}.{mname}: computed write into self.__dict__")

        for n in ast.walk(fn):
            if isinstance(n, ast.Assign):
                for t in n.targets:
                    target(t, n.value)
            elif isinstance(n, ast.AugAssign):
                target(n.target, None)
            elif isinstance(n, ast.AnnAssign) and n.value is not None:
                target(n.target, n.value)
            elif isinstance(n, ast.Delete):
                for t in n.targets:
                    if isinstance(t, ast.Attribute) and _is_self(t.value, S):
                        write(t.attr)
            elif isinstance(n, (ast.With, ast.AsyncWith)):
                for it in n.items:
                    if it.optional_vars is not None:
                        target(it.optional_vars, None)
            elif isinstance(n, ast.Call):
                f = n.func
                if isinstance(f, ast.Attribute) and _is_self(f.value, S):
                    a = f.attr
                    if a == "register_parameter":
                        reg("param", _arg(n, 0, "name"))
                    elif a == "register_buffer":
                        pers = _arg(n, 2, "persistent")
                        if pers is None or (isinstance(pers, ast.Constant) and pers.value is True):
                            reg("buffer", _arg(n, 0, "name"))
                        elif isinstance(pers, ast.Constant) and pers.value is False:
                            reg("nbuffer", _arg(n, 0, "name"))
                        else:
                            raise TranslateError(f"{ci.name}.{mname}: register_buffer(persistent=<non-constant>)")
                    elif a == "register_prior":
                        reg("prior", _arg(n, 0, "name"))
                        local_defs = {x.name for x in ast.walk(fn) if isinstance(x, ast.FunctionDef) and x is not fn}
                        for x in list(n.args[2:]) + [k.value for k in n.keywords
                                                     if k.arg in ("param_or_closure", "setting_closure")]:
                            if isinstance(x, ast.Lambda) or (isinstance(x, ast.Name) and x.id in local_defs):
                                for q in name_pattern(_arg(n, 0, "name"), env):
                                    ci.lambda_priors.add(q)
                    elif a == "register_constraint":
                        reg("constraint", _arg(n, 0, "param_name"), "_constraint")
                    elif a == "add_module":
                        reg("child", _arg(n, 0, "name"))
                    elif a == "register_added_loss_term":
                        reg("lossterm", _arg(n, 0, "name"))
                    elif a in HOOK_CALLS:
                        ci.hook_calls.add(a)
                    elif a in ("__setattr__", "__delattr__"):
                        nm = _arg(n, 0, "name")
                        for q in name_pattern(nm, env):
                            write(q)
                elif isinstance(f, ast.Name) and f.id in ("setattr", "delattr") and n.args and _is_self(n.args[0], S):
                    for q in name_pattern(n.args[1], env):
                        write(q, n.args[2] if len(n.args) > 2 else None)
                elif isinstance(f, ast.Name) and f.id in ("setattr", "delattr") and len(n.args) > 1:
                    try:
                        for q in name_pattern(n.args[1], env):
                            self.foreign.add(q)
                    except TranslateError:
                        self.foreign.add("*")
                elif isinstance(f, ast.Attribute) and f.attr in ("__setattr__", "__delattr__") and len(n.args) >= 2 \
                        and _is_self(n.args[0], S):
                    # object.__setattr__(self, "model", model)
                    for q in name_pattern(n.args[1], env):
                        write(q)
                elif isinstance(f, ast.Name) and f.id in ("add_to_cache", "pop_from_cache", "pop_from_cache_ignore_args") \
                        and n.args and _is_self(n.args[0], S):
                    for q in name_pattern(n.args[1], env):
                        ci.memo.add(q)
                    if not in_init:
                        ci.mut_attrs.add("_memoize_cache")
                        ci.writers.setdefault("_memoize_cache", set()).add((mname, fkind))
                elif isinstance(f, ast.Name) and f.id == "clear_cache_hook" and n.args and _is_self(n.args[0], S):
                    if not in_init:
                        ci.mut_attrs.add("_memoize_cache")
                        ci.writers.setdefault("_memoize_cache", set()).add((mname, fkind))
                elif isinstance(f, ast.Name) and n.args and _is_self(n.args[0], S):
                    r = self.pkg.resolve_name(ci.file, f.id)
                    hk = None
                    if r and r[0] == "ext" and r[1].startswith("gpytorch.<skipped>"):
                        r = None
                    if r is None:
                        # a module-level function of this or an imported file
                        e = self.pkg.imports[ci.file].get(f.id)
                        if e and e[0] == "int" and (e[1], e[2]) in self.helpers:
                            hk = (e[1], e[2])
                        elif (ci.file, f.id) in self.helpers:
                            hk = (ci.file, f.id)
                    if hk is not None:
                        lst = n.args[1] if len(n.args) > 1 else None
                        if not (isinstance(lst, (ast.Tuple, ast.List)) and
                                all(isinstance(e, ast.Constant) and isinstance(e.value, str) for e in lst.elts)):
                            raise TranslateError(f"{ci.name}.{mname}: {f.id}(self, <non-constant name list>)")
                        for kind, tmpl in self.helpers[hk]:
                            for e in lst.elts:
                                ci.regs.append((kind, tmpl.replace("{}", e.value), in_init))
        if ci.memo and not in_init:
            pass
        if any(True for _ in ci.memo):
            ci.mut_attrs.add("_memoize_cache")
            if any(isinstance(d, ast.Call) and isinstance(d.func, ast.Name) and d.func.id == "cached" or
                   isinstance(d, ast.Name) and d.id == "cached" for d in fn.decorator_list):
                ci.writers.setdefault("_memoize_cache", set()).add((mname, fkind))

    # ------------------------------------------------------------------ writer kinds, reads, settings
    WRITER_KINDS = ("setter", "getter", "deleter", "method", "setstate")

    @staticmethod
    def writer_kind(mname, fn):
        """Who is writing: a property setter (public configuration API), a property getter / deleter, `__setstate__`
        (constructor-like: installs a copied state), or an ordinary method."""
        for d in fn.decorator_list:
            if isinstance(d, ast.Attribute) and d.attr in ("setter", "getter", "deleter"):
                return d.attr
        for d in fn.decorator_list:
            if isinstance(d, ast.Name) and d.id in ("property", "abstractproperty", "cached_property"):
                return "getter"
        if mname == "__setstate__":
            return "setstate"
        return "method"

    def scan_reads(self, ci, mname, fn, S):
        """`self.<attr>` loads of one method (nested functions / lambdas / comprehensions included): attribute loads,
        augmented assignments, `getattr/hasattr(self, "const")`, `self.__dict__["const"]` / `.get("const")`.  A computed
        name (`getattr(self, expr)`, `vars(self)`, `self.__dict__[expr]`) marks the method as a dynamic reader."""
        reads = ci.reads.setdefault(mname, set())
        alias = ci.alias_reads.setdefault(mname, set())
        # local names bound to `self` (`base_module = self`) read like `self`; attribute loads on the method's OTHER
        # parameters are kept apart (`alias_reads`): closures such as `_lengthscale_param(self, m): return m.lengthscale`
        # are called with `m is self`
        selfs = {S} | {t.id for n in ast.walk(fn) if isinstance(n, ast.Assign) and _is_self(n.value, S)
                       for t in n.targets if isinstance(t, ast.Name)}
        params = {a.arg for a in fn.args.args[1:] + fn.args.kwonlyargs} - selfs

        def is_s(node):
            return isinstance(node, ast.Name) and node.id in selfs
        for n in ast.walk(fn):
            if isinstance(n, ast.Attribute) and isinstance(n.ctx, ast.Load) and isinstance(n.value, ast.Name) \
                    and n.value.id in params:
                alias.add(n.attr)

        def mangle(a):
            if a.startswith("__") and not a.endswith("__"):
                return "_" + ci.name.lstrip("_") + a
            return a

        def is_dict(e):
            return isinstance(e, ast.Attribute) and e.attr == "__dict__" and is_s(e.value)
        for n in ast.walk(fn):
            if isinstance(n, ast.Attribute) and is_s(n.value) and isinstance(n.ctx, ast.Load):
                reads.add(mangle(n.attr))
            elif isinstance(n, ast.AugAssign) and isinstance(n.target, ast.Attribute) and is_s(n.target.value):
                reads.add(mangle(n.target.attr))
            elif isinstance(n, ast.Call) and isinstance(n.func, ast.Name) and n.func.id in ("getattr", "hasattr") \
                    and n.args and is_s(n.args[0]):
                if len(n.args) > 1 and isinstance(n.args[1], ast.Constant) and isinstance(n.args[1].value, str):
                    reads.add(n.args[1].value)
                else:
                    ci.dyn_reads.add(mname)
            elif isinstance(n, ast.Call) and isinstance(n.func, ast.Name) and n.func.id in ("vars", "dir") \
                    and n.args and is_s(n.args[0]):
                ci.dyn_reads.add(mname)
            elif isinstance(n, ast.Call) and isinstance(n.func, ast.Attribute) and n.func.attr in ("__getattr__", "__getattribute__"):
                ci.dyn_reads.add(mname)        # super().__getattr__(name)
            elif isinstance(n, ast.Subscript) and is_dict(n.value) and isinstance(n.ctx, ast.Load):
                if isinstance(n.slice, ast.Constant) and isinstance(n.slice.value, str):
                    reads.add(n.slice.value)
                else:
                    ci.dyn_reads.add(mname)
            elif isinstance(n, ast.Call) and isinstance(n.func, ast.Attribute) and is_dict(n.func.value):
                if n.func.attr in ("get", "pop", "setdefault") and n.args and isinstance(n.args[0], ast.Constant) \
                        and isinstance(n.args[0].value, str):
                    reads.add(n.args[0].value)
                elif n.func.attr not in ("update", "clear"):
                    ci.dyn_reads.add(mname)        # .copy(), .items(), .get(expr) …

    def setting_of(self, file, node):
        """Name of the global settings class that the expression `node` (a Name / Attribute chain) denotes or is rooted
        in (`settings.cholesky_jitter.value` -> `cholesky_jitter`), else None."""
        chain, n = [], node
        while isinstance(n, ast.Attribute):
            chain.append(n.attr)
            n = n.value
        if not isinstance(n, ast.Name):
            return None
        chain.reverse()
        try:
            r = self.pkg.resolve_name(file, n.id)
        except TranslateError:
            return None
        if r is None:
            return None
        sfiles = ("settings.py", "beta_features.py")
        if r[0] == "mod" and os.path.basename(r[1]) in sfiles and os.path.dirname(r[1]) == self.pkg.root:
            return chain[0] if chain else None
        if r[0] == "cls" and os.path.basename(r[1]) in sfiles and os.path.dirname(r[1]) == self.pkg.root:
            return r[2]
        if r[0] == "ext" and "linear_operator.settings" in r[1]:
            rest = r[1].split("linear_operator.settings", 1)[1].strip(".")
            return rest.split(".")[0] if rest else (chain[0] if chain else None)
        return None

    def scan_settings(self, ci, mname, fn, S, in_init):
        """Which global settings a method consults, and which `self.<attr>` it assigns from an expression that
        mentions one (directly or through a local variable assigned from such an expression)."""
        def mentioned(e, tainted):
            out = set()
            for x in ast.walk(e):
                if isinstance(x, (ast.Attribute, ast.Name)):
                    s_ = self.setting_of(ci.file, x)
                    if s_ is not None:
                        out.add(s_)
                    if isinstance(x, ast.Name) and x.id in tainted:
                        out |= tainted[x.id]
            return out
        used = mentioned(fn, {})
        if used:
            ci.settings_reads.setdefault(mname, set()).update(used)
        else:
            return
        tainted = {}
        for _ in range(3):      # locals assigned from a settings read carry it (small fixed point)
            for n in ast.walk(fn):
                if isinstance(n, (ast.Assign, ast.AnnAssign, ast.AugAssign)) and getattr(n, "value", None) is not None:
                    src = mentioned(n.value, tainted)
                    if not src:
                        continue
                    tgts = n.targets if isinstance(n, ast.Assign) else [n.target]
                    for t in tgts:
                        for e in ([t] if not isinstance(t, (ast.Tuple, ast.List)) else t.elts):
                            if isinstance(e, ast.Name):
                                tainted.setdefault(e.id, set()).update(src)
                            elif isinstance(e, ast.Attribute) and _is_self(e.value, S):
                                for s_ in src:
                                    ci.settings_stores.add((e.attr, s_, in_init))
                elif isinstance(n, ast.Call) and isinstance(n.func, ast.Name) and n.func.id == "setattr" and len(n.args) == 3 \
                        and _is_self(n.args[0], S):
                    src = mentioned(n.args[2], tainted)
                    if src and isinstance(n.args[1], ast.Constant):
                        for s_ in src:
                            ci.settings_stores.add((str(n.args[1].value), s_, in_init))

    # ------------------------------------------------------------------ registrations that alias a constructor argument
    ALIAS_OPS = {"unsqueeze", "squeeze", "view", "reshape", "expand", "expand_as", "transpose", "t", "contiguous", "to",
                 "detach", "type_as", "float", "double", "half", "permute", "flatten", "view_as", "requires_grad_", "cpu",
                 "cuda", "data", "T", "mT", "squeeze_", "unsqueeze_"}
    ALIAS_FUNCS = {"as_tensor", "atleast_1d", "atleast_2d", "Parameter", "broadcast_to", "asarray", "broadcast_all",
                   "broadcast_tensors"}

    def may_alias(self, e, al):
        """May the value of expression `e` share storage with one of the (caller-supplied) names `al`?  View-type
        methods, indexing, `torch.as_tensor`, `nn.Parameter(x)` keep the storage; `.clone()`, arithmetic and every
        other call produce a new tensor."""
        if isinstance(e, ast.Name):
            return e.id in al
        if isinstance(e, ast.Attribute):
            return e.attr in self.ALIAS_OPS and self.may_alias(e.value, al)
        if isinstance(e, ast.Subscript):
            return self.may_alias(e.value, al)
        if isinstance(e, ast.IfExp):
            return self.may_alias(e.body, al) or self.may_alias(e.orelse, al)
        if isinstance(e, ast.Call):
            f = e.func
            if isinstance(f, ast.Attribute) and f.attr in self.ALIAS_OPS:
                return self.may_alias(f.value, al)
            name = f.attr if isinstance(f, ast.Attribute) else getattr(f, "id", None)
            if name in self.ALIAS_FUNCS:
                return any(self.may_alias(a, al) for a in e.args) or any(self.may_alias(k.value, al) for k in e.keywords)
            return False
        if isinstance(e, (ast.Tuple, ast.List)):
            return any(self.may_alias(x, al) for x in e.elts)
        return False

    def scan_ctor_aliases(self, ci, fn):
        """Flow-sensitive (statement order, branches joined) may-alias pass over `__init__`: which names still denote
        the caller's tensor when they are registered as parameter / buffer."""
        S = fn.args.args[0].arg
        start = {a.arg for a in fn.args.args[1:] + fn.args.kwonlyargs}

        def run(stmts, al):
            for st in stmts:
                if isinstance(st, (ast.Assign, ast.AnnAssign)) and getattr(st, "value", None) is not None:
                    a = self.may_alias(st.value, al)
                    for t in (st.targets if isinstance(st, ast.Assign) else [st.target]):
                        if isinstance(t, (ast.Tuple, ast.List)):
                            for e in t.elts:
                                if isinstance(e, ast.Name):
                                    (al.add if a else al.discard)(e.id)
                        elif isinstance(t, ast.Name):
                            (al.add if a else al.discard)(t.id)
                        elif isinstance(t, ast.Attribute) and _is_self(t.value, S) and a and \
                                self.value_kind(ci, fn, st.value) == "param":
                            ci.ctor_aliases.add((t.attr, ast.unparse(st.value)[:80]))
                elif isinstance(st, ast.If):
                    a1, a2 = set(al), set(al)
                    # `if x is None:` / `if x is not None:` — on the None side `x` is no tensor at all
                    t_ = st.test
                    if isinstance(t_, ast.Compare) and isinstance(t_.left, ast.Name) and len(t_.ops) == 1 \
                            and isinstance(t_.comparators[0], ast.Constant) and t_.comparators[0].value is None:
                        if isinstance(t_.ops[0], ast.Is):
                            a1.discard(t_.left.id)
                        elif isinstance(t_.ops[0], ast.IsNot):
                            a2.discard(t_.left.id)
                    run(st.body, a1)
                    run(st.orelse, a2)
                    al.clear()
                    al.update(a1 | a2)
                elif isinstance(st, (ast.For, ast.While, ast.With, ast.Try)):
                    for blk in ("body", "orelse", "finalbody"):
                        run(getattr(st, blk, None) or [], al)
                    for h in getattr(st, "handlers", []):
                        run(h.body, al)
                elif isinstance(st, ast.Expr) and isinstance(st.value, ast.Call):
                    c = st.value
                    if isinstance(c.func, ast.Attribute) and _is_self(c.func.value, S) \
                            and c.func.attr in ("register_buffer", "register_parameter"):
                        val = _arg(c, 1, "tensor") or _arg(c, 1, "parameter")
                        nm = _arg(c, 0, "name")
                        if val is not None and nm is not None and self.may_alias(val, al):
                            for q in name_pattern(nm, {}):
                                ci.ctor_aliases.add((q, ast.unparse(val)[:80]))
        run(fn.body, set(start))

    # ------------------------------------------------------------------ module-level Module / tensor constants
    TENSOR_FACTORIES = {"torch.tensor", "torch.zeros", "torch.ones", "torch.eye", "torch.full", "torch.rand", "torch.randn",
                        "torch.arange", "torch.linspace", "torch.as_tensor", "torch.empty", "torch.nn.Parameter",
                        "torch.nn.parameter.Parameter"}

    def scan_globals(self):
        """Module-level names bound to a `torch.nn.Module` instance or a tensor (ONE object per process): a method that
        uses such a name as a default (`noise_constraint = _DEFAULT`) makes every instance share it."""
        self.module_globals = {}
        for f, t in self.pkg.trees.items():
            for n in t.body:
                if isinstance(n, (ast.Assign, ast.AnnAssign)) and isinstance(getattr(n, "value", None), ast.Call):
                    try:
                        r = self.pkg.resolve_expr(f, n.value.func)
                    except TranslateError:
                        r = None
                    kind = None
                    if r and r[0] == "cls" and (r[1], r[2]) in self.info and self.info[(r[1], r[2])].is_module:
                        kind = "module"
                    elif r and r[0] == "ext":
                        d = _canon_ext(r[1])
                        if d in self.TENSOR_FACTORIES:
                            kind = "tensor"
                        elif d.startswith("torch.nn.") and not d.startswith(("torch.nn.functional", "torch.nn.init", "torch.nn.utils")):
                            kind = "module"
                    if kind:
                        for t_ in (n.targets if isinstance(n, ast.Assign) else [n.target]):
                            if isinstance(t_, ast.Name):
                                self.module_globals[(f, t_.id)] = kind

    def scan_global_uses(self, ci):
        for mname, fns in ci.methods.items():
            for fn in fns:
                for x in ast.walk(fn):
                    if isinstance(x, ast.Name) and isinstance(x.ctx, ast.Load):
                        key = (ci.file, x.id)
                        if key not in self.module_globals:
                            e = self.pkg.imports.get(ci.file, {}).get(x.id)
                            key = (e[1], e[2]) if e and e[0] == "int" and e[2] is not None else None
                        if key in self.module_globals:
                            ci.global_uses.add((x.id, self.module_globals[key], mname))

    def light_scan(self, key):
        """members and `self.<attr>` reads of a non-Module mix-in class"""
        ci = self.info[key]
        for d in [ci.cd] + self.pkg.alts.get(key, []):
            for n in d.body:
                if isinstance(n, ast.Assign):
                    for t in n.targets:
                        if isinstance(t, ast.Name):
                            ci.members.add(t.id)
                elif isinstance(n, ast.AnnAssign) and isinstance(n.target, ast.Name):
                    ci.members.add(n.target.id)
                elif isinstance(n, (ast.FunctionDef, ast.AsyncFunctionDef, ast.ClassDef)):
                    ci.members.add(n.name)
                    if isinstance(n, ast.FunctionDef) and n.args.args and not any(
                            isinstance(x, ast.Name) and x.id in ("staticmethod", "classmethod") for x in n.decorator_list):
                        self.scan_reads(ci, n.name, n, n.args.args[0].arg)
        return ci

    def scan_getstate(self, ci, fn):
        """Vocabulary:  `self.X = None`* ; (`return self.__dict__`  |  `S = <copy of self.__dict__ or of
        super().__getstate__()>` ; `S.pop("name", None)`* ; `return S`)."""
        S = fn.args.args[0].arg
        g = {"resets": [], "drops": [], "live": False, "from_super": False}
        var = None

        def is_dict(e):
            return isinstance(e, ast.Attribute) and e.attr == "__dict__" and _is_self(e.value, S)

        def is_super_gs(e):
            return isinstance(e, ast.Call) and isinstance(e.func, ast.Attribute) and e.func.attr == "__getstate__" \
                and isinstance(e.func.value, ast.Call) and isinstance(e.func.value.func, ast.Name) \
                and e.func.value.func.id == "super" and not e.args

        def copy_src(e):
            # X.copy()  |  dict(X)
            if isinstance(e, ast.Call) and isinstance(e.func, ast.Attribute) and e.func.attr == "copy" and not e.args:
                return e.func.value
            if isinstance(e, ast.Call) and isinstance(e.func, ast.Name) and e.func.id == "dict" and len(e.args) == 1 \
                    and not e.keywords:
                return e.args[0]
            return None
        for st in fn.body:
            if isinstance(st, ast.Expr) and isinstance(st.value, ast.Constant):
                continue
            if isinstance(st, ast.Assign) and len(st.targets) == 1 and isinstance(st.targets[0], ast.Attribute) \
                    and _is_self(st.targets[0].value, S) and isinstance(st.value, ast.Constant) and st.value.value is None \
                    and var is None:
                g["resets"].append(st.targets[0].attr)
                continue
            if isinstance(st, ast.Assign) and len(st.targets) == 1 and isinstance(st.targets[0], ast.Name) and var is None:
                src = copy_src(st.value)
                if src is not None and (is_dict(src) or is_super_gs(src)):
                    var = st.targets[0].id
                    g["from_super"] = is_super_gs(src)
                    continue
            if isinstance(st, ast.Expr) and isinstance(st.value, ast.Call) and var is not None:
                c = st.value
                if isinstance(c.func, ast.Attribute) and c.func.attr == "pop" and isinstance(c.func.value, ast.Name) \
                        and c.func.value.id == var and len(c.args) == 2 and isinstance(c.args[0], ast.Constant) \
                        and isinstance(c.args[0].value, str) and isinstance(c.args[1], ast.Constant) and c.args[1].value is None:
                    g["drops"].append(c.args[0].value)
                    continue
            if isinstance(st, ast.Return):
                if var is None and is_dict(st.value):
                    g["live"] = True
                    ci.gs = g
                    return
                if var is not None and isinstance(st.value, ast.Name) and st.value.id == var:
                    ci.gs = g
                    return
            raise TranslateError(f"{ci.name}.__getstate__: statement `{ast.unparse(st)[:80]}` outside the vocabulary")
        raise TranslateError(f"{ci.name}.__getstate__ does not return")

    def scan_registrar_calls(self, key):
        ci = self.info[key]
        regs = {}
        for c in reversed(self.mro_infos(key)):
            regs.update(c.registrars)
        api = {"register_parameter", "register_buffer", "register_prior", "register_constraint", "add_module",
               "register_added_loss_term"}
        for mname, fns in ci.methods.items():
            for fn in fns:
                if not fn.args.args:
                    continue
                S = fn.args.args[0].arg
                for n in ast.walk(fn):
                    if isinstance(n, ast.Call) and isinstance(n.func, ast.Attribute) and _is_self(n.func.value, S) \
                            and n.func.attr in regs and n.func.attr not in api:
                        for kind, tmpl in regs[n.func.attr]:
                            outs = [tmpl]
                            for i in range(8):
                                ph = "{%d}" % i
                                if ph in tmpl:
                                    if i >= len(n.args):
                                        raise TranslateError(f"{ci.name}.{mname}: registrar call without positional name")
                                    alts = name_pattern(n.args[i], {})
                                    outs = [o.replace(ph, a) for o in outs for a in alts]
                            for o in outs:
                                ci.regs.append((kind, re.sub(r"\*+", "*", o), mname == "__init__"))

    def scan_clear_cache(self, ci, fn):
        S = fn.args.args[0].arg
        for st in fn.body:
            if isinstance(st, ast.Pass) or (isinstance(st, ast.Expr) and isinstance(st.value, ast.Constant)):
                continue
            if isinstance(st, ast.If) and not st.orelse and isinstance(st.test, ast.Call) \
                    and isinstance(st.test.func, ast.Name) and st.test.func.id == "hasattr" \
                    and _is_self(st.test.args[0], S) and isinstance(st.test.args[1], ast.Constant) \
                    and len(st.body) == 1 and isinstance(st.body[0], ast.Delete) \
                    and len(st.body[0].targets) == 1 and isinstance(st.body[0].targets[0], ast.Attribute) \
                    and _is_self(st.body[0].targets[0].value, S) \
                    and st.body[0].targets[0].attr == st.test.args[1].value:
                ci.clears.add(st.test.args[1].value)
                continue
            if isinstance(st, ast.Assign) and len(st.targets) == 1 and isinstance(st.targets[0], ast.Attribute) \
                    and _is_self(st.targets[0].value, S) and isinstance(st.value, ast.Constant) and st.value.value is None:
                ci.clears.add(st.targets[0].attr)
                continue
            if isinstance(st, ast.Expr) and isinstance(st.value, ast.Call):
                c = st.value
                if isinstance(c.func, ast.Name) and c.func.id == "clear_cache_hook" and len(c.args) == 1 and _is_self(c.args[0], S):
                    ci.clears.add("_memoize_cache")
                    continue
                if isinstance(c.func, ast.Attribute) and c.func.attr == "_clear_cache" and isinstance(c.func.value, ast.Call) \
                        and isinstance(c.func.value.func, ast.Name) and c.func.value.func.id == "super":
                    ci.clear_calls_super = True
                    continue
            raise TranslateError(f"{ci.name}._clear_cache: statement `{ast.unparse(st)[:80]}` outside the vocabulary")

    # ------------------------------------------------------------------ facts about the generic mechanisms
    def _find_class(self, relfile, name):
        for (f, n), ci in self.info.items():
            if n == name and self.pkg.rel(f) == relfile:
                return ci
        raise TranslateError(f"class {name} not found in {relfile}")

    @staticmethod
    def _calls_self(fn, meth):
        S = fn.args.args[0].arg
        for n in ast.walk(fn):
            if isinstance(n, ast.Call) and isinstance(n.func, ast.Attribute) and n.func.attr == meth and _is_self(n.func.value, S):
                return True
        return False

    def scan_facts(self):
        M = self._find_class("gpytorch/module.py", "Module")
        F = self.facts
        ld = M.methods.get("_load_from_state_dict")
        F["loadCallsClear"] = False
        F["loadDelegates"] = False
        if ld:
            fn = ld[-1]
            # the call must be an unconditional top-level statement that precedes the delegation to super()
            idx_clear = idx_super = None
            for i, st in enumerate(fn.body):
                if isinstance(st, ast.Expr) and isinstance(st.value, ast.Call):
                    c = st.value
                    if isinstance(c.func, ast.Attribute) and c.func.attr == "_clear_cache" and _is_self(c.func.value, fn.args.args[0].arg):
                        idx_clear = i if idx_clear is None else idx_clear
                    if isinstance(c.func, ast.Attribute) and c.func.attr == "_load_from_state_dict" \
                            and isinstance(c.func.value, ast.Call) and isinstance(c.func.value.func, ast.Name) \
                            and c.func.value.func.id == "super":
                        idx_super = i
            F["loadCallsClear"] = idx_clear is not None
            F["loadDelegates"] = idx_super is not None
        rp = M.methods.get("register_prior")
        F["registerPriorLocalClosures"] = bool(rp and any(
            isinstance(x, ast.FunctionDef) and x is not rp[-1] for x in ast.walk(rp[-1])))
        tr = M.methods.get("train")
        F["trainCallsClear"] = bool(tr and self._calls_self(tr[-1], "_clear_cache"))
        # Kernel.__getstate__: `self.<f> = None; return self.__dict__`
        K = self._find_class("gpytorch/kernels/kernel.py", "Kernel")
        F["kernelGetstateResets"] = list(K.gs["resets"]) if K.gs else []
        F["kernelGetstateReturnsDict"] = bool(K.gs and K.gs["live"] and not K.gs["drops"])
        ss = K.methods.get("__setstate__")
        F["kernelSetstateAssignsDict"] = False
        if ss:
            fn = ss[-1]
            body = [s for s in fn.body if not (isinstance(s, ast.Expr) and isinstance(s.value, ast.Constant))]
            if len(body) == 1 and isinstance(body[0], ast.Assign) and isinstance(body[0].targets[0], ast.Attribute) \
                    and body[0].targets[0].attr == "__dict__" and isinstance(body[0].value, ast.Name) \
                    and body[0].value.id == fn.args.args[1].arg:
                F["kernelSetstateAssignsDict"] = True
            else:
                raise TranslateError("Kernel.__setstate__ outside the vocabulary")
        # DefaultPredictionStrategy.__deepcopy__ -> None
        for (f, n), ci in self.info.items():
            pass
        ps = None
        for (f, n), cd in self.pkg.classes.items():
            if n == "DefaultPredictionStrategy":
                ps = cd
        F["strategyDeepcopyNone"] = False
        if ps is not None:
            for n in ps.body:
                if isinstance(n, ast.FunctionDef) and n.name == "__deepcopy__":
                    body = [s for s in n.body if not (isinstance(s, ast.Expr) and isinstance(s.value, ast.Constant))]
                    if all(isinstance(s, ast.Pass) or (isinstance(s, ast.Return) and (s.value is None or
                           (isinstance(s.value, ast.Constant) and s.value.value is None))) for s in body):
                        F["strategyDeepcopyNone"] = True
                    # any other body (it returns some object) is in the vocabulary as "does not return None": the fact
                    # stays false and `caches_guarded_on_copy` fails, while the class table stays available to the harness

    # ------------------------------------------------------------------ run / emit
    def run(self):
        self.build_graph()
        self.scan_helpers()
        self.keys = sorted((k for k, ci in self.info.items() if ci.is_module),
                           key=lambda k: (self.info[k].name, self.pkg.rel(k[0])))
        names = [self.info[k].name for k in self.keys]
        dup = sorted({n for n in names if names.count(n) > 1})
        # same-named Module classes in different files get a file-qualified name
        self.cname = {}
        for k in self.keys:
            n = self.info[k].name
            if n in dup:
                q = os.path.splitext(self.pkg.rel(k[0]))[0].replace(os.sep, "_").replace("gpytorch_", "")
                n = f"{n}__{q}"
            self.cname[k] = n
        if len(set(self.cname.values())) != len(self.keys):
            raise TranslateError("class naming collision")
        for k in self.keys:
            self.scan_class(k)
        for k in self.keys:
            self.scan_registrar_calls(k)
        self.scan_globals()
        for k in self.keys:
            self.scan_global_uses(self.info[k])
        # mix-in classes of the package that are not nn.Modules themselves (`_PyroMixin`, `GP`-side ABCs …): their
        # methods run on the Module instance, so their members and `self.<attr>` reads count as the Module class's own
        self._light = {}
        for k in self.keys:
            for b in self.mro(k):
                if not self.info[b].is_module and b not in self._light:
                    self._light[b] = self.light_scan(b)
        self.scan_facts()
        # every global setting that any code of the package (Module class or not: prediction strategies, distributions,
        # lazy tensors, functions) consults — the settings phase of the correspondence must exercise each of them
        self.settings_anywhere = set()
        for f, t in self.pkg.trees.items():
            if os.path.dirname(f) == self.pkg.root and os.path.basename(f) in ("settings.py", "beta_features.py", "__init__.py"):
                continue
            for x in ast.walk(t):
                if isinstance(x, (ast.Attribute, ast.Name)):
                    s_ = self.setting_of(f, x)
                    if s_ is not None and not s_.startswith("_") or s_ == "_linalg_dtype_cholesky":
                        self.settings_anywhere.add(s_)
        # read side: own `self.<attr>` loads outside the constructor (mix-ins folded in)
        for k in self.keys:
            ci = self.info[k]
            mixins = [self.info[b] for m_ in ci.bases if not self.info[m_].is_module for b in self.mro(m_)
                      if not self.info[b].is_module]
            ci.mixins = mixins
            ci.own_reads = ci.own_reads_all().union(*[m_.own_reads_all() for m_ in mixins])
            ci.members = ci.members.union(*[m_.members for m_ in mixins])
            ci.dyn_reads = ci.dyn_reads.union(*[m_.dyn_reads for m_ in mixins])
        # effective tables
        for k in self.keys:
            ci = self.info[k]
            chain = [self.info[b] for b in self.mro(k) if self.info[b].is_module]
            regnames = {}
            for c in chain:
                for kind, q, _ in c.regs:
                    if q != "*":        # a registrar API (`add_module(name, …)`): says nothing about a concrete name
                        regnames.setdefault(q, kind)
            props = set().union(*[c.props for c in self.mro_infos(k)])
            ci.persisted_writes = set()
            for a in sorted(ci.mut_attrs):
                if a in props:
                    ci.mut_attrs.discard(a)       # a property setter call, not an attribute
                    continue
                if any(_match(q, a) for q in regnames):
                    ci.persisted_writes.add(a)
                    ci.mut_attrs.discard(a)
            for a in sorted(ci.init_attrs):
                if a in props or any(_match(q, a) for q in regnames):
                    ci.init_attrs.discard(a)
            # effective clears (own + inherited through super()/no override)
            eff = set()
            for c in chain:
                if "_clear_cache" in c.methods:
                    eff |= c.clears
                    if not c.clear_calls_super:
                        break
            ci.eff_clears = eff
            ci.eff_mut = set().union(*[c.mut_attrs for c in chain])
            ci.eff_hooks = set().union(*[c.hooks | c.hook_calls for c in chain])
            # what the effective __getstate__ leaves out of the copied state
            drops = set()
            for c in chain:
                if c.gs is not None:
                    drops |= set(c.gs["drops"])
                    if not c.gs["from_super"]:
                        break
            ci.eff_drops = drops
            ci.gp = any(self.pkg.rel(c.file) == "gpytorch/module.py" and c.name == "Module" for c in chain)
            ci.writers = {a: w for a, w in ci.writers.items() if a in ci.mut_attrs}
            # loads through another parameter (`m.lengthscale` with `m is self` in prior closures) count as reads of the
            # class when the name is one the class knows (registered / assigned / member of its MRO)
            known = set(regnames) | set().union(*[c.init_attrs | c.mut_attrs | c.members for c in chain])
            al = set().union(*[r for m, r in ci.alias_reads.items() if m != "__init__"]) if ci.alias_reads else set()
            ci.own_reads |= {a for a in al if a in known}
            # read side: own `self.<attr>` loads outside the constructor; which registered patterns cover them
            ci.covers = {(q, a) for c in chain for a in c.own_reads for q in regnames
                         if ("*" in q or "#" in q) and q != "*" and a != q and _match(q, a)}
        self.foreign = {a for a in self.foreign if not (a.startswith("__") and a.endswith("__"))}
        return self

    def mro_infos(self, key):
        return [self.info[b] for b in self.mro(key)]

    def emit(self):
        T = self
        keys = self.keys
        cid = {k: i for i, k in enumerate(keys)}
        allnames = set()
        for k in keys:
            ci = self.info[k]
            allnames |= {q for _, q, _ in ci.regs} | ci.init_attrs | ci.mut_attrs | ci.persisted_writes | ci.memo \
                | ci.clears | ci.eff_clears | ci.eff_mut | ci.eff_drops | ci.lambda_priors
            allnames |= ci.own_reads | ci.members | ci.dyn_reads | {m for w in ci.writers.values() for m, _ in w} \
                | {a for a, _, _ in ci.settings_stores} | {a for a, _ in ci.ctor_aliases} | {a for a, _, _ in ci.global_uses}
        owned = set()
        for k in keys:
            owned |= self.info[k].init_attrs | self.info[k].mut_attrs
        foreign = sorted(a for a in self.foreign if a in owned)
        allnames |= set(foreign) | set(self.facts["kernelGetstateResets"])
        names = sorted(allnames)
        nid = {n: i for i, n in enumerate(names)}
        hooks = HOOKS + HOOK_CALLS
        hid = {h: i for i, h in enumerate(hooks)}
        kinds = {k: i for i, k in enumerate(REG_KINDS)}

        def L(xs):
            return "[" + ", ".join(str(x) for x in xs) + "]"

        def q(s):
            return '"' + s.replace("\\", "\\\\").replace('"', '\\"') + '"'
        b_ = lambda x: "true" if x else "false"   # noqa: E731
        out = ["/- GENERATED by harness/translate/g2_persistence.py from the working tree — do not edit. -/",
               "import GPVerif.Model.Persist", "", "namespace Gen.Persistence", "open _root_.Persist", ""]
        out.append("def names : List String := [" + ", ".join(q(n) for n in names) + "]")
        out.append("def clsNames : List String := [" + ", ".join(q(self.cname[k]) for k in keys) + "]")
        out.append("def clsFiles : List String := [" + ", ".join(q(self.pkg.rel(k[0])) for k in keys) + "]")
        out.append("def hookNames : List String := [" + ", ".join(q(h) for h in hooks) + "]")
        out.append("def regKindNames : List String := [" + ", ".join(q(h) for h in REG_KINDS) + "]")
        out.append("")
        rows = []
        for k in keys:
            ci = self.info[k]
            regs = sorted({(kinds[kind], nid[nm], 1 if ini else 0) for kind, nm, ini in ci.regs})
            row = (f"  {{ id := {cid[k]}, bases := {L(cid[b] for b in ci.bases if b in cid)}, mro := {L(cid[b] for b in self.mro(k) if b in cid)}, gp := {'true' if ci.gp else 'false'},\n"
                   f"    regs := [{', '.join(f'({a}, {b}, {('true' if c else 'false')})' for a, b, c in regs)}],\n"
                   f"    initAttrs := {L(sorted(nid[a] for a in ci.init_attrs))},\n"
                   f"    mutAttrs := {L(sorted(nid[a] for a in ci.mut_attrs))},\n"
                   f"    effMut := {L(sorted(nid[a] for a in ci.eff_mut))},\n"
                   f"    persistedWrites := {L(sorted(nid[a] for a in ci.persisted_writes))},\n"
                   f"    memo := {L(sorted(nid[a] for a in ci.memo))},\n"
                   f"    hooks := {L(sorted(hid[h] for h in ci.hooks | ci.hook_calls))},\n"
                   f"    effHooks := {L(sorted(hid[h] for h in ci.eff_hooks))},\n"
                   f"    copyDrops := {L(sorted(nid[a] for a in ci.eff_drops))},\n"
                   f"    lambdaPriors := {L(sorted(nid[a] for a in ci.lambda_priors))},\n"
                   f"    clears := {L(sorted(nid[a] for a in ci.eff_clears))} }}")
            rows.append(row)
        out.append("def classes : List ClassRow := [\n" + ",\n".join(rows) + "]\n")
        out.append("/-- attribute names of Module classes that are also written from outside the owning object -/")
        out.append("def foreignWrites : List Nat := " + L(nid[a] for a in foreign) + "\n")
        # ---- writers / settings / reads (wave 3)
        wk = {k_: i for i, k_ in enumerate(self.WRITER_KINDS)}
        out.append("def writerKindNames : List String := [" + ", ".join(q(h) for h in self.WRITER_KINDS) + "]")
        out.append("/-- who writes a plain attribute outside `__init__`: `(class, attribute, method, writer kind)` -/")
        wr = sorted((cid[k], nid[a], nid[m], wk[kd]) for k in keys for a, w in self.info[k].writers.items() for m, kd in w)
        out.append("def attrWriters : List (Nat × Nat × Nat × Nat) := [" + ", ".join(f"({a}, {b}, {c}, {d})" for a, b, c, d in wr) + "]\n")
        settings = sorted({s_ for k in keys for ss in self.info[k].settings_reads.values() for s_ in ss}
                          | {s_ for k in keys for _, s_, _ in self.info[k].settings_stores} | self.settings_anywhere)
        sid = {s_: i for i, s_ in enumerate(settings)}
        out.append("def settingNames : List String := [" + ", ".join(q(h) for h in settings) + "]")
        out.append("/-- global settings consulted by methods other than `__init__` of Module classes: `(class, setting)` -/")
        sr = sorted({(cid[k], sid[s_]) for k in keys for m, ss in self.info[k].settings_reads.items() if m != "__init__" for s_ in ss})
        out.append("def settingsReads : List (Nat × Nat) := [" + ", ".join(f"({a}, {b})" for a, b in sr) + "]")
        out.append("/-- every global setting consulted anywhere in the package outside settings.py (Module class or not) -/")
        out.append("def settingsReadAnywhere : List Nat := " + L(sorted(sid[s_] for s_ in self.settings_anywhere)))
        out.append("/-- `self.<attr> = <expression that mentions a global setting>` (directly or through a local):\n"
                   "`(class, attribute, setting, in __init__)` -/")
        st = sorted({(cid[k], nid[a], sid[s_], ini) for k in keys for a, s_, ini in self.info[k].settings_stores})
        out.append("def settingsStores : List (Nat × Nat × Nat × Bool) := [" +
                   ", ".join(f"({a}, {b}, {c}, {b_(d)})" for a, b, c, d in st) + "]\n")
        out.append("/-- parameters / buffers registered in `__init__` from an expression that MAY SHARE STORAGE with a constructor\n"
                   "argument (no `.clone()` on the way; views, indexing, `as_tensor`, `nn.Parameter(x)` keep the storage):\n"
                   "`(class, registered name)` -/")
        ca = sorted({(cid[k], nid[a]) for k in keys for a, _ in self.info[k].ctor_aliases})
        out.append("def ctorArgAliases : List (Nat × Nat) := [" + ", ".join(f"({a}, {b})" for a, b in ca) + "]\n")
        out.append("/-- module-level names bound to ONE `torch.nn.Module` instance (kind 0) or tensor (kind 1) per process that a\n"
                   "method of the class uses (e.g. as the default of a constructor argument): `(class, global name, kind)` -/")
        gu = sorted({(cid[k], nid[a], 0 if kd == "module" else 1) for k in keys for a, kd, _ in self.info[k].global_uses})
        out.append("def ctorGlobalDefaults : List (Nat × Nat × Nat) := [" + ", ".join(f"({a}, {b}, {c})" for a, b, c in gu) + "]\n")
        out.append("/-- `self.<attr>` loads in the class's OWN methods other than `__init__` (attribute loads, augmented\n"
                   "assignments, `getattr/hasattr(self, \"c\")`, `self.__dict__[\"c\"]`), indexed by class id -/")
        out.append("def ownReads : List (List Nat) := [\n" + ",\n".join("  " + L(sorted(nid[a] for a in self.info[k].own_reads)) for k in keys) + "]\n")
        out.append("/-- methods, properties and class-level names of the class (code, not instance state), by class id -/")
        out.append("def ownMembers : List (List Nat) := [\n" + ",\n".join("  " + L(sorted(nid[a] for a in self.info[k].members)) for k in keys) + "]\n")
        out.append("/-- `(registered name pattern, concrete read name)` pairs the translator matched (`grid_#` ~ `grid_0`) -/")
        cv = sorted({(nid[q_], nid[a]) for k in keys for q_, a in self.info[k].covers})
        out.append("def covers : List (Nat × Nat) := [" + ", ".join(f"({a}, {b})" for a, b in cv) + "]")
        out.append("/-- methods that read `self` under a COMPUTED name (`getattr(self, e)`, `vars(self)`, `self.__dict__[e]`): `(class, method)` -/")
        dr = sorted((cid[k], nid[m]) for k in keys for m in self.info[k].dyn_reads)
        out.append("def dynReads : List (Nat × Nat) := [" + ", ".join(f"({a}, {b})" for a, b in dr) + "]\n")
        F = self.facts
        b = lambda x: "true" if x else "false"
        out.append("/-- `Module._load_from_state_dict` calls `self._clear_cache()` unconditionally, then delegates to torch -/")
        out.append(f"def loadCallsClear : Bool := {b(F['loadCallsClear'])}")
        out.append(f"def loadDelegates : Bool := {b(F['loadDelegates'])}")
        out.append(f"def trainCallsClear : Bool := {b(F['trainCallsClear'])}")
        out.append("/-- `Module.register_prior(name, prior, \"param\")` builds its closures as local functions (unpicklable) -/")
        out.append(f"def registerPriorLocalClosures : Bool := {b(F['registerPriorLocalClosures'])}")
        out.append("/-- `Kernel.__getstate__` = reset these fields to None, return `self.__dict__` (nothing dropped) -/")
        out.append("def kernelGetstateResets : List Nat := " + L(nid[a] for a in F["kernelGetstateResets"]))
        out.append(f"def kernelGetstateReturnsDict : Bool := {b(F['kernelGetstateReturnsDict'])}")
        out.append(f"def kernelSetstateAssignsDict : Bool := {b(F['kernelSetstateAssignsDict'])}")
        out.append(f"def strategyDeepcopyNone : Bool := {b(F['strategyDeepcopyNone'])}")
        out.append("")
        for k in keys:
            out.append(f"abbrev cid_{_ident(self.cname[k])} : Nat := {cid[k]}")
        for n in names:
            if re.fullmatch(r"\w+", n):
                out.append(f"abbrev aid_{n} : Nat := {nid[n]}")
            elif n == "*":
                out.append(f"abbrev aid_STAR : Nat := {nid[n]}")
        for h in hooks:
            out.append(f"abbrev hid_{h} : Nat := {hid[h]}")
        for s_ in settings:
            out.append(f"abbrev sid_{_ident(s_)} : Nat := {sid[s_]}")
        for i, k_ in enumerate(self.WRITER_KINDS):
            out.append(f"abbrev wk_{k_} : Nat := {i}")
        out.append("\nend Gen.Persistence")
        self.nid, self.cid_of, self.names = nid, cid, names
        return "\n".join(out) + "\n"

    # ------------------------------------------------------------------ Python view (for the harness)
    def table(self):
        """name -> dict for every Module class (keyed by emitted class name)."""
        res = {}
        for k in self.keys:
            ci = self.info[k]
            chain = [self.info[b] for b in self.mro(k) if self.info[b].is_module]
            res[self.cname[k]] = {
                "id": self.cid_of[k], "file": self.pkg.rel(k[0]), "pyname": ci.name,
                "bases": [self.cname[b] for b in ci.bases if b in self.cid_of],
                "mro": [self.cname[b] for b in self.mro(k) if b in self.cid_of],
                "regs": sorted(set(ci.regs)),
                "eff_regs": sorted({r for c in chain for r in c.regs}),
                "init_attrs": sorted(ci.init_attrs), "mut_attrs": sorted(ci.mut_attrs),
                "eff_init_attrs": sorted(set().union(*[c.init_attrs for c in chain])),
                "eff_mut_attrs": sorted(ci.eff_mut),
                "persisted_writes": sorted(ci.persisted_writes),
                "memo": sorted(set().union(*[c.memo for c in chain])),
                "hooks": sorted(ci.hooks | ci.hook_calls),
                "eff_hooks": sorted(set().union(*[c.hooks | c.hook_calls for c in chain])),
                "lambda_priors": sorted(ci.lambda_priors),
                "clears": sorted(ci.eff_clears), "copy_drops": sorted(ci.eff_drops), "gp": ci.gp,
                # some class of the MRO derives from a class outside the package that is not an nn.Module
                # (torch.distributions …): its instances carry attributes the translator cannot see
                "foreign_base": any(any(e not in NN_ROOTS for e in self.info[b].ext_bases) for b in self.mro(k)),
                # read side (own methods; the harness unites them over the MRO)
                "reads": {m: sorted(set(r).union(*[x.reads.get(m, set()) for x in ci.mixins]))
                          for m, r in list(ci.reads.items()) + [(m, set()) for x in ci.mixins for m in x.reads]},
                "alias_reads": {m: sorted(r) for m, r in ci.alias_reads.items()},
                "dyn_reads": sorted(ci.dyn_reads), "members": sorted(ci.members),
                "writers": {a: sorted(w) for a, w in ci.writers.items()},
                "settings_reads": {m: sorted(r) for m, r in ci.settings_reads.items()},
                "settings_stores": sorted(ci.settings_stores), "ctor_aliases": sorted(ci.ctor_aliases),
                "global_uses": sorted(ci.global_uses),
            }
        return res


def _ident(s):
    return re.sub(r"\W", "_", s)


def _match(pat, name):
    """Does the registered-name pattern `pat` (`*` = anything, `#` = digits) cover `name` (which may itself be a
    pattern, when the write is computed: then the two must be the same pattern up to the wildcard kind)?"""
    if "*" in name or "#" in name:
        return pat.replace("#", "*") == name.replace("#", "*")
    if "*" not in pat and "#" not in pat:
        return pat == name
    rx = "".join(".*" if c == "*" else r"\d+" if c == "#" else re.escape(c) for c in pat)
    return re.fullmatch(rx, name) is not None


def _write(path, text):
    old = open(path).read() if os.path.exists(path) else None
    if old != text:
        os.makedirs(os.path.dirname(path), exist_ok=True)
        with open(path, "w") as fh:
            fh.write(text)
    return old != text


def generate(repo, out_path):
    tr = Translator(repo).run()
    text = tr.emit()
    changed = _write(out_path, text)
    return tr, changed


if __name__ == "__main__":
    import sys
    repo = sys.argv[1] if len(sys.argv) > 1 else os.environ.get("VERIF_REPO", "/repo")
    out = sys.argv[2] if len(sys.argv) > 2 else os.path.join(os.path.dirname(os.path.abspath(__file__)),
                                                             "../../lean/GPVerif/Gen/Persistence.lean")
    tr, changed = generate(repo, os.path.abspath(out))
    tab = tr.table()
    print(f"{len(tab)} Module classes, {len(tr.names)} names, changed={changed}")
    for n, d in tab.items():
        if d["mut_attrs"] or d["persisted_writes"] or any(not r[2] for r in d["regs"]):
            print(f"  {n}: mut={d['mut_attrs']} pwrites={d['persisted_writes']} lazy={[r for r in d['regs'] if not r[2]]}")
    print("foreign:", sorted(a for a in tr.foreign))

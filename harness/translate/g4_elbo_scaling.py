"""G4 (ELBO part) — Python-AST -> Lean translator for the scaling expressions of the variational objectives.

Reads `$VERIF_REPO/gpytorch/mlls/_approximate_mll.py` (`_ApproximateMarginalLogLikelihood.forward`),
`variational_elbo.py` / `predictive_log_likelihood.py` (`_log_likelihood_term`) and `optim/ngd.py` (`NGD.step`)
and emits `GPVerif/Gen/ElboScaling.lean`: the *expressions the code evaluates* as Lean functions over a field:

    logLikelihood   (llTerm numBatch)                     <- `self._log_likelihood_term(...).div(num_batch)`
    klTerm          (kl numData beta)                     <- `….kl_divergence().div(self.num_data / self.beta)`
    logPriorItem    (lp numData)                          <- `log_prior.add_(prior.log_prob(closure(module)).sum().div(self.num_data))`
    addedLossItem   (loss)                                <- `added_loss.add_(added_loss_term.loss())`
    combine         (logLikelihood klDivergence logPrior addedLoss)   <- the `return` expression (combine_terms=True)
    ngdStep         (p grad lr numData)                   <- `p.add_(p.grad, alpha=(-group["lr"] * self.num_data))`

plus the per-objective facts `elboTerm`/`pllTerm` (which likelihood method is summed, over which axis).
Anything outside this vocabulary raises `TranslateError` (a broken tie, never silently skipped).
"""
import ast
import os


class TranslateError(Exception):
    pass


# sub-expressions of the forward() body that are *atoms* of the scaling algebra
ATOMS = {
    "self._log_likelihood_term(approximate_dist_f, target, **kwargs)": "llTerm",
    "self.model.variational_strategy.kl_divergence()": "kl",
    "added_loss_term.loss()": "loss",
    "prior.log_prob(closure(module)).sum()": "lp",
    "self.num_data": "numData",
    "self.beta": "beta",
    "num_batch": "numBatch",
    "log_likelihood": "logLikelihood",
    "kl_divergence": "klDivergence",
    "log_prior": "logPrior",
    "added_loss": "addedLoss",
    "p": "p",
    "p.grad": "grad",
    "group['lr']": "lr",
}
# the per-batch-element reduction of a prior's log-density (sum over the non-batch dimensions only), written with a
# loop-local variable in the source; after substitution of the local it reads as below
_LP_PER_BATCH = ("prior.log_prob(closure(module)).view(*prior.log_prob(closure(module)).shape[:log_likelihood.ndim], -1)"
                 ".sum(dim=-1)")
ATOMS[ast.unparse(ast.parse(_LP_PER_BATCH, mode="eval").body)] = "lp"
LP_FORMS = {"prior.log_prob(closure(module)).sum()": "total",
            ast.unparse(ast.parse(_LP_PER_BATCH, mode="eval").body): "per_batch_element"}

BIN = {ast.Add: "+", ast.Sub: "-", ast.Mult: "*", ast.Div: "/"}
METH = {"div": "/", "mul": "*", "add": "+", "sub": "-"}


def expr(node):
    """Python expression -> Lean term (fully parenthesised)."""
    src = ast.unparse(node)
    if src in ATOMS:
        return ATOMS[src]
    if isinstance(node, ast.BinOp) and type(node.op) in BIN:
        return f"({expr(node.left)} {BIN[type(node.op)]} {expr(node.right)})"
    if isinstance(node, ast.UnaryOp) and isinstance(node.op, ast.USub):
        return f"(-{expr(node.operand)})"
    if isinstance(node, ast.Call) and isinstance(node.func, ast.Attribute) and node.func.attr in METH \
            and len(node.args) == 1 and not node.keywords:
        return f"({expr(node.func.value)} {METH[node.func.attr]} {expr(node.args[0])})"
    if isinstance(node, ast.Constant) and isinstance(node.value, (int, float)) and float(node.value).is_integer():
        return f"({int(node.value)} : α)"
    raise TranslateError(f"expression outside the vocabulary: {src}")


def _find_class(tree, name):
    for n in tree.body:
        if isinstance(n, ast.ClassDef) and n.name == name:
            return n
    raise TranslateError(f"class {name} not found")


def _find_method(cls, name):
    for n in cls.body:
        if isinstance(n, ast.FunctionDef) and n.name == name:
            return n
    raise TranslateError(f"method {cls.name}.{name} not found")


def _assign_of(fn, target):
    for st in fn.body:
        if isinstance(st, ast.Assign) and len(st.targets) == 1 and ast.unparse(st.targets[0]) == target:
            return st.value
    raise TranslateError(f"assignment to {target} not found in {fn.name}")


def _accumulated(fn, acc):
    """`acc = torch.zeros_like(log_likelihood)` followed by one `for` whose body does `acc.add_(E)`: returns E."""
    init = _assign_of(fn, acc)
    if ast.unparse(init) != "torch.zeros_like(log_likelihood)":
        raise TranslateError(f"{acc} is not initialised by zeros_like(log_likelihood): {ast.unparse(init)}")
    found = []
    for st in fn.body:
        if isinstance(st, ast.For):
            env = {}          # loop-local single assignments `name = expr`, substituted into later uses

            class Sub(ast.NodeTransformer):
                def visit_Name(self, node):
                    import copy
                    return copy.deepcopy(env[node.id]) if node.id in env else node
            for b in st.body:
                if isinstance(b, ast.Assign) and len(b.targets) == 1 and isinstance(b.targets[0], ast.Name) \
                        and ast.unparse(b) != "had_added_losses = True":
                    import copy
                    env[b.targets[0].id] = Sub().visit(copy.deepcopy(b.value))
                    continue
                if isinstance(b, ast.Expr) and isinstance(b.value, ast.Call) and isinstance(b.value.func, ast.Attribute) \
                        and b.value.func.attr == "add_" and ast.unparse(b.value.func.value) == acc:
                    import copy
                    b = ast.Expr(value=ast.Call(func=b.value.func, args=[Sub().visit(copy.deepcopy(a)) for a in b.value.args],
                                                keywords=b.value.keywords))
                    ast.fix_missing_locations(b)
                if isinstance(b, ast.Expr) and isinstance(b.value, ast.Call) and isinstance(b.value.func, ast.Attribute) \
                        and b.value.func.attr == "add_" and ast.unparse(b.value.func.value) == acc:
                    if len(b.value.args) != 1 or b.value.keywords:
                        raise TranslateError(f"{acc}.add_ with unexpected arguments")
                    found.append(b.value.args[0])
                elif isinstance(b, ast.Assign) and ast.unparse(b) == "had_added_losses = True":
                    continue
                elif any(acc in ast.unparse(x) for x in ast.walk(b) if isinstance(x, ast.Name) and x.id == acc):
                    raise TranslateError(f"unexpected use of {acc}: {ast.unparse(b)}")
    # any other write to acc outside the loops breaks the tie
    for st in fn.body:
        if isinstance(st, (ast.AugAssign,)) and ast.unparse(st.target) == acc:
            raise TranslateError(f"augmented assignment to {acc}")
    if len(found) != 1:
        raise TranslateError(f"expected exactly one accumulation into {acc}, found {len(found)}")
    return found[0]


def _combined_return(fn):
    for st in ast.walk(fn):
        if isinstance(st, ast.If) and ast.unparse(st.test) == "self.combine_terms":
            if len(st.body) == 1 and isinstance(st.body[0], ast.Return):
                return st.body[0].value
    raise TranslateError("`if self.combine_terms: return …` not found")


def _check_uncombined_returns(fn):
    """`combine_terms=False`: the separately returned terms must be exactly the variables the combined value is built
    from, in the documented order (so that what the theorems say about `klTerm` … is what the caller receives)."""
    want = [["log_likelihood", "kl_divergence", "log_prior", "added_loss"], ["log_likelihood", "kl_divergence", "log_prior"]]
    got = []
    for st in ast.walk(fn):
        if isinstance(st, ast.If) and ast.unparse(st.test) == "self.combine_terms":
            for r in ast.walk(ast.Module(body=st.orelse, type_ignores=[])):
                if isinstance(r, ast.Return):
                    if not isinstance(r.value, ast.Tuple) or not all(isinstance(e, ast.Name) for e in r.value.elts):
                        raise TranslateError(f"combine_terms=False return is not a tuple of variables: {ast.unparse(r)}")
                    got.append([e.id for e in r.value.elts])
    if sorted(got) != sorted(want):
        raise TranslateError(f"combine_terms=False returns {got}, expected {want}")


def _term(repo, fname, cls):
    tree = ast.parse(open(os.path.join(repo, "gpytorch", "mlls", fname)).read())
    fn = _find_method(_find_class(tree, cls), "_log_likelihood_term")
    rets = [s for s in fn.body if isinstance(s, ast.Return)]
    if len(rets) != 1:
        raise TranslateError(f"{cls}._log_likelihood_term: expected a single return")
    v = rets[0].value
    # self.likelihood.<method>(target, dist, **kwargs).sum(-1)
    if not (isinstance(v, ast.Call) and isinstance(v.func, ast.Attribute) and v.func.attr == "sum"
            and len(v.args) == 1 and ast.unparse(v.args[0]) == "-1"):
        raise TranslateError(f"{cls}._log_likelihood_term is not `<per-point terms>.sum(-1)`: {ast.unparse(v)}")
    inner = v.func.value
    if not (isinstance(inner, ast.Call) and isinstance(inner.func, ast.Attribute)
            and ast.unparse(inner.func.value) == "self.likelihood"):
        raise TranslateError(f"{cls}._log_likelihood_term does not call self.likelihood.<method>: {ast.unparse(inner)}")
    return inner.func.attr


def translate(repo):
    tree = ast.parse(open(os.path.join(repo, "gpytorch", "mlls", "_approximate_mll.py")).read())
    fwd = _find_method(_find_class(tree, "_ApproximateMarginalLogLikelihood"), "forward")
    nb = ast.unparse(_assign_of(fwd, "num_batch"))
    if nb != "approximate_dist_f.event_shape[0]":
        raise TranslateError(f"num_batch is not the number of points of q(f): {nb}")
    ll = expr(_assign_of(fwd, "log_likelihood"))
    kl = expr(_assign_of(fwd, "kl_divergence"))
    lp_node = _accumulated(fwd, "log_prior")
    lp = expr(lp_node)
    lp_form = next((v for k, v in LP_FORMS.items() if k in ast.unparse(lp_node)), None)
    if lp_form is None:
        raise TranslateError(f"log-prior reduction not recognised: {ast.unparse(lp_node)}")
    al = expr(_accumulated(fwd, "added_loss"))
    comb = expr(_combined_return(fwd))
    _check_uncombined_returns(fwd)
    elbo_m = _term(repo, "variational_elbo.py", "VariationalELBO")
    pll_m = _term(repo, "predictive_log_likelihood.py", "PredictiveLogLikelihood")
    # NGD.step
    tree = ast.parse(open(os.path.join(repo, "gpytorch", "optim", "ngd.py")).read())
    step = _find_method(_find_class(tree, "NGD"), "step")
    upd = [n for n in ast.walk(step) if isinstance(n, ast.Call) and isinstance(n.func, ast.Attribute)
           and n.func.attr == "add_" and ast.unparse(n.func.value) == "p"]
    if len(upd) != 1:
        raise TranslateError("NGD.step: expected exactly one p.add_")
    u = upd[0]
    if len(u.args) != 1 or ast.unparse(u.args[0]) != "p.grad" or [k.arg for k in u.keywords] != ["alpha"]:
        raise TranslateError(f"NGD.step update outside vocabulary: {ast.unparse(u)}")
    alpha = expr(u.keywords[0].value)
    ngd = f"(p + ({alpha} * grad))"
    return {"ll": ll, "kl": kl, "lp": lp, "al": al, "comb": comb, "elbo_method": elbo_m, "pll_method": pll_m,
            "ngd": ngd, "alpha": alpha, "lp_form": lp_form}


SCOPES = {"ll": {"llTerm", "numBatch", "kl", "numData", "beta"}, "kl": {"llTerm", "numBatch", "kl", "numData", "beta"},
          "lp": {"lp", "llTerm", "numBatch", "kl", "numData", "beta"}, "al": {"loss", "llTerm", "numBatch", "kl", "numData", "beta"},
          "comb": {"logLikelihood", "klDivergence", "logPrior", "addedLoss", "llTerm", "numBatch", "kl", "numData", "beta"},
          "ngd": {"p", "grad", "lr", "numData"}}


def check_scopes(t):
    import re
    for k, allowed in SCOPES.items():
        used = set(re.findall(r"[A-Za-z_][A-Za-z_0-9]*", t[k])) - {"α"}
        if not used <= allowed:
            raise TranslateError(f"expression `{k}` = {t[k]} refers to {sorted(used - allowed)}, not available there")


def render(t):
    check_scopes(t)
    return f"""/-
GENERATED by harness/translate/g4_elbo_scaling.py from gpytorch/mlls/_approximate_mll.py,
variational_elbo.py, predictive_log_likelihood.py and optim/ngd.py — do not edit.
The scaling expressions of `_ApproximateMarginalLogLikelihood.forward` and `NGD.step`, as the code writes them.
-/

namespace Gen.ElboScaling

set_option linter.unusedVariables false

variable {{α : Type}} [Add α] [Sub α] [Mul α] [Div α] [Neg α] [OfNat α 0]

/-- `log_likelihood = self._log_likelihood_term(...).div(num_batch)` -/
def logLikelihood (llTerm numBatch kl numData beta : α) : α := {t['ll']}

/-- `kl_divergence = ….kl_divergence().div(self.num_data / self.beta)` -/
def klTerm (llTerm numBatch kl numData beta : α) : α := {t['kl']}

/-- one summand of `log_prior` -/
def logPriorItem (lp llTerm numBatch kl numData beta : α) : α := {t['lp']}

/-- one summand of `added_loss` -/
def addedLossItem (loss llTerm numBatch kl numData beta : α) : α := {t['al']}

/-- the returned combination (`combine_terms=True`) -/
def combine (logLikelihood klDivergence logPrior addedLoss llTerm numBatch kl numData beta : α) : α := {t['comb']}

/-- `_ApproximateMarginalLogLikelihood.forward`: accumulators start at zero and are filled by the two loops.
(Every generated expression receives the same environment `llTerm numBatch kl numData beta`, so that a changed
source expression still yields a well-formed definition — and a failing theorem.) -/
def forward (llTerm numBatch kl numData beta : α) (lps losses : List α) : α :=
  combine (logLikelihood llTerm numBatch kl numData beta) (klTerm llTerm numBatch kl numData beta)
    (lps.foldl (fun acc lp => acc + logPriorItem lp llTerm numBatch kl numData beta) 0)
    (losses.foldl (fun acc loss => acc + addedLossItem loss llTerm numBatch kl numData beta) 0)
    llTerm numBatch kl numData beta

/-- `NGD.step`: `p.add_(p.grad, alpha = {t['alpha']})` -/
def ngdStep (p grad lr numData : α) : α := {t['ngd']}

/-- which likelihood method is summed over the points (`.sum(-1)`) by each objective -/
def elboTermMethod : String := "{t['elbo_method']}"
def pllTermMethod : String := "{t['pll_method']}"
/-- how a prior's log-density is reduced before it is divided by `num_data` -/
def logPriorReduction : String := "{t['lp_form']}"

end Gen.ElboScaling
"""


def _elaborates(text, out_path):
    """Type-check the candidate generated file with Lean *before* it replaces the current one: a source change that
    leads to an ill-scoped / ill-typed term (e.g. a dropped transpose -> dimension mismatch) is a broken tie
    (`TranslateError`), never a generated module that does not build."""
    import subprocess
    lean_dir = os.path.dirname(os.path.dirname(os.path.dirname(os.path.abspath(out_path))))
    os.makedirs(os.path.join(lean_dir, ".audit"), exist_ok=True)
    cand = os.path.join(lean_dir, ".audit", os.path.basename(out_path)[:-5] + "Candidate.lean")
    with open(cand, "w") as fh:
        fh.write(text)
    try:
        p = subprocess.run(["lake", "env", "lean", cand], cwd=lean_dir, capture_output=True, text=True, timeout=600)
    finally:
        os.remove(cand)
    errs = [l for l in (p.stdout + p.stderr).split("\n") if "error" in l]
    return p.returncode == 0 and not errs, "\n".join(errs[:5])


def generate(repo, out_path):
    t = translate(repo)
    text = render(t)
    old = open(out_path).read() if os.path.exists(out_path) else None
    if old != text:
        ok, errs = _elaborates(text, out_path)
        if not ok:
            raise TranslateError("generated definitions do not elaborate (ill-scoped or ill-typed term for the current "
                                 "source; the previous generated file is kept):\n" + errs)
        tmp = out_path + ".tmp"
        with open(tmp, "w") as fh:
            fh.write(text)
        os.replace(tmp, out_path)
    return t, old is not None and old != text


if __name__ == "__main__":
    import sys
    repo = os.environ.get("VERIF_REPO", "/repo")
    out = os.path.join(os.path.dirname(os.path.dirname(os.path.dirname(os.path.abspath(__file__)))),
                       "lean", "GPVerif", "Gen", "ElboScaling.lean")
    t, changed = generate(repo, out)
    print(t, "changed" if changed else "unchanged", file=sys.stderr)

"""G7 — the ALGEBRA of the structure-exploiting kernels / prediction strategies -> `lean/GPVerif/Gen/StructuredAlgebra.lean`.

A small symbolic interpreter runs the Python bodies of

  models/exact_prediction_strategies.py  SGPRPredictionStrategy.covar_cache / exact_predictive_covar,
                                         DefaultPredictionStrategy._mean_cache / exact_predictive_mean ('ignore' path),
                                         RFFPredictionStrategy.covar_cache / exact_predictive_covar,
                                         InterpolatedPredictionStrategy._exact_predictive_covar_inv_quad_form_cache /
                                         _exact_predictive_covar_inv_quad_form_root / mean_cache / exact_predictive_mean,
                                         the `inside` / `res` expressions of covar_cache / exact_predictive_covar
  kernels/inducing_point_kernel.py       _inducing_inv_root, _get_covariance (both branches, correction switch)
  kernels/multitask_kernel.py            forward (Kronecker operand order)
  kernels/index_kernel.py                _eval_covar_matrix, forward
  kernels/lcm_kernel.py                  forward
  kernels/grid_kernel.py                 _kronecker_order, Toeplitz factors, Kronecker assembly
  mlls/inducing_point_kernel_added_loss_term.py   loss

over symbolic linear operators (dense / root / diag / added-diag / matmul / const-mul / interpolated / Kronecker /
Cholesky) and emits one Lean definition per function, written with the `DMat` operations, `Structured.kron`,
`Structured.toeplitz`, `Structured.kronList` and the oracle record `Structured.Prim` for the non-rational primitives
(solve, Cholesky, triangular solve, sqrt).  Anything outside the vocabulary raises `TranslateError`.
"""
import ast
import copy
import os
from fractions import Fraction


class TranslateError(Exception):
    pass


def _u(n):
    return ast.unparse(n)


# ----------------------------------------------------------------------------------- symbolic values

class Val:
    def __init__(self, kind, **kw):
        self.kind = kind
        self.__dict__.update(kw)

    def __repr__(self):
        return f"<{self.kind} {self.__dict__}>"


def mat(e):
    return Val("mat", e=e)


def vec(body):            # body: Lean term in the bound variable `i`
    return Val("vec", body=body)


def scalar(e):
    return Val("scalar", e=e)


def _atomic(e):
    return e.replace("_", "a").replace(".", "a").isalnum()


def dense(v):
    k = v.kind
    if k == "mat":
        return v.e
    if k == "root":
        L = dense(v.L)
        return f"({L}.mul {L}.transpose)"
    if k == "diag":
        return f"(DMat.diagonal (fun i => {v.v.body}))"
    if k == "addeddiag":
        return f"({dense(v.a)}.add {dense(v.b)})"
    if k == "matmul":
        return f"({dense(v.a)}.mul {dense(v.b)})"
    if k == "constmul":
        return f"({dense(v.base)}.smul {v.c.e})"
    if k == "kron":
        if len(v.fs) != 2:
            raise TranslateError("Kronecker product of a literal argument list with != 2 factors")
        return f"(Structured.kron {dense(v.fs[0])} {dense(v.fs[1])})"
    if k == "interp":
        if v.gather:
            return f"({dense(v.base)}.submatrix {v.wl} {v.wr})"
        return f"(({v.wl}.mul {dense(v.base)}).mul {v.wr}.transpose)"
    if k == "chol":
        if v.upper:
            raise TranslateError("upper Cholesky factor used as a dense matrix")
        return f"(P.cholL {dense(v.M)})"
    if k == "one":
        return "DMat.one"
    raise TranslateError(f"cannot densify a {k}")


def _rat(x):
    f = Fraction(x) if isinstance(x, int) else Fraction(*float(x).as_integer_ratio())
    if f.denominator == 1:
        return f"({f.numerator} : α)" if f >= 0 else f"(-({-f.numerator} : α))"
    t = f"({abs(f.numerator)} / {f.denominator} : α)"
    return t if f >= 0 else f"(-{t})"


# ----------------------------------------------------------------------------------- interpreter

class Interp:
    """Symbolic execution of a (restricted) function body."""

    def __init__(self, env, static=None, skip=(), where=""):
        self.env = dict(env)             # unparsed text (names, `self.x`, `self.x.y()`) -> Val
        self.static = dict(static or {})  # unparsed condition -> True / False / ('dyn', lean Bool term)
        self.skip = set(skip)            # statements (unparsed) that are ignored
        self.lets = []
        self.ver = {}
        self.where = where
        self.ret = None
        self.alias = {}                  # local name -> env key of the `self.<cache>` object it aliases (same tensor object)
        self.mutated = []                # env keys of `self.<cache>` objects that were modified in place

    # -- helpers
    def err(self, msg):
        raise TranslateError(f"{self.where}: {msg}")

    def bind(self, name, val):
        """let-bind dense matrices / vectors / scalars under a fresh SSA name"""
        self.ver[name] = self.ver.get(name, -1) + 1
        lean = name if self.ver[name] == 0 else f"{name}_{self.ver[name]}"
        if val.kind == "mat":
            if val.e != lean:
                self.lets.append(f"  let {lean} := {val.e}")
            self.env[name] = mat(lean)
        elif val.kind == "vec":
            self.lets.append(f"  let {lean} := fun i => {val.body}")
            self.env[name] = vec(f"{lean} i")
        elif val.kind == "scalar":
            self.lets.append(f"  let {lean} := {val.e}")
            self.env[name] = scalar(lean)
        else:
            self.env[name] = val

    # -- in-place tensor operations (`x.add_(y)`, `x += y`): every alias of the receiver sees the new value
    def inplace(self, target, new):
        """`target` (an ast expression: a local name or a `self.<cache>` text that is a key of env) is overwritten in place
        with `new`; the new value is let-bound once and installed under the receiver, the `self.<cache>` object it aliases
        and every other local alias of that object"""
        key = _u(target)
        root = self.alias.get(key, key)
        if root not in self.env:
            self.err(f"in-place operation on an unknown object: {key}")
        if new.kind != "mat":
            new = mat(dense(new))
        base = root.replace("self.", "self_").replace(".", "_")
        self.ver[base] = self.ver.get(base, 0) + 1
        lean = f"{base}_{self.ver[base]}"
        self.lets.append(f"  let {lean} := {new.e}")
        val = mat(lean)
        self.env[root] = val
        for name, k in self.alias.items():
            if k == root:
                self.env[name] = val
        if root.startswith("self.") and root not in self.mutated:
            self.mutated.append(root)
        return val

    # -- expressions
    def ev(self, n):
        key = _u(n)
        if key in self.env:
            return self.env[key]
        m = getattr(self, "e_" + type(n).__name__, None)
        if m is None:
            self.err(f"expression outside vocabulary: {key}")
        return m(n)

    def e_Constant(self, n):
        if isinstance(n.value, bool) or not isinstance(n.value, (int, float)):
            return Val("const", v=n.value)
        return scalar(_rat(n.value))

    def e_Name(self, n):
        self.err(f"unknown name {n.id}")

    def e_UnaryOp(self, n):
        if not isinstance(n.op, ast.USub):
            self.err(f"unary operator outside vocabulary: {_u(n)}")
        v = self.ev(n.operand)
        if v.kind == "scalar":
            return scalar(f"(-{v.e})")
        if v.kind == "vec":
            return vec(f"(-{v.body})")
        return mat(f"{dense(v)}.neg")

    def e_BinOp(self, n):
        a, b = self.ev(n.left), self.ev(n.right)
        op = type(n.op)
        if op is ast.MatMult:
            return self.matmul(a, b)
        if op in (ast.Add, ast.Sub):
            w = "add" if op is ast.Add else "sub"
            s = "+" if op is ast.Add else "-"
            if a.kind == "scalar" and b.kind == "scalar":
                return scalar(f"({a.e} {s} {b.e})")
            if a.kind == "vec" and b.kind == "vec":
                return vec(f"({a.body} {s} {b.body})")
            if a.kind in ("vec", "scalar") or b.kind in ("vec", "scalar"):
                self.err(f"mixed-rank {w}: {_u(n)}")
            return mat(f"({dense(a)}.{w} {dense(b)})")
        if op is ast.Mult:
            if a.kind == "scalar" and b.kind == "scalar":
                return scalar(f"({a.e} * {b.e})")
            if a.kind == "scalar" and b.kind == "vec":
                return vec(f"({a.e} * {b.body})")
            if a.kind == "vec" and b.kind == "scalar":
                return vec(f"({a.body} * {b.e})")
            if b.kind == "scalar":
                return mat(f"({dense(a)}.smul {b.e})")
            if a.kind == "scalar":
                return mat(f"({dense(b)}.smul {a.e})")
            self.err(f"elementwise product outside vocabulary: {_u(n)}")
        if op is ast.Div:
            if a.kind == "vec" and b.kind == "vec":
                return vec(f"({a.body} / {b.body})")
            if a.kind == "scalar" and b.kind == "scalar":
                return scalar(f"({a.e} / {b.e})")
            self.err(f"division outside vocabulary: {_u(n)}")
        self.err(f"operator outside vocabulary: {_u(n)}")

    def matmul(self, a, b):
        if a.kind == "diag" and b.kind == "diag":
            self.err("diag @ diag")
        return mat(f"({dense(a)}.mul {dense(b)})")

    def e_IfExp(self, n):
        c = self.cond(n.test)
        if c is True:
            return self.ev(n.body)
        if c is False:
            return self.ev(n.orelse)
        self.err(f"dynamic conditional expression: {_u(n)}")

    def e_Subscript(self, n):
        v = self.ev(n.value)
        if v.kind == "tuple" and isinstance(n.slice, ast.Constant):
            return v.items[n.slice.value]
        self.err(f"subscript outside vocabulary: {_u(n)}")

    def e_Attribute(self, n):
        v = self.ev(n.value)
        a = n.attr
        if a == "mT":
            return self.transpose(v)
        if a == "root" and v.kind == "root":
            return v.L
        if a == "root" and v.kind == "constmul":
            self.err(".root of a constant-multiplied operator")
        if v.kind == "addeddiag" and a == "_linear_op":
            return v.a if v.b.kind == "diag" else v.b
        if v.kind == "addeddiag" and a == "_diag_tensor":
            return v.b if v.b.kind == "diag" else v.a
        if v.kind == "matmul" and a == "left_linear_op":
            return v.a
        if v.kind == "matmul" and a == "right_linear_op":
            return v.b
        if v.kind == "constmul" and a == "expanded_constant":
            return v.c
        if v.kind in ("constmul", "interp") and a == "base_linear_op":
            return v.base
        if v.kind == "interp" and a in ("left_interp_indices", "left_interp_values"):
            return Val("wref", w=v.wl, part=a)
        if v.kind == "interp" and a in ("right_interp_indices", "right_interp_values"):
            return Val("wref", w=v.wr, part=a)
        if v.kind == "mvn" and a in ("loc", "mean"):
            return v.mean
        if v.kind == "mvn" and a == "lazy_covariance_matrix":
            return v.cov
        self.err(f"attribute outside vocabulary: {_u(n)} (on a {v.kind})")

    def transpose(self, v):
        if v.kind == "diag":
            return v
        return mat(f"{dense(v)}.transpose")

    def e_Tuple(self, n):
        return Val("tuple", items=[self.ev(x) for x in n.elts])

    def kw(self, n, name, default=None):
        for k in n.keywords:
            if k.arg == name:
                return ast.literal_eval(k.value)
        return default

    def e_Call(self, n):
        f = n.func
        fname = _u(f)
        # ---- free functions / constructors
        if fname in ("to_dense", "to_linear_operator") and len(n.args) == 1:
            return self.ev(n.args[0])
        if fname in ("LowRankRootLinearOperator", "RootLinearOperator") and len(n.args) == 1:
            return Val("root", L=self.ev(n.args[0]))
        if fname == "DiagLinearOperator" and len(n.args) == 1:
            v = self.ev(n.args[0])
            if v.kind != "vec":
                self.err(f"DiagLinearOperator of a {v.kind}")
            return Val("diag", v=v)
        if fname == "MatmulLinearOperator" and len(n.args) == 2:
            return Val("matmul", a=self.ev(n.args[0]), b=self.ev(n.args[1]))
        if fname in ("AddedDiagLinearOperator", "LowRankRootAddedDiagLinearOperator") and len(n.args) == 2:
            a, b = self.ev(n.args[0]), self.ev(n.args[1])
            if "diag" not in (a.kind, b.kind):
                self.err(f"{fname} without a diagonal operand")
            return Val("addeddiag", a=a, b=b)
        if fname == "KroneckerProductLinearOperator":
            if n.keywords or any(isinstance(a, ast.Starred) for a in n.args):
                self.err(f"starred Kronecker product handled by the grid template only: {_u(n)}")
            return Val("kron", fs=[self.ev(a) for a in n.args])
        if fname == "InterpolatedLinearOperator":
            kws = {k.arg: k.value for k in n.keywords}
            if n.args or set(kws) != {"base_linear_op", "left_interp_indices", "right_interp_indices"}:
                self.err(f"InterpolatedLinearOperator call outside vocabulary: {_u(n)}")
            li, ri = self.ev(kws["left_interp_indices"]), self.ev(kws["right_interp_indices"])
            if li.kind != "idx" or ri.kind != "idx":
                self.err("interpolation indices are not index vectors")
            return Val("interp", base=self.ev(kws["base_linear_op"]), wl=li.e, wr=ri.e, gather=True)
        if fname == "left_interp" and len(n.args) == 3:
            i, v, rhs = (self.ev(a) for a in n.args)
            if not (i.kind == "wref" and v.kind == "wref" and i.w == v.w and i.part.endswith("indices") and v.part.endswith("values")):
                self.err(f"left_interp with unrelated indices/values: {_u(n)}")
            return mat(f"({i.w}.mul {dense(rhs)})")
        if fname == "left_t_interp" and len(n.args) == 4:
            i, v, rhs = (self.ev(a) for a in n.args[:3])
            if not (i.kind == "wref" and v.kind == "wref" and i.w == v.w and i.part.endswith("indices") and v.part.endswith("values")):
                self.err(f"left_t_interp with unrelated indices/values: {_u(n)}")
            return mat(f"({i.w}.transpose.mul {dense(rhs)})")
        if fname == "psd_safe_cholesky":
            return Val("chol", M=self.ev(n.args[0]), upper=bool(self.kw(n, "upper", False)))
        if fname == "torch.linalg.solve_triangular" and len(n.args) == 2:
            A, B = self.ev(n.args[0]), self.ev(n.args[1])
            upper = self.kw(n, "upper")
            if A.kind != "chol" or upper is None or bool(upper) != A.upper:
                self.err(f"triangular solve against something that is not the matching Cholesky factor: {_u(n)}")
            prim = "cholUInv" if upper else "cholLInv"
            return mat(f"((P.{prim} {dense(A.M)}).mul {dense(B)})")
        if fname == "torch.eye":
            return Val("one")
        if fname == "torch.tensor" and n.args and isinstance(n.args[0], ast.Constant):
            return self.ev(n.args[0])
        if fname == "torch.diag_embed" and len(n.args) == 1:
            v = self.ev(n.args[0])
            if v.kind != "vec":
                self.err("diag_embed of a non-vector")
            return Val("diag", v=v)
        if fname == "torch.zeros_like":
            return Val("zero")
        # ---- methods
        if isinstance(f, ast.Attribute):
            v = self.ev(f.value)
            a = f.attr
            args = n.args
            if a in ("to_dense", "evaluate_kernel", "detach", "root_decomposition") and not args:
                if a == "root_decomposition" and v.kind != "root":
                    self.err("root_decomposition of an operator that is not a root operator")
                return v
            if a in ("unsqueeze", "squeeze") and len(args) == 1:
                return v
            if a == "transpose" and [_u(x) for x in args] == ["-1", "-2"]:
                return self.transpose(v)
            if a == "matmul" and len(args) == 1:
                return self.matmul(v, self.ev(args[0]))
            if a == "mul" and len(args) == 1:
                c = self.ev(args[0])
                if c.kind != "scalar":
                    self.err(f".mul by a non-scalar: {_u(n)}")
                return mat(f"({dense(v)}.smul {c.e})")
            if a == "inverse" and not args and v.kind == "diag":
                return Val("diag", v=vec(f"({v.v.body})⁻¹"))
            if a == "add_diagonal" and len(args) == 1:
                c = self.ev(args[0])
                if c.kind != "scalar":
                    self.err("add_diagonal of a non-scalar")
                return mat(f"({dense(v)}.add (DMat.one.smul {c.e}))")
            if a == "cholesky" and not args:
                return Val("chol", M=v, upper=False)
            if a == "solve" and len(args) == 1 and v.kind == "diag":
                # DiagLinearOperator.solve: division by the diagonal
                return mat(f"((DMat.diagonal (fun i => ({v.v.body})⁻¹)).mul {dense(self.ev(args[0]))})")
            if a == "solve" and len(args) == 1:
                return mat(f"((P.inv {dense(v)}).mul {dense(self.ev(args[0]))})")
            if a == "sqrt_inv_matmul" and len(args) == 1 and not n.keywords and v.kind == "diag":
                # DiagLinearOperator.sqrt_inv_matmul(rhs) = diag(1/sqrt(d)) rhs
                return mat(f"((DMat.diagonal (fun i => (P.sqrt ({v.v.body}))⁻¹)).mul {dense(self.ev(args[0]))})")
            if a == "add_low_rank" and len(args) == 1 and not n.keywords:
                r = dense(self.ev(args[0]))
                return mat(f"({dense(v)}.add ({r}.mul {r}.transpose))")
            if a in ("add_", "sub_") and len(args) == 1 and not n.keywords:
                o = self.ev(args[0])
                if o.kind in ("vec", "scalar") or v.kind in ("vec", "scalar"):
                    self.err(f"in-place operation outside vocabulary: {_u(n)}")
                return self.inplace(f.value, mat(f"({dense(v)}.{a[:-1]} {dense(o)})"))
            if a == "diagonal" and sorted(k.arg for k in n.keywords) == ["dim1", "dim2"]:
                if v.kind == "diag":
                    return v.v
                if v.kind == "vecdiag":
                    return v.v
                return vec(f"{dense(v)}.diag i")
            if a == "clamp" and len(args) == 2 and v.kind == "vec":
                lo = self.ev(args[0])
                if _u(args[1]) != "math.inf" or lo.kind != "scalar":
                    self.err(f"clamp bounds outside vocabulary: {_u(n)}")
                return vec(f"(max {lo.e} {v.body})")
            if a == "sum" and v.kind == "vec":
                return scalar(f"(∑ i, {v.body})")
            if a == "sqrt" and not args and v.kind == "scalar":
                return scalar(f"(P.sqrt {v.e})")
            if a == "long" and v.kind == "idx":
                return v
            if a == "expand" and v.kind == "idx":
                return v
        self.err(f"call outside vocabulary: {_u(n)}")

    # -- conditions
    def cond(self, n):
        key = _u(n)
        if key in self.static:
            return self.static[key]
        if isinstance(n, ast.Call) and _u(n.func) == "isinstance" and len(n.args) == 2:
            v = self.ev(n.args[0])
            cls = _u(n.args[1])
            table = {"MatmulLinearOperator": "matmul", "ConstantMulLinearOperator": "constmul",
                     "LowRankRootAddedDiagLinearOperator": "addeddiag"}
            if cls not in table:
                self.err(f"isinstance against a class outside vocabulary: {cls}")
            return v.kind == table[cls]
        if isinstance(n, ast.UnaryOp) and isinstance(n.op, ast.Not):
            c = self.cond(n.operand)
            if isinstance(c, bool):
                return not c
            return ("dyn", f"(!{c[1]})")
        if isinstance(n, ast.BoolOp) and isinstance(n.op, ast.And):
            cs = [self.cond(v) for v in n.values]
            if any(c is False for c in cs):
                return False
            dyn = [c[1] for c in cs if c is not True]
            if not dyn:
                return True
            return ("dyn", "(" + " && ".join(dyn) + ")")
        self.err(f"condition outside vocabulary: {key}")

    # -- statements
    def run(self, body):
        for s in body:
            if self.ret is not None:
                self.err(f"statement after return: {_u(s)}")
            self.stmt(s)
        return self

    def stmt(self, s):
        if isinstance(s, ast.Expr) and isinstance(s.value, ast.Constant):
            return
        if _u(s) in self.skip:
            return
        if isinstance(s, ast.Assign) and len(s.targets) == 1:
            t = s.targets[0]
            v = self.ev(s.value)
            if isinstance(t, ast.Name):
                src = _u(s.value)
                self.alias.pop(t.id, None)
                self.bind(t.id, v)
                if src in self.alias or (src.startswith("self.") and src in self.env and v.kind == "mat"):
                    # `x = self.cache` / `x = y`: the SAME tensor object under another name
                    self.alias[t.id] = self.alias.get(src, src)
                elif isinstance(s.value, ast.Call) and isinstance(s.value.func, ast.Attribute) and s.value.func.attr in ("add_", "sub_"):
                    # the in-place methods return their receiver
                    rk = _u(s.value.func.value)
                    self.alias[t.id] = self.alias.get(rk, rk)
                return
            if isinstance(t, ast.Tuple) and v.kind == "tuple" and len(t.elts) == len(v.items):
                for e, x in zip(t.elts, v.items):
                    self.bind(e.id, x)
                return
            self.err(f"assignment target outside vocabulary: {_u(s)}")
        if isinstance(s, ast.AugAssign) and isinstance(s.op, (ast.Add, ast.Sub)) and isinstance(s.target, (ast.Name, ast.Attribute)):
            # `x += y` on tensors is an in-place update of the object `x` names
            a, b = self.ev(s.target), self.ev(s.value)
            if a.kind in ("vec", "scalar") or b.kind in ("vec", "scalar"):
                self.err(f"augmented assignment outside vocabulary: {_u(s)}")
            w = "add" if isinstance(s.op, ast.Add) else "sub"
            self.inplace(s.target, mat(f"({dense(a)}.{w} {dense(b)})"))
            return
        if isinstance(s, ast.Expr) and isinstance(s.value, ast.Call) and isinstance(s.value.func, ast.Attribute) \
                and s.value.func.attr in ("add_", "sub_"):
            self.ev(s.value)
            return
        if isinstance(s, ast.Return):
            self.ret = self.ev(s.value)
            return
        if isinstance(s, ast.Raise):
            self.ret = Val("raise")
            return
        if isinstance(s, ast.If):
            c = self.cond(s.test)
            if c is True:
                self.run(s.body)
                return
            if c is False:
                self.run(s.orelse)
                return
            # dynamic Bool: both arms may (re)assign matrices; no returns inside
            arms = []
            for arm in (s.body, s.orelse):
                sub = copy.copy(self)
                sub.env, sub.ver, sub.lets = dict(self.env), dict(self.ver), []
                sub.alias, sub.mutated = dict(self.alias), list(self.mutated)
                sub.run(arm)
                if sub.ret is not None:
                    self.err("return inside a dynamically guarded block")
                arms.append(sub)
            changed = [k for k in arms[0].env if arms[0].env[k] is not self.env.get(k)] + \
                      [k for k in arms[1].env if arms[1].env[k] is not self.env.get(k)]
            for a_ in arms:
                for k in a_.mutated:
                    if k not in self.mutated:
                        self.mutated.append(k)
            for k in dict.fromkeys(changed):
                if k not in arms[0].env or k not in arms[1].env:
                    continue        # local to one arm (inlined through that arm's lets); unknown afterwards
                a = self._inline(arms[0], k)
                b = self._inline(arms[1], k)
                self.bind(k, mat(f"(if {c[1]} then {a} else {b})"))
            return
        self.err(f"statement outside vocabulary: {_u(s)}")

    def _inline(self, sub, k):
        """dense value of variable k at the end of an arm, with the arm's own lets wrapped around it"""
        if k not in sub.env:
            self.err(f"variable {k} assigned in only one arm of a guarded block")
        e = dense(sub.env[k])
        for l in reversed(sub.lets):
            e = f"({l.strip()}; {e})"
        return e


# ----------------------------------------------------------------------------------- source access

class Source:
    def __init__(self, repo):
        self.repo = repo
        self.trees = {}

    def tree(self, rel):
        if rel not in self.trees:
            self.trees[rel] = ast.parse(open(os.path.join(self.repo, "gpytorch", rel)).read())
        return self.trees[rel]

    def func(self, rel, cls, name):
        for n in self.tree(rel).body:
            if isinstance(n, ast.ClassDef) and n.name == cls:
                for f in n.body:
                    if isinstance(f, ast.FunctionDef) and f.name == name:
                        return f
        raise TranslateError(f"{rel}: {cls}.{name} not found")


def find_assign(fn, target, nth=0):
    """the nth assignment (in source order, any nesting) to `target` inside fn"""
    hits = [s for s in ast.walk(fn) if isinstance(s, ast.Assign) and len(s.targets) == 1 and _u(s.targets[0]) == target]
    hits.sort(key=lambda s: s.lineno)
    if len(hits) <= nth:
        raise TranslateError(f"{fn.name}: assignment #{nth} to `{target}` not found")
    return hits[nth]


def emit_def(name, doc, sig, I, final=None):
    v = final if final is not None else I.ret
    if v is None or v.kind == "raise":
        raise TranslateError(f"{name}: no value returned")
    if v.kind == "scalar":
        out = v.e
    elif v.kind == "vec":
        out = f"fun i => {v.body}"
    else:
        out = dense(v)
    return f"/-- {doc} -/\ndef {name} {sig} :=\n" + "".join(l + "\n" for l in I.lets) + f"  {out}\n\n"


# ----------------------------------------------------------------------------------- shape operations of `_compute_grid`

def _compute_grid(S):
    """Symbolic execution of the shape operations of `GridInterpolationKernel._compute_grid` on an `n × d` input (no batch
    dimensions): every tensor is (shape, strides-of-the-original) with symbolic sizes `n`, `d`, `1`; `transpose(-1, -2)`,
    `unsqueeze(-1)` and `reshape(...)` (row-major) are the vocabulary.  Emits, for both values of `last_dim_is_batch`, the
    entry `(row, column)` of the input that becomes coordinate `c` of the flattened point `p` handed to
    `Interpolation.interpolate`, the number of coordinates per point and the batch shape of the result view."""
    fn = S.func("kernels/grid_interpolation_kernel.py", "GridInterpolationKernel", "_compute_grid")
    if [a.arg for a in fn.args.args] != ["self", "inputs", "last_dim_is_batch"]:
        raise TranslateError("_compute_grid: signature changed")

    def prod(xs):
        xs = [x for x in xs if x != "1"]
        return " * ".join(xs) if xs else "1"

    def run(flag):
        # a view: list of (size, role) with role in {'row', 'col', None}; an n × d input read row-major
        env = {"inputs": [("n", "row"), ("d", "col")]}
        sym = {}
        out_ = {}

        def size(e):
            t = _u(e)
            if t in sym:
                return sym[t]
            if isinstance(e, ast.Constant) and e.value == 1:
                return "1"
            if t == "inputs.size(-2)":
                return env["inputs"][-2][0]
            if t == "inputs.size(-1)":
                return env["inputs"][-1][0]
            raise TranslateError(f"_compute_grid: size outside vocabulary: {t}")

        def view_expr(e):
            if isinstance(e, ast.Name) and e.id == "inputs":
                return list(env["inputs"])
            if isinstance(e, ast.Call) and isinstance(e.func, ast.Attribute):
                v = view_expr(e.func.value)
                a = e.func.attr
                args = [_u(x) for x in e.args]
                if a == "transpose" and sorted(args) == ["-1", "-2"]:
                    return v[:-2] + [v[-1], v[-2]]
                if a == "unsqueeze" and args == ["-1"]:
                    return v + [("1", None)]
                if a in ("reshape", "view"):
                    return ("reshape", v, e.args)
            raise TranslateError(f"_compute_grid: tensor expression outside vocabulary: {_u(e)}")

        def stmt(s_):
            t = _u(s_)
            if isinstance(s_, ast.Expr) and isinstance(s_.value, ast.Constant):
                return
            if isinstance(s_, ast.If):
                if _u(s_.test) != "last_dim_is_batch":
                    raise TranslateError(f"_compute_grid: guard outside vocabulary: {_u(s_.test)}")
                for x in (s_.body if flag else s_.orelse):
                    stmt(x)
                return
            if isinstance(s_, ast.Assign) and len(s_.targets) == 1:
                tg = s_.targets[0]
                if isinstance(tg, ast.Tuple) and isinstance(s_.value, ast.Tuple) and len(tg.elts) == len(s_.value.elts) \
                        and all(isinstance(x, ast.Name) for x in tg.elts) and _u(s_.value).count("inputs.size") == len(tg.elts):
                    for x, vv in zip(tg.elts, s_.value.elts):
                        sym[x.id] = size(vv)
                    return
                if isinstance(tg, ast.Name) and tg.id in ("n_data", "n_dimensions"):
                    sym[tg.id] = size(s_.value)
                    return
                if isinstance(tg, ast.Name) and tg.id == "batch_shape" and _u(s_.value) == "inputs.shape[:-2]":
                    sym["batch_shape"] = [x[0] for x in env["inputs"][:-2]]
                    return
                if isinstance(tg, ast.Name) and tg.id == "batch_shape" and isinstance(s_.value, ast.Call) \
                        and _u(s_.value.func) == "torch.Size" and len(s_.value.args) == 1 and isinstance(s_.value.args[0], ast.List):
                    # torch.Size([*batch_shape, size, ...])
                    bs = []
                    for el in s_.value.args[0].elts:
                        if isinstance(el, ast.Starred) and _u(el.value) == "batch_shape" and "batch_shape" in sym:
                            bs += list(sym["batch_shape"])
                        elif isinstance(el, ast.Starred) and _u(el.value) == "inputs.shape[:-2]":
                            bs += [x[0] for x in env["inputs"][:-2]]
                        else:
                            bs.append(size(el))
                    sym["batch_shape"] = bs
                    return
                if isinstance(tg, ast.Name) and tg.id == "inputs":
                    v = view_expr(s_.value)
                    if isinstance(v, tuple):
                        _, src, args = v
                        if len(args) != 2 or _u(args[0]) != "-1":
                            raise TranslateError(f"_compute_grid: reshape outside vocabulary: {t}")
                        if "flat" in out_:
                            raise TranslateError("_compute_grid: the inputs are flattened twice")
                        out_["flat"] = (src, size(args[1]))
                        env["inputs"] = [("points", None), (size(args[1]), None)]
                        return
                    env["inputs"] = v
                    return
                if t == "interp_indices, interp_values = Interpolation().interpolate(self.grid, inputs)":
                    if "flat" not in out_:
                        raise TranslateError("_compute_grid: interpolate is called on inputs that were not flattened to points")
                    out_["called"] = True
                    return
                if isinstance(tg, ast.Name) and tg.id in ("interp_indices", "interp_values"):
                    if t != f"{tg.id} = {tg.id}.view(*batch_shape, n_data, -1)":
                        raise TranslateError(f"_compute_grid: result view outside vocabulary: {t}")
                    out_.setdefault("views", []).append((list(sym["batch_shape"]), sym["n_data"]))
                    return
            if isinstance(s_, ast.Return):
                if t != "return (interp_indices, interp_values)":
                    raise TranslateError(f"_compute_grid: return outside vocabulary: {t}")
                return
            raise TranslateError(f"_compute_grid: statement outside vocabulary: {t}")

        for s_ in fn.body:
            stmt(s_)
        if not out_.get("called") or len(out_.get("views", [])) != 2 or out_["views"][0] != out_["views"][1]:
            raise TranslateError("_compute_grid: interpolate / result views not found")
        src, k = out_["flat"]
        # flat row-major position over `src` of coordinate c of point p:  f = p * k + c
        f = "p" if k == "1" else f"(p * {k} + c)"
        if k == "1":
            f = "(p + c)"
        comps = {}
        for j, (sz, role) in enumerate(src):
            stride = prod([x[0] for x in src[j + 1:]])
            if role:
                comps[role] = f"({f} / ({stride})) % {sz}"
        if set(comps) != {"row", "col"}:
            raise TranslateError("_compute_grid: a dimension of the inputs was dropped")
        bs, nd = out_["views"][0]
        return f"({comps['row']}, {comps['col']})", k, "[" + ", ".join(bs) + "]", nd

    (srcT, kT, bsT, ndT), (srcF, kF, bsF, ndF) = run(True), run(False)
    return ("/-- `GridInterpolationKernel._compute_grid` on an `n × d` input: `(row, column)` of the input entry that becomes coordinate `c`\n"
            "of the flattened point `p` handed to `Interpolation.interpolate` (generated from the transpose / unsqueeze / reshape sequence) -/\n"
            "def computeGridSource (last_dim_is_batch : Bool) (n d : Nat) (p c : Nat) : Nat × Nat :=\n"
            f"  if last_dim_is_batch then {srcT} else {srcF}\n\n"
            "/-- coordinates per flattened point (`n_dimensions` at the `reshape`) -/\n"
            "def computeGridPointDim (last_dim_is_batch : Bool) (n d : Nat) : Nat :=\n"
            f"  if last_dim_is_batch then {kT} else {kF}\n\n"
            "/-- `(batch_shape, n_data)` of the result view `interp_*.view(*batch_shape, n_data, -1)` -/\n"
            "def computeGridResultShape (last_dim_is_batch : Bool) (n d : Nat) : List Nat × Nat :=\n"
            f"  if last_dim_is_batch then ({bsT}, {ndT}) else ({bsF}, {ndF})\n\n")


EPS = "exact_prediction_strategies.py"
M_EPS = "models/" + EPS


def translate(repo):
    S = Source(repo)
    out = []
    F = "{α : Type} [Field α]"

    # ---------------- SGPRPredictionStrategy.covar_cache
    fn = S.func(M_EPS, "SGPRPredictionStrategy", "covar_cache")
    I = Interp({"self.lik_train_train_covar.evaluate_kernel()":
                Val("addeddiag", a=Val("root", L=mat("Rx")), b=Val("diag", v=vec("d i")))},
               where="SGPRPredictionStrategy.covar_cache").run(fn.body)
    out.append(emit_def("sgprCovarCache", "`SGPRPredictionStrategy.covar_cache` for `lik_train_train_covar = Rx Rxᵀ + diag d`",
                        f"{F} {{n m : Nat}} (P : Structured.Prim α) (Rx : DMat n m α) (d : Fin n → α) : DMat m m α", I))

    # ---------------- SGPRPredictionStrategy.exact_predictive_covar
    fn = S.func(M_EPS, "SGPRPredictionStrategy", "exact_predictive_covar")
    I = Interp({"self.covar_cache": mat("cache"), "test_test_covar": mat("Kss"),
                "test_train_covar": Val("matmul", a=mat("L"), b=mat("Rt"))},
               where="SGPRPredictionStrategy.exact_predictive_covar").run(fn.body)
    out.append(emit_def("sgprPredictiveCovar", "`SGPRPredictionStrategy.exact_predictive_covar` for `test_train_covar = MatmulLinearOperator(L, Rt)`",
                        f"{F} {{ns n m : Nat}} (Kss : DMat ns ns α) (L : DMat ns m α) (Rt : DMat m n α) (cache : DMat m m α) : DMat ns ns α", I))

    # ---------------- DefaultPredictionStrategy._mean_cache / exact_predictive_mean ('ignore')
    fn = S.func(M_EPS, "DefaultPredictionStrategy", "_mean_cache")
    I = Interp({"self.likelihood(self.train_prior_dist, self.train_inputs)": Val("mvn", mean=mat("mu"), cov=mat("A")),
                "self.train_labels": mat("y")},
               static={"nan_policy == 'ignore'": True}, where="DefaultPredictionStrategy._mean_cache")
    stmts = []
    for s_ in fn.body:
        stmts.append(s_)
        if isinstance(s_, ast.If) and "nan_policy" in _u(s_.test):
            break
    else:
        raise TranslateError("_mean_cache: nan_policy dispatch not found")
    I.run(stmts)
    out.append(emit_def("defaultMeanCache", "`DefaultPredictionStrategy._mean_cache`, `observation_nan_policy = 'ignore'`",
                        f"{F} {{n : Nat}} (P : Structured.Prim α) (A : DMat n n α) (y mu : DMat n 1 α) : DMat n 1 α", I,
                        final=I.env["mean_cache"]))
    tail = [_u(x) for x in fn.body[len(stmts):]]
    if not tail or "mean_cache" not in tail[-1] or any("mean_cache =" in t and "detach" not in t for t in tail):
        raise TranslateError(f"_mean_cache: statements after the nan_policy dispatch change the cache: {tail}")
    fn = S.func(M_EPS, "DefaultPredictionStrategy", "exact_predictive_mean")
    I = Interp({"self.mean_cache": mat("mean_cache"), "test_train_covar": mat("Ksx"), "test_mean": mat("test_mean")},
               static={"len(mean_cache.shape) == 4": False, "nan_policy == 'ignore'": True},
               skip={"nan_policy = settings.observation_nan_policy.value()"},
               where="DefaultPredictionStrategy.exact_predictive_mean").run(fn.body)
    out.append(emit_def("defaultPredictiveMean", "`DefaultPredictionStrategy.exact_predictive_mean`, `'ignore'` path",
                        f"{F} {{ns n : Nat}} (Ksx : DMat ns n α) (mean_cache : DMat n 1 α) (test_mean : DMat ns 1 α) : DMat ns 1 α", I))

    # ---------------- RFFPredictionStrategy
    fn = S.func(M_EPS, "RFFPredictionStrategy", "covar_cache")
    # the else-branch constant must be the literal 1.0 (unscaled kernels are the c = 1 instance)
    els = [s for s in ast.walk(fn) if isinstance(s, ast.If) and "ConstantMulLinearOperator" in _u(s.test)]
    if len(els) != 1 or not _u(els[0].orelse[0]).startswith("constant = torch.tensor(1.0"):
        raise TranslateError("RFFPredictionStrategy.covar_cache: unscaled constant is not 1.0")
    I = Interp({"self.train_prior_dist.lazy_covariance_matrix": Val("constmul", c=scalar("c"), base=Val("root", L=mat("F"))),
                "self.lik_train_train_covar": mat("A")}, where="RFFPredictionStrategy.covar_cache").run(fn.body)
    out.append(emit_def("rffCovarCache", "`RFFPredictionStrategy.covar_cache` for the prior covariance `c · F Fᵀ` and `lik_train_train_covar = A`",
                        f"{F} {{n k : Nat}} (P : Structured.Prim α) (c : α) (F : DMat n k α) (A : DMat n n α) : DMat k k α", I))
    inner = Interp({"self.train_prior_dist.lazy_covariance_matrix": Val("constmul", c=scalar("c"), base=Val("root", L=mat("F"))),
                    "self.lik_train_train_covar": mat("A")}, where="RFFPredictionStrategy.covar_cache")
    inner.run([s for s in fn.body if not isinstance(s, ast.Return)])
    out.append(emit_def("rffInnerTerm", "the argument of `psd_safe_cholesky` in `RFFPredictionStrategy.covar_cache`",
                        f"{F} {{n k : Nat}} (P : Structured.Prim α) (c : α) (F : DMat n k α) (A : DMat n n α) : DMat k k α", inner,
                        final=inner.env["inner_term"]))
    fn = S.func(M_EPS, "RFFPredictionStrategy", "exact_predictive_covar")
    I = Interp({"test_test_covar": Val("constmul", c=scalar("c"), base=Val("root", L=mat("Fs"))), "self.covar_cache": mat("cache")},
               static={"settings.skip_posterior_variances.on()": False}, where="RFFPredictionStrategy.exact_predictive_covar").run(fn.body)
    out.append(emit_def("rffPredictiveCovar", "`RFFPredictionStrategy.exact_predictive_covar` for `test_test_covar = c · F* F*ᵀ`",
                        f"{F} {{ns k : Nat}} (P : Structured.Prim α) (c : α) (Fs : DMat ns k α) (cache : DMat k k α) : DMat ns ns α", I))

    # ---------------- InterpolatedPredictionStrategy
    ttc = Val("interp", base=mat("Kuu"), wl="Ws", wr="W", gather=False)
    fn = S.func(M_EPS, "InterpolatedPredictionStrategy", "_exact_predictive_covar_inv_quad_form_cache")
    I = Interp({"test_train_covar": ttc, "train_train_covar_inv_root": mat("S"), "base_linear_op.size(-1)": Val("const", v="size")},
               where="InterpolatedPredictionStrategy._exact_predictive_covar_inv_quad_form_cache").run(fn.body)
    sig_i = f"{F} {{n ns g k : Nat}} (Kuu : DMat g g α) (W : DMat n g α) (Ws : DMat ns g α)"
    out.append(emit_def("interpInvQuadFormCache", "`_exact_predictive_covar_inv_quad_form_cache` for `test_train_covar = W* K_uu Wᵀ`",
                        f"{sig_i} (S : DMat n k α) : DMat g k α", I))
    fn = S.func(M_EPS, "InterpolatedPredictionStrategy", "_exact_predictive_covar_inv_quad_form_root")
    I = Interp({"test_train_covar": ttc, "precomputed_cache": mat("cache")},
               where="InterpolatedPredictionStrategy._exact_predictive_covar_inv_quad_form_root").run(fn.body)
    out.append(emit_def("interpInvQuadFormRoot", "`_exact_predictive_covar_inv_quad_form_root`",
                        f"{sig_i} (cache : DMat g k α) : DMat ns k α", I))
    fn = S.func(M_EPS, "InterpolatedPredictionStrategy", "mean_cache")
    I = Interp({"self.train_prior_dist.lazy_covariance_matrix": Val("interp", base=mat("Kuu"), wl="W", wr="W", gather=False),
                "self.likelihood(self.train_prior_dist, self.train_inputs)": Val("mvn", mean=mat("mu"), cov=mat("A")),
                "self.train_labels": mat("y"), "train_train_covar.base_linear_op.size(-1)": Val("const", v="size")},
               static={"settings.detach_test_caches.on()": True}, where="InterpolatedPredictionStrategy.mean_cache").run(fn.body)
    out.append(emit_def("interpMeanCache", "`InterpolatedPredictionStrategy.mean_cache` for the prior covariance `W K_uu Wᵀ`, noisy covariance `A`",
                        f"{F} {{n g : Nat}} (P : Structured.Prim α) (Kuu : DMat g g α) (W : DMat n g α) (A : DMat n n α) (y mu : DMat n 1 α) : DMat g 1 α", I))
    fn = S.func(M_EPS, "InterpolatedPredictionStrategy", "exact_predictive_mean")
    I = Interp({"test_train_covar": ttc, "self.mean_cache": mat("cache"), "test_mean": mat("test_mean")},
               static={"self.uses_wiski": False}, where="InterpolatedPredictionStrategy.exact_predictive_mean").run(fn.body)
    out.append(emit_def("interpPredictiveMean", "`InterpolatedPredictionStrategy.exact_predictive_mean` (non-WISKI)",
                        f"{sig_i.replace(' g k : Nat', ' g : Nat')} (cache : DMat g 1 α) (test_mean : DMat ns 1 α) : DMat ns 1 α", I))
    # fast_pred_var result `res = test_test_covar + RootLinearOperator(root).mul(-1)` (non-WISKI branch, second occurrence)
    fn = S.func(M_EPS, "InterpolatedPredictionStrategy", "exact_predictive_covar")
    rs = [s for s in ast.walk(fn) if isinstance(s, ast.Assign) and _u(s.targets[0]) == "res" and "test_test_covar" in _u(s.value)]
    if len(rs) != 2 or _u(rs[0].value) != _u(rs[1].value):
        raise TranslateError("InterpolatedPredictionStrategy.exact_predictive_covar: the two fast_pred_var results differ / moved")
    I = Interp({"test_test_covar": mat("Kss"), "root": mat("root")}, where="InterpolatedPredictionStrategy.exact_predictive_covar")
    I.stmt(rs[1])
    out.append(emit_def("interpPredictiveCovarFast", "fast_pred_var result of `InterpolatedPredictionStrategy.exact_predictive_covar`",
                        f"{F} {{ns k : Nat}} (Kss : DMat ns ns α) (root : DMat ns k α) : DMat ns ns α", I, final=I.env["res"]))
    fn = S.func(M_EPS, "InterpolatedPredictionStrategy", "covar_cache")
    s_in = find_assign(fn, "inside")
    I = Interp({"train_train_covar.base_linear_op": mat("Kuu"), "root": mat("root")}, where="InterpolatedPredictionStrategy.covar_cache")
    I.stmt(s_in)
    out.append(emit_def("interpInside", "fast_pred_samples: the matrix whose root is cached (`inside` in `covar_cache`)",
                        f"{F} {{g k : Nat}} (Kuu : DMat g g α) (root : DMat g k α) : DMat g g α", I, final=I.env["inside"]))

    # ---------------- InducingPointKernel
    IPK = "kernels/inducing_point_kernel.py"
    fn = S.func(IPK, "InducingPointKernel", "_inducing_inv_root")
    if not (len(fn.body) == 1 and isinstance(fn.body[0], ast.If) and "_cached_kernel_inv_root" in _u(fn.body[0].test)):
        raise TranslateError("_inducing_inv_root: cache guard changed")
    I = Interp({"self._inducing_mat": mat("Kzz")}, static={"not self.training": False},
               skip={"self._cached_kernel_inv_root = res"}, where="InducingPointKernel._inducing_inv_root").run(fn.body[0].orelse)
    out.append(emit_def("inducingInvRoot", "`InducingPointKernel._inducing_inv_root` (uncached branch)",
                        f"{F} {{m : Nat}} (P : Structured.Prim α) (Kzz : DMat m m α) : DMat m m α", I))
    fn = S.func(IPK, "InducingPointKernel", "_get_covariance")
    envc = {"self.base_kernel(x1, self.inducing_points)": mat("K1z"), "self.base_kernel(x2, self.inducing_points)": mat("K2z"),
            "self._inducing_inv_root": mat("R"), "self.base_kernel(x1, x2, diag=True)": vec("kdiag i")}
    dynflag = {"self.training": ("dyn", "training"), "settings.sgpr_diagonal_correction.on()": ("dyn", "corr")}
    I = Interp(envc, static={"torch.equal(x1, x2)": True, **dynflag}, where="InducingPointKernel._get_covariance[x1 = x2]").run(fn.body)
    out.append(emit_def("getCovarianceSame", "`InducingPointKernel._get_covariance`, branch `torch.equal(x1, x2)` — the ONLY guard of the diagonal "
                        "correction besides `not self.training` and the setting: it is applied to whatever block has x1 = x2, the "
                        "train–train block included",
                        f"{{α : Type}} [Field α] [Max α] {{n m : Nat}} (training corr : Bool) (kdiag : Fin n → α) (K1z : DMat n m α) (R : DMat m m α) : DMat n n α", I))
    I = Interp(envc, static={"torch.equal(x1, x2)": False, **dynflag}, where="InducingPointKernel._get_covariance[x1 != x2]").run(fn.body)
    out.append(emit_def("getCovarianceCross", "`InducingPointKernel._get_covariance`, branch `x1 ≠ x2`",
                        f"{F} {{n1 n2 m : Nat}} (K1z : DMat n1 m α) (K2z : DMat n2 m α) (R : DMat m m α) : DMat n1 n2 α", I))


    # ---------------- InterpolatedPredictionStrategy.get_fantasy_strategy (WISKI cache update) as a TRANSITION of `self`
    fn = S.func(M_EPS, "InterpolatedPredictionStrategy", "get_fantasy_strategy")
    shape_only = {
        "full_mean, full_covar = (full_output.mean, full_output.lazy_covariance_matrix)",
        "batch_shape = full_inputs[0].shape[:-2]", "full_mean = full_mean.view(*batch_shape, -1)", "num_train = self.num_train",
        "fant_fant_covar = full_covar[..., num_train:, num_train:].evaluate_kernel()", "fant_mean = full_mean[..., num_train:]",
        "fant_likelihood = self.likelihood.get_fantasy_likelihood(**kwargs)", "return fant_strat"}
    noise_call = "fant_likelihood.noise_covar(fant_wmat.transpose(-1, -2) if len(fant_wmat.shape) > 2 else fant_wmat)"
    I = Interp({"self.prepare_dense_wmat(fant_fant_covar)": mat("Wf.transpose"), noise_call: Val("diag", v=vec("noisef i")),
                "self.interp_inner_prod": mat("P0"), "self.interp_response_cache": mat("resp0"),
                "targets": mat("yf"), "fant_mean": mat("muf")},
               where="InterpolatedPredictionStrategy.get_fantasy_strategy")
    handed = {}
    made = False
    for s_ in fn.body:
        t_ = _u(s_)
        if t_ in shape_only or (isinstance(s_, ast.Expr) and isinstance(s_.value, ast.Constant)):
            continue
        if isinstance(s_, ast.Assign) and _u(s_.targets[0]) == "fant_strat":
            kws = {k.arg: _u(k.value) for k in s_.value.keywords} if isinstance(s_.value, ast.Call) else {}
            if _u(s_.value.func) != "self.__class__" or kws.get("uses_wiski") != "True" or kws.get("likelihood") != "fant_likelihood":
                raise TranslateError(f"get_fantasy_strategy: construction of the fantasy strategy outside vocabulary: {t_}")
            made = True
            continue
        if isinstance(s_, ast.Expr) and isinstance(s_.value, ast.Call) and _u(s_.value.func) == "add_to_cache":
            a_ = s_.value.args
            if len(a_) != 3 or _u(a_[0]) != "fant_strat" or not isinstance(a_[1], ast.Constant):
                raise TranslateError(f"get_fantasy_strategy: add_to_cache call outside vocabulary: {t_}")
            handed[a_[1].value] = dense(I.ev(a_[2]))
            continue
        I.stmt(s_)
    if not made or set(handed) != {"interp_inner_prod", "interp_response_cache"}:
        raise TranslateError(f"get_fantasy_strategy: the fantasy strategy does not receive exactly the two WISKI caches: {sorted(handed)}")
    body = "".join(l + "\n" for l in I.lets)
    out.append("/-- `InterpolatedPredictionStrategy.get_fantasy_strategy` (WISKI): `((interp_inner_prod, interp_response_cache) handed to the new\n"
               "strategy, (the same two caches of `self` AFTER the call))` — in-place tensor operations on a cache of `self` show in the second pair -/\n"
               f"def wiskiFantasyStep {F} {{g nf : Nat}} (P : Structured.Prim α) (P0 : DMat g g α) (resp0 : DMat g 1 α) (Wf : DMat nf g α)\n"
               "    (noisef : Fin nf → α) (yf muf : DMat nf 1 α) : (DMat g g α × DMat g 1 α) × (DMat g g α × DMat g 1 α) :=\n"
               + body +
               f"  (({handed['interp_inner_prod']}, {handed['interp_response_cache']}), "
               f"({dense(I.env['self.interp_inner_prod'])}, {dense(I.env['self.interp_response_cache'])}))\n\n")

    # ---------------- GridInterpolationKernel._compute_grid: the shape operations in front of Interpolation.interpolate
    out.append(_compute_grid(S))

    # ---------------- InducingPointKernel.__deepcopy__: how every constructor argument of the copy is obtained
    fn = S.func(IPK, "InducingPointKernel", "__deepcopy__")
    if [a.arg for a in fn.args.args] != ["self", "memo"]:
        raise TranslateError("InducingPointKernel.__deepcopy__: signature changed")
    ctor = [s_ for s_ in ast.walk(fn) if isinstance(s_, ast.Assign) and isinstance(s_.value, ast.Call) and _u(s_.value.func) == "self.__class__"]
    if len(ctor) != 1 or ctor[0].value.args:
        raise TranslateError("InducingPointKernel.__deepcopy__: construction of the copy outside vocabulary")
    rows = []
    for k in ctor[0].value.keywords:
        t_ = _u(k.value)
        if t_ == f"copy.deepcopy(self.{k.arg}, memo)":
            mode = "memo"
        elif t_ == f"copy.deepcopy(self.{k.arg})":
            mode = "fresh"
        elif t_ == f"self.{k.arg}":
            mode = "shared"
        else:
            mode = "other"
        rows.append(f'("{k.arg}", Structured.CopyMode.{mode})')
    out.append("/-- `InducingPointKernel.__deepcopy__(self, memo)`: how each constructor argument of the copy is obtained -/\n"
               "def inducingDeepcopyArgs : List (String × Structured.CopyMode) :=\n  [" + ", ".join(rows) + "]\n\n")


    # ---------------- eval-mode caches of the structured kernels: who may READ them, who must DROP them
    def _ifs(fn_):
        return [x for x in ast.walk(fn_) if isinstance(x, ast.If)]

    def read_guarded(fn_, attr):
        """every `if` whose test mentions the cache attribute reads it only outside training mode"""
        tests = [_u(x.test) for x in _ifs(fn_) if f"hasattr(self, '{attr}')" in _u(x.test)]
        return bool(tests) and all(t == f"not self.training and hasattr(self, '{attr}')" for t in tests)

    def writes_guarded(fn_, attr):
        """every assignment to the cache attribute sits under `if not self.training:` (possibly with the read guard as `else`)"""
        ok, found = True, False
        def walk(stmts, in_eval):
            nonlocal ok, found
            for x in stmts:
                if isinstance(x, ast.Assign) and any(_u(t) == f"self.{attr}" for t in x.targets):
                    found = True
                    ok = ok and in_eval
                elif isinstance(x, ast.If):
                    walk(x.body, in_eval or _u(x.test) == "not self.training")
                    walk(x.orelse, in_eval)
                elif isinstance(x, (ast.With, ast.For)):
                    walk(x.body, in_eval)
        walk(fn_.body, False)
        return ok and found

    facts = []
    fm_, fr_ = S.func(IPK, "InducingPointKernel", "_inducing_mat"), S.func(IPK, "InducingPointKernel", "_inducing_inv_root")
    facts.append(("InducingPointKernel._inducing_mat reads its cache only in eval mode", read_guarded(fm_, "_cached_kernel_mat")))
    facts.append(("InducingPointKernel._inducing_mat writes its cache only in eval mode", writes_guarded(fm_, "_cached_kernel_mat")))
    facts.append(("InducingPointKernel._inducing_inv_root reads its cache only in eval mode", read_guarded(fr_, "_cached_kernel_inv_root")))
    facts.append(("InducingPointKernel._inducing_inv_root writes its cache only in eval mode", writes_guarded(fr_, "_cached_kernel_inv_root")))
    fc_ = S.func(IPK, "InducingPointKernel", "_clear_cache")
    dels = sorted(_u(x) for x in ast.walk(fc_) if isinstance(x, ast.Delete))
    facts.append(("InducingPointKernel._clear_cache drops both caches", dels == ["del self._cached_kernel_inv_root", "del self._cached_kernel_mat"]))
    GKF = "kernels/grid_kernel.py"
    gf_ = S.func(GKF, "GridKernel", "forward")
    facts.append(("GridKernel.forward reads its cache only in eval mode", read_guarded(gf_, "_cached_kernel_mat")))
    facts.append(("GridKernel.forward writes its cache only in eval mode", writes_guarded(gf_, "_cached_kernel_mat")))
    gu_ = S.func(GKF, "GridKernel", "update_grid")
    facts.append(("GridKernel.update_grid drops the cache unconditionally (also in interpolation mode)",
                  any(isinstance(x, ast.Expr) and _u(x) == "self._clear_cache()" for x in gu_.body)))
    gc_ = S.func(GKF, "GridKernel", "_clear_cache")
    facts.append(("GridKernel._clear_cache drops the cached kernel matrix", any(_u(x) == "del self._cached_kernel_mat" for x in ast.walk(gc_))))
    mt_ = S.func("module.py", "Module", "train")
    tests = [_u(x.test) for x in mt_.body if isinstance(x, ast.If) and any(_u(y) == "self._clear_cache()" for y in x.body)]
    # cleared on EVERY switch that enters training mode and on leaving it
    facts.append(("Module.train clears the eval caches when entering training mode", tests in (["self.training and (not mode) or mode"], ["mode or (self.training and (not mode))"], ["True"])
                  or any(isinstance(x, ast.Expr) and _u(x) == "self._clear_cache()" for x in mt_.body)))
    facts.append(("Module.train clears the eval caches when leaving training mode", bool(tests) and all("self.training and (not mode)" in t or t == "True" for t in tests)
                  or any(isinstance(x, ast.Expr) and _u(x) == "self._clear_cache()" for x in mt_.body)))
    out.append("/-- eval-mode caches of the structured kernels (`_cached_kernel_mat`, `_cached_kernel_inv_root`): read / write guards and the\n"
               "invalidation points, as found in the source -/\n"
               "def evalCacheFacts : List (String × Bool) :=\n  [" + ",\n   ".join(f'("{k}", {"true" if v else "false"})' for k, v in facts) + "]\n\n")

    # ---------------- MultitaskKernel / IndexKernel / LCMKernel
    fn = S.func("kernels/multitask_kernel.py", "MultitaskKernel", "forward")
    I = Interp({"self.task_covar_module.covar_matrix": mat("Kt"), "self.data_covar_module.forward(x1, x2, **params)": mat("Kx")},
               static={"last_dim_is_batch": False, "len(x1.shape[:-2])": False, "diag": False},
               where="MultitaskKernel.forward").run(fn.body)
    out.append(emit_def("multitaskForward", "`MultitaskKernel.forward`: operand order of the Kronecker product",
                        "{α : Type} [Mul α] {n m t s : Nat} (Kx : DMat n m α) (Kt : DMat t s α) : DMat (n * t) (m * s) α", I))
    fn = S.func("kernels/index_kernel.py", "IndexKernel", "_eval_covar_matrix")
    I = Interp({"self.covar_factor": mat("F"), "self.var": vec("v i")}, where="IndexKernel._eval_covar_matrix").run(fn.body)
    out.append(emit_def("indexCovarMatrix", "`IndexKernel._eval_covar_matrix`",
                        "{α : Type} [Mul α] [AddCommMonoid α] {t r : Nat} (F : DMat t r α) (v : Fin t → α) : DMat t t α", I))
    fn = S.func("kernels/index_kernel.py", "IndexKernel", "forward")
    I = Interp({"self._eval_covar_matrix()": mat("B"), "i1": Val("idx", e="i1"), "i2": Val("idx", e="i2")},
               skip={"batch_shape = torch.broadcast_shapes(i1.shape[:-2], i2.shape[:-2], self.batch_shape)"},
               where="IndexKernel.forward")
    body = list(fn.body)
    if _u(body[0]).replace("(", "").replace(")", "") != "i1, i2 = i1.long, i2.long":
        raise TranslateError(f"IndexKernel.forward: first statement changed: {_u(body[0])}")
    I.env["batch_shape + i1.shape[-2:]"] = Val("const", v="shape")
    I.env["batch_shape + i2.shape[-2:]"] = Val("const", v="shape")
    I.run(body[1:])
    out.append(emit_def("indexForward", "`IndexKernel.forward`: the covariance matrix gathered at the index vectors",
                        "{α : Type} {n m t : Nat} (B : DMat t t α) (i1 : Fin n → Fin t) (i2 : Fin m → Fin t) : DMat n m α", I))
    fn = S.func("kernels/lcm_kernel.py", "LCMKernel", "forward")
    b = fn.body
    ok = (len(b) == 3 and _u(b[0]) == "res = self.covar_module_list[0].forward(x1, x2, **params)" and isinstance(b[1], ast.For)
          and _u(b[1].target) == "m" and _u(b[1].iter) == "self.covar_module_list[1:]" and len(b[1].body) == 1
          and _u(b[1].body[0]) == "res += m.forward(x1, x2, **params)" and _u(b[2]) == "return res")
    if not ok:
        raise TranslateError("LCMKernel.forward outside vocabulary: " + " | ".join(_u(x) for x in b))
    out.append("/-- `LCMKernel.forward`: `res = first.forward(…); for m in rest: res += m.forward(…)` -/\n"
               "def lcmForward {α : Type} [Mul α] [Add α] {n m t s : Nat} (hd : DMat n m α × DMat t s α) (tl : List (DMat n m α × DMat t s α)) :\n"
               "    DMat (n * t) (m * s) α :=\n"
               "  tl.foldl (fun res p => res.add (multitaskForward p.1 p.2)) (multitaskForward hd.1 hd.2)\n\n")

    # ---------------- GridKernel
    GK = "kernels/grid_kernel.py"
    fn = S.func(GK, "GridKernel", "_kronecker_order")
    body = [s for s in fn.body if not (isinstance(s, ast.Expr) and isinstance(s.value, ast.Constant))]
    if len(body) != 1 or not isinstance(body[0], ast.Return) or not isinstance(body[0].value, ast.IfExp):
        raise TranslateError("_kronecker_order outside vocabulary")
    ie = body[0].value

    def order(n):
        t = _u(n)
        if t == "covars":
            return "covars"
        if t == "covars[::-1]":
            return "covars.reverse"
        raise TranslateError(f"_kronecker_order: operand order outside vocabulary: {t}")
    test = _u(ie.test)
    if test == "self.interpolation_mode":
        c = "interpolation_mode"
    elif test == "not self.interpolation_mode":
        c = "!interpolation_mode"
    else:
        raise TranslateError(f"_kronecker_order: guard outside vocabulary: {test}")
    out.append("/-- `GridKernel._kronecker_order` -/\n"
               "def kroneckerOrder {α : Type} (interpolation_mode : Bool) (covars : List (Structured.Sq α)) : List (Structured.Sq α) :=\n"
               f"  if {c} then {order(ie.body)} else {order(ie.orelse)}\n\n")
    fwd = S.func(GK, "GridKernel", "forward")
    ks = [s for s in ast.walk(fwd) if isinstance(s, ast.Assign) and _u(s.targets[0]) == "covar" and "KroneckerProductLinearOperator" in _u(s.value)]
    if len(ks) != 2 or any(_u(s.value) != "KroneckerProductLinearOperator(*self._kronecker_order(covars))" for s in ks):
        raise TranslateError("GridKernel.forward: Kronecker assembly outside vocabulary: " + " | ".join(_u(s.value) for s in ks))
    tz = [s for s in ast.walk(fwd) if isinstance(s, ast.Assign) and "ToeplitzLinearOperator" in _u(s.value)]
    want = "[ToeplitzLinearOperator(covars[..., i, :proj.size(-1)]) for i, proj in enumerate(grid)]"
    got = [_u(s.value) for s in tz if _u(s.targets[0]) == "covars"]
    if got != [want]:
        raise TranslateError(f"GridKernel.forward: Toeplitz construction outside vocabulary: {got}")
    first = [s for s in ast.walk(fwd) if isinstance(s, ast.Assign) and _u(s.targets[0]) == "covars" and "first_grid_point" in _u(s.value)]
    if len(first) != 1 or not _u(first[0].value).startswith("to_dense(self.base_kernel(first_grid_point, full_grid, last_dim_is_batch=True"):
        raise TranslateError("GridKernel.forward: the Toeplitz columns are not k(first grid point, grid)")
    out.append("/-- `GridKernel.forward`, use_toeplitz: one symmetric Toeplitz factor per dimension from the row `k(g₀, g_l)` -/\n"
               "def gridToeplitzFactors {α : Type} (rows : List (Σ n : Nat, Fin n → α)) : List (Structured.Sq α) :=\n"
               "  rows.map fun c => ⟨c.1, Structured.toeplitz c.2⟩\n\n"
               "/-- `GridKernel.forward`: `KroneckerProductLinearOperator(*self._kronecker_order(covars))` -/\n"
               "def gridForward {α : Type} [Mul α] [Zero α] [One α] (interpolation_mode : Bool) (covars : List (Structured.Sq α)) : Structured.Sq α :=\n"
               "  Structured.kronList (kroneckerOrder interpolation_mode covars)\n\n")

    # last_dim_is_batch (additive structure: one kernel per input dimension, NO Kronecker product): both branches
    ldb = [s_ for s_ in ast.walk(fwd) if isinstance(s_, ast.If) and _u(s_.test) == "last_dim_is_batch"]
    got = sorted(" ; ".join(_u(x) for x in s_.body) for s_ in ldb)
    want = sorted(["covar = ToeplitzLinearOperator(covars.squeeze(-2))", "covar = covars"])
    if got != want:
        raise TranslateError(f"GridKernel.forward: last_dim_is_batch branches outside vocabulary: {got}")
    out.append("/-- `GridKernel.forward`, `last_dim_is_batch=True`: the batch of per-dimension factors (Toeplitz of the row `k(g₀, g_l)` under\n"
               "use_toeplitz, the dense factor otherwise); no Kronecker product is taken -/\n"
               "def gridForwardLastDimBatch {α : Type} (rows : List (Σ n : Nat, Fin n → α)) (covars : List (Structured.Sq α)) (use_toeplitz : Bool) :\n"
               "    List (Structured.Sq α) :=\n"
               "  if use_toeplitz then rows.map (fun c => ⟨c.1, Structured.toeplitz c.2⟩) else covars\n\n")

    # ---------------- InducingPointKernelAddedLossTerm.loss
    fn = S.func("mlls/inducing_point_kernel_added_loss_term.py", "InducingPointKernelAddedLossTerm", "loss")
    I = Interp({"self.prior_dist.lazy_covariance_matrix": Val("vecdiag", v=vec("kdiag i")),
                "self.variational_dist.lazy_covariance_matrix": Val("vecdiag", v=vec("qdiag i")),
                "self.likelihood._shaped_noise_covar(shape, *params)": Val("vecdiag", v=vec("noise i"))},
               static={"isinstance(self.likelihood, MultitaskGaussianLikelihood)": False},
               skip={"shape = prior_covar.shape[:-1]"}, where="InducingPointKernelAddedLossTerm.loss").run(fn.body)
    out.append(emit_def("addedLoss", "`InducingPointKernelAddedLossTerm.loss` (GaussianLikelihood): diagonals of the prior and of the Nyström "
                        "covariance, noise diagonal",
                        "{α : Type} [Field α] {n : Nat} (kdiag qdiag noise : Fin n → α) : α", I))

    head = ("/- GENERATED by harness/translate/g7_structured_algebra.py from gpytorch/{models/exact_prediction_strategies,\n"
            "kernels/{inducing_point,multitask,index,lcm,grid}_kernel, mlls/inducing_point_kernel_added_loss_term}.py — do not edit. -/\n"
            "import GPVerif.Model.Structured\n\nset_option linter.unusedVariables false\n\nnamespace Gen.StructuredAlgebra\n\n")
    return head + "".join(out) + "end Gen.StructuredAlgebra\n"


def _write(path, text):
    old = open(path).read() if os.path.exists(path) else None
    if old != text:
        os.makedirs(os.path.dirname(path), exist_ok=True)
        with open(path, "w") as fh:
            fh.write(text)
    return old != text


def generate(repo, out_path):
    return _write(out_path, translate(repo))


if __name__ == "__main__":
    import sys
    repo = sys.argv[1] if len(sys.argv) > 1 else "/repo"
    out = sys.argv[2] if len(sys.argv) > 2 else os.path.join(os.path.dirname(os.path.abspath(__file__)),
                                                             "../../lean/GPVerif/Gen/StructuredAlgebra.lean")
    print("changed:", generate(repo, os.path.abspath(out)))

"""G5 (initialize part): Python AST of gpytorch/module.py::Module.initialize (+ `_get_module_and_name`)
->  lean/GPVerif/Gen/InitDispatch.lean  (a program of `Model/InitIR.lean`, semantics `ParamStore.Init.exec`).

What is read from the source:
  * the statements before / after the single `for name, val in kwargs.items():` loop (an optional empty dict
    `D = {}` that collects child kwargs; an optional `for module, kw in D.items(): module.initialize(**kw)`;
    `return self`);
  * the loop body, compiled to predicated straight-line code: every `if` gets a fresh register holding its
    condition, the statements of its branches carry the register literals as guards (so a local that a branch
    re-assigns cannot change which branch a later statement belongs to);
  * how a dotted name is dispatched: `self._get_module_and_name(name)` (its body is checked: split at the FIRST dot,
    look the head up in `self._modules`, AttributeError otherwise), the `nn.ModuleList` index branch, whether the
    child is called immediately with the single pair `{name: val}` or its kwargs are collected (overwriting or
    merging) and the child is called after the loop;
  * the leaf chain on a plain name (`not hasattr` -> AttributeError; not a parameter/buffer -> `setattr`;
    Tensor -> bound check, copy; float -> bound check, fill; else AttributeError) and, inside the Tensor / float
    branches, the ORDER of the bound check and the store;
  * the prior-support validation after the chain (recognised; a no-op of the store model).
Anything else raises TranslateError (a broken tie, never skipped).
"""
import ast
import os


class TranslateError(Exception):
    pass


def _src(node):
    try:
        return ast.unparse(node)
    except Exception:
        return repr(node)


def _bad(node, why):
    raise TranslateError(f"Module.initialize: {why}: `{_src(node)[:160]}` (line {getattr(node, 'lineno', '?')})")


def _write(path, text):
    old = open(path).read() if os.path.exists(path) else None
    if old != text:
        os.makedirs(os.path.dirname(path), exist_ok=True)
        with open(path, "w") as fh:
            fh.write(text)
    return old != text


def _strip_doc(body):
    if body and isinstance(body[0], ast.Expr) and isinstance(body[0].value, ast.Constant) and isinstance(body[0].value.value, str):
        return body[1:]
    return body


def _is_raise(st, exc):
    return isinstance(st, ast.Raise) and st.exc is not None and _src(st.exc).startswith(exc + "(")


class Translator:
    def __init__(self, repo):
        self.repo = repo
        tree = ast.parse(open(os.path.join(repo, "gpytorch/module.py")).read())
        cls = next((n for n in tree.body if isinstance(n, ast.ClassDef) and n.name == "Module"), None)
        if cls is None:
            raise TranslateError("class Module not found in gpytorch/module.py")
        self.methods = {m.name: m for m in cls.body if isinstance(m, ast.FunctionDef)}
        for need in ("initialize", "_get_module_and_name"):
            if need not in self.methods:
                raise TranslateError(f"Module.{need} not found")
        self.regs = 0
        self.body = []          # [(guard [(reg, bool)], act-string)]
        self.epilogue = []
        self.dname = None
        self.tensor_steps = None
        self.float_steps = None
        self.info = {}

    # ---- _get_module_and_name: split at the first dot, head must be a registered sub-module
    def check_get_module_and_name(self):
        fn = self.methods["_get_module_and_name"]
        args = [a.arg for a in fn.args.args]
        if len(args) != 2:
            _bad(fn, "_get_module_and_name: expected (self, parameter_name)")
        pn = args[1]
        body = _strip_doc(fn.body)
        if len(body) != 2:
            _bad(fn, "_get_module_and_name: expected `split` + `if`")
        a, cond = body
        if not (isinstance(a, ast.Assign) and _src(a) in (f"module, name = {pn}.split('.', 1)", f"(module, name) = {pn}.split('.', 1)")):
            _bad(a, "_get_module_and_name: the name is not split at the first dot")
        ok = (isinstance(cond, ast.If) and _src(cond.test) == "module in self._modules" and len(cond.body) == 1
              and isinstance(cond.body[0], ast.Return) and _src(cond.body[0].value) == "(self.__getattr__(module), name)"
              and len(cond.orelse) == 1 and _is_raise(cond.orelse[0], "AttributeError"))
        if not ok:
            _bad(cond, "_get_module_and_name: lookup in self._modules / AttributeError outside vocabulary")

    # ---- leaf chain
    def leaf_chain(self, st):
        """`st` is the If with test `not hasattr(self, name)`; verifies the whole chain, records the step orders."""
        def expect(node, test):
            if not (isinstance(node, ast.If) and _src(node.test) == test):
                _bad(node, f"leaf chain: expected `if {test}`")
        expect(st, "not hasattr(self, name)")
        if not (len(st.body) == 1 and _is_raise(st.body[0], "AttributeError")):
            _bad(st, "leaf chain: unknown names must raise AttributeError")
        if len(st.orelse) != 1:
            _bad(st, "leaf chain: shape")
        s2 = st.orelse[0]
        expect(s2, "name not in self._parameters and name not in self._buffers")
        if not (len(s2.body) == 1 and isinstance(s2.body[0], ast.Expr) and _src(s2.body[0].value) == "setattr(self, name, val)"):
            _bad(s2, "leaf chain: non-parameter names must go through setattr(self, name, val)")
        if len(s2.orelse) != 1:
            _bad(s2, "leaf chain: shape")
        s3 = s2.orelse[0]
        expect(s3, "isinstance(val, Tensor)")
        self.tensor_steps = self.leaf_steps(s3.body, "Tensor")
        if len(s3.orelse) != 1:
            _bad(s3, "leaf chain: shape")
        s4 = s3.orelse[0]
        expect(s4, "isinstance(val, float)")
        self.float_steps = self.leaf_steps(s4.body, "float")
        if not (len(s4.orelse) == 1 and _is_raise(s4.orelse[0], "AttributeError")):
            _bad(s4, "leaf chain: other value types must raise AttributeError")

    def leaf_steps(self, stmts, which):
        steps = []
        for st in stmts:
            s = _src(st)
            if isinstance(st, ast.Assign) and s in ("constraint = self.constraint_for_parameter_name(name)",
                                                    "param = self.__getattr__(name)"):
                continue
            if isinstance(st, ast.If) and "check_raw" in _src(st.test):
                calls = [n for n in ast.walk(st.test) if isinstance(n, ast.Call) and _src(n.func).endswith("check_raw")]
                if len(calls) != 1 or [_src(a) for a in calls[0].args] != ["val"]:
                    _bad(st, f"{which} branch: the bound check does not test the value handed in")
                if not (len(st.body) == 1 and _is_raise(st.body[0], "RuntimeError") and not st.orelse):
                    _bad(st, f"{which} branch: the bound check does not raise RuntimeError")
                steps.append("check")
                continue
            if isinstance(st, ast.Try):
                inner = [x for x in st.body if isinstance(x, ast.Expr)]
                if len(inner) == len(st.body) == 1 and ".data.copy_(val" in _src(inner[0]):
                    for h in st.handlers:
                        for x in ast.walk(h):
                            if isinstance(x, ast.Expr) and not (".data.copy_(val" in _src(x)):
                                _bad(x, f"{which} branch: fallback store outside vocabulary")
                    steps.append("store")
                    continue
            if isinstance(st, ast.Expr) and (".data.copy_(val" in s or ".data.fill_(val)" in s):
                steps.append("store")
                continue
            _bad(st, f"{which} branch: statement outside vocabulary")
        if sorted(steps) != ["check", "store"]:
            raise TranslateError(f"Module.initialize: {which} branch has steps {steps}, expected one bound check and one store")
        return steps

    # ---- loop body
    def fresh(self):
        self.regs += 1
        return self.regs - 1

    def emit(self, guard, act):
        self.body.append((list(guard), act))

    def rec(self, stmts, guard):
        i = 0
        D = self.dname
        while i < len(stmts):
            st = stmts[i]
            s = _src(st)
            i += 1
            if isinstance(st, ast.If):
                t = _src(st.test)
                if t == "isinstance(val, int)":
                    if not (len(st.body) == 1 and _src(st.body[0]) == "val = float(val)" and not st.orelse):
                        _bad(st, "int conversion outside vocabulary")
                    self.emit(guard, ".intToFloat")
                    continue
                if t in ("'.' in name", '"." in name'):
                    r = self.fresh()
                    self.emit(guard, f".test {r} .dotted")
                    self.rec(st.body, guard + [(r, True)])
                    if st.orelse:
                        self.rec(st.orelse, guard + [(r, False)])
                    continue
                if t == "isinstance(module, nn.ModuleList)":
                    r = self.fresh()
                    self.emit(guard, f".test {r} .moduleIsList")
                    self.rec(st.body, guard + [(r, True)])
                    if st.orelse:
                        self.rec(st.orelse, guard + [(r, False)])
                    continue
                if t == "not hasattr(self, name)":
                    self.leaf_chain(st)
                    self.emit(guard, ".leaf")
                    continue
                _bad(st, "if-statement outside vocabulary")
            if isinstance(st, ast.Assign):
                if s in ("module, name = self._get_module_and_name(name)", "(module, name) = self._get_module_and_name(name)"):
                    self.emit(guard, ".splitModule")
                    continue
                if s in ("idx, name = name.split('.', 1)", "(idx, name) = name.split('.', 1)"):
                    self.emit(guard, ".splitIndex")
                    continue
                if s == "module = module[int(idx)]":
                    self.emit(guard, ".selectIndexed")
                    continue
                if D and s == f"{D}[module] = {{name: val}}":
                    self.emit(guard, ".deferStore false")
                    continue
                if D and s == f"{D}.setdefault(module, {{}})[name] = val":
                    self.emit(guard, ".deferStore true")
                    continue
                if s == "prior_name = '_'.join([name, 'prior'])":
                    nxt = stmts[i] if i < len(stmts) else None
                    ok = (isinstance(nxt, ast.If) and _src(nxt.test) == "prior_name in self._priors" and not nxt.orelse
                          and "_validate_sample(closure(self))" in _src(nxt))
                    if not ok:
                        _bad(st, "prior validation outside vocabulary")
                    i += 1
                    self.emit(guard, ".validatePrior")
                    continue
                _bad(st, "assignment outside vocabulary")
            if isinstance(st, ast.Expr):
                v = _src(st.value)
                if v == "module.initialize(**{name: val})":
                    self.emit(guard, ".callChild false")
                    continue
                if v == "module[int(idx)].initialize(**{name: val})":
                    self.emit(guard, ".callChild true")
                    continue
                if D and v == f"{D}.setdefault(module, {{}}).update({{name: val}})":
                    self.emit(guard, ".deferStore true")
                    continue
                _bad(st, "expression statement outside vocabulary")
            if isinstance(st, ast.Continue):
                self.emit(guard, ".continue_")
                continue
            _bad(st, "statement outside vocabulary")

    # ---- register_prior(name, prior, "param"): which module the generated closures act on
    def prior_closures(self):
        for need in ("register_prior", "sample_from_prior"):
            if need not in self.methods:
                raise TranslateError(f"Module.{need} not found")
        rp = self.methods["register_prior"]
        inner = {n.name: n for n in ast.walk(rp) if isinstance(n, ast.FunctionDef) and n is not rp}

        def one(fname, pattern):
            fn = inner.get(fname)
            if fn is None:
                raise TranslateError(f"Module.register_prior: inner function {fname} not found")
            arg = fn.args.args[0].arg
            body = _strip_doc(fn.body)
            if len(body) != 1:
                _bad(fn, f"{fname}: body outside vocabulary")
            st = body[0]
            txt = _src(st.value if isinstance(st, (ast.Return, ast.Expr)) else st)
            if txt == pattern.format(m=arg):
                return ".argument"
            if txt == pattern.format(m="self"):
                return ".registering"
            _bad(st, f"{fname}: outside vocabulary")
        reads = one("closure_new", "getattr({m}, param)")
        writes = one("setting_closure_new", "{m}.initialize(**{{param: val}})")
        sp = _strip_doc(self.methods["sample_from_prior"].body)
        calls = [_src(x.value) for x in sp if isinstance(x, ast.Expr)]
        if calls == ["setting_closure(self, prior.sample())"]:
            sample = ".argument"       # the module `sample_from_prior` is called on is handed to the setting closure
        else:
            raise TranslateError(f"Module.sample_from_prior: call of the setting closure outside vocabulary: {calls}")
        # the closures must be what is stored
        if "self._priors[name] = (prior, closure, setting_closure)" not in _src(rp):
            raise TranslateError("Module.register_prior: `_priors[name] = (prior, closure, setting_closure)` not found")
        self.info_closures = {"closure_reads": reads, "setting_closure_writes": writes, "sample_from_prior_passes": sample}
        return reads, writes, sample

    def run(self):
        self.check_get_module_and_name()
        self.closures = self.prior_closures()
        fn = self.methods["initialize"]
        if fn.args.kwarg is None or fn.args.kwarg.arg != "kwargs" or [a.arg for a in fn.args.args] != ["self"]:
            _bad(fn, "signature is not initialize(self, **kwargs)")
        body = _strip_doc(fn.body)
        loops = [k for k, st in enumerate(body) if isinstance(st, ast.For) and _src(st.iter) == "kwargs.items()"]
        if len(loops) != 1:
            raise TranslateError(f"Module.initialize: expected exactly one loop over kwargs.items(), found {len(loops)}")
        k = loops[0]
        loop = body[k]
        if _src(loop.target) not in ("(name, val)", "name, val") or loop.orelse:
            _bad(loop, "loop header outside vocabulary")
        for st in body[:k]:
            tgt = st.target if isinstance(st, ast.AnnAssign) else (st.targets[0] if isinstance(st, ast.Assign) and len(st.targets) == 1 else None)
            val = getattr(st, "value", None)
            if isinstance(tgt, ast.Name) and val is not None and _src(val) in ("{}", "dict()") and self.dname is None:
                self.dname = tgt.id
                continue
            _bad(st, "statement before the loop outside vocabulary")
        self.rec(loop.body, [])
        tail = body[k + 1:]
        if not tail or _src(tail[-1]) != "return self":
            raise TranslateError("Module.initialize: does not end with `return self`")
        for st in tail[:-1]:
            ok = (self.dname and isinstance(st, ast.For) and _src(st.iter) == f"{self.dname}.items()" and not st.orelse
                  and isinstance(st.target, ast.Tuple) and len(st.target.elts) == 2 and _src(st.target.elts[0]) == "module"
                  and len(st.body) == 1 and isinstance(st.body[0], ast.Expr)
                  and _src(st.body[0].value) == f"module.initialize(**{_src(st.target.elts[1])})")
            if not ok:
                _bad(st, "statement after the loop outside vocabulary")
            self.epilogue.append(([], ".flushDeferred"))
        if self.tensor_steps is None:
            raise TranslateError("Module.initialize: the leaf chain on plain names was not found")
        uses_defer = any(a.startswith(".deferStore") for _, a in self.body)
        if uses_defer and not self.epilogue:
            raise TranslateError("Module.initialize: child kwargs are collected but never used")
        self.info = {"deferred": uses_defer, "statements": len(self.body), "registers": self.regs,
                     "tensor_steps": self.tensor_steps, "float_steps": self.float_steps, **self.info_closures}
        return self.text()

    def text(self):
        def stmt(g, a):
            gs = ", ".join(f"({r}, {'true' if b else 'false'})" for r, b in g)
            return f"⟨[{gs}], {a}⟩"
        L = []
        A = L.append
        A("/-")
        A("GENERATED by harness/translate/g5_initialize.py from gpytorch/module.py (Module.initialize,")
        A("Module._get_module_and_name) — do not edit.  Predicated form of the loop body: `⟨guard, act⟩`, a guard literal")
        A("`(r, b)` = the condition stored in register `r` by `.test r _` evaluated to `b`.")
        A("-/")
        A("import GPVerif.Model.InitIR")
        A("")
        A("namespace Gen.InitDispatch")
        A("open InitIR")
        A("")
        A("/-- `Module.initialize(self, **kwargs)`: `for name, val in kwargs.items(): body`, then `epilogue`, `return self` -/")
        A("def initializeProg : Program :=")
        A("  { body := [" + (",\n             ".join(stmt(g, a) for g, a in self.body)) + "],")
        A("    epilogue := [" + ", ".join(stmt(g, a) for g, a in self.epilogue) + "] }")
        A("")
        A("/-- Tensor branch of the leaf chain: order of the bound check and the copy -/")
        A("def tensorSteps : List LeafStep := [" + ", ".join("." + s for s in self.tensor_steps) + "]")
        A("/-- float branch of the leaf chain: order of the bound check and the fill -/")
        A("def floatSteps : List LeafStep := [" + ", ".join("." + s for s in self.float_steps) + "]")
        A("")
        A("/-- `register_prior(name, prior, \"param\")`: the module the generated closure reads / the generated setting closure")
        A("initializes / `sample_from_prior` hands to the setting closure (`.argument` = the module it is called with) -/")
        A(f"def priorClosureReads : ClosureTarget := {self.closures[0]}")
        A(f"def priorSettingClosureWrites : ClosureTarget := {self.closures[1]}")
        A(f"def sampleFromPriorPasses : ClosureTarget := {self.closures[2]}")
        A("")
        A("end Gen.InitDispatch")
        return "\n".join(L) + "\n"


def generate(repo, out_path):
    tr = Translator(repo)
    text = tr.run()
    changed = _write(out_path, text)
    return tr, changed


if __name__ == "__main__":
    import sys
    repo = sys.argv[1] if len(sys.argv) > 1 else "/repo"
    out = sys.argv[2] if len(sys.argv) > 2 else os.path.join(os.path.dirname(os.path.abspath(__file__)),
                                                             "../../lean/GPVerif/Gen/InitDispatch.lean")
    tr, changed = generate(repo, os.path.abspath(out))
    print(tr.info, "changed=", changed)

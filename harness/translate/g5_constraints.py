"""G5 (constraints part): Python AST of gpytorch/constraints/constraints.py, gpytorch/utils/transforms.py and
the bound check of gpytorch/module.py::Module.initialize  ->  lean/GPVerif/Gen/Constraints.lean.

What is read from the source (nothing about the formulas is assumed):
  * per class (Interval, GreaterThan, Positive, LessThan): the default `transform` / `inv_transform` of
    `__init__`, resolved through the module-level imports / assignments (`from torch import sigmoid`,
    `softplus = torch.nn.Softplus()`, `from ..utils.transforms import inv_sigmoid, inv_softplus`);
  * the bounds a derived class passes to `super().__init__` (`math.inf`, `-math.inf`, a literal, a parameter);
  * the bodies of `transform`, `inverse_transform`, `check`, `check_raw`, `intersect` (symbolically executed:
    straight-line assignments, `if not self.enforced: return <arg>`, `A if self.enforced else <arg>`);
  * `inv_softplus`, `inv_sigmoid` of utils/transforms.py;
  * the guards under which `Module.initialize` raises for Tensor / float values;
  * the `ValueError` guard of `Interval.__init__` (empty interval);
  * every `_set_<p>` method of kernels / likelihoods / means / module.py / models: whether it is the standard
    `self.initialize(raw_<p>=self.raw_<p>_constraint.inverse_transform(value))`.
Anything outside this vocabulary raises TranslateError (a broken tie, never skipped).
"""
import ast
import os


class TranslateError(Exception):
    pass


def _write(path, text):
    old = open(path).read() if os.path.exists(path) else None
    if old != text:
        os.makedirs(os.path.dirname(path), exist_ok=True)
        with open(path, "w") as fh:
            fh.write(text)
    return old != text


def _src(node):
    try:
        return ast.unparse(node)
    except Exception:
        return repr(node)


def _bad(node, why):
    raise TranslateError(f"{why}: `{_src(node)}` (line {getattr(node, 'lineno', '?')})")


# ------------------------------------------------------------------ expression IR
# ('var', name) | ('nat', n) | ('dec', 'literal text') | ('neg', e) | ('bin', op, a, b) | ('app', fn, e)
# | ('pi',) | ('inf', sign)
# boolean IR: ('le', a, b) | ('ge', a, b) | ('lt', a, b) | ('gt', a, b) | ('and', p, q) | ('or', p, q) | ('not', p)
#             | ('atom', name)

BINOPS = {ast.Add: "+", ast.Sub: "-", ast.Mult: "*", ast.Div: "/"}
CMPOPS = {ast.LtE: "le", ast.GtE: "ge", ast.Lt: "lt", ast.Gt: "gt"}
TORCH_CMP = {"ge": "ge", "le": "le", "lt": "lt", "gt": "gt"}

# torch / math vocabulary -> Lean function of the scalar layer
TORCH_FN = {"log": "TransFn.log", "exp": "TransFn.exp", "expm1": "TransFn.expm1", "log1p": "TransFn.log1p",
            "sqrt": "TransFn.sqrt", "abs": "TransFn.abs", "sigmoid": "ScalarFn.sigmoid"}


def lean_num(text_or_value):
    """Python numeric literal -> IR."""
    v = text_or_value
    if isinstance(v, bool):
        raise TranslateError("boolean used as number")
    if isinstance(v, int):
        return ("nat", v) if v >= 0 else ("neg", ("nat", -v))
    if isinstance(v, float):
        if v != v or v in (float("inf"), float("-inf")):
            return ("inf", 1 if v > 0 else -1)
        if v == int(v) and abs(v) < 2 ** 53:
            return lean_num(int(v))
        r = repr(v)
        if "e" in r or "E" in r:
            raise TranslateError(f"literal {r} outside vocabulary (exponent form)")
        return ("dec", r) if v > 0 else ("neg", ("dec", repr(-v)))
    raise TranslateError(f"literal {v!r} outside vocabulary")


def emit(e):
    k = e[0]
    if k == "var":
        return e[1]
    if k == "nat":
        return f"(({e[1]} : Nat) : α)"
    if k == "dec":
        return f"({e[1]} : α)"
    if k == "pi":
        return "(TransFn.pi : α)"
    if k == "neg":
        return f"(-{emit(e[1])})"
    if k == "bin":
        return f"({emit(e[2])} {e[1]} {emit(e[3])})"
    if k == "app":
        return f"({e[1]} {emit(e[2])})"
    if k == "app2":
        return f"({e[1]} {emit(e[2])} {emit(e[3])})"
    if k == "inf":
        raise TranslateError("infinite bound reached a formula (must be eliminated by the bound analysis)")
    raise TranslateError(f"cannot emit {e!r}")


def emit_prop(p):
    k = p[0]
    if k in ("le", "ge", "lt", "gt"):
        op = {"le": "≤", "ge": "≥", "lt": "<", "gt": ">"}[k]
        return f"({emit(p[1])} {op} {emit(p[2])})"
    if k == "and":
        return f"({emit_prop(p[1])} ∧ {emit_prop(p[2])})"
    if k == "or":
        return f"({emit_prop(p[1])} ∨ {emit_prop(p[2])})"
    if k == "not":
        return f"(¬ {emit_prop(p[1])})"
    if k == "true":
        return "True"
    raise TranslateError(f"cannot emit proposition {p!r}")


def emit_bool(p):
    k = p[0]
    if k == "atom":
        return p[1]
    if k == "and":
        return f"({emit_bool(p[1])} && {emit_bool(p[2])})"
    if k == "or":
        return f"({emit_bool(p[1])} || {emit_bool(p[2])})"
    if k == "not":
        return f"(!{emit_bool(p[1])})"
    raise TranslateError(f"cannot emit boolean {p!r}")


def log_args(e, fns):
    """Arguments of every TransFn.log / log1p application inside `e` (log1p a  counts as  log (1 + a)),
    looking through the translated helper functions `fns` (lean name -> IR over the variable x)."""
    out = []
    if not isinstance(e, tuple):
        return out
    if e[0] == "app":
        if e[1] == "TransFn.log":
            out.append(e[2])
        elif e[1] == "TransFn.log1p":
            out.append(("bin", "+", ("nat", 1), e[2]))
        elif e[1] in fns:
            out += [subst(a, {"x": e[2]}) for a in log_args(fns[e[1]], fns)]
        elif e[1] in ("ScalarFn.softplus", "ScalarFn.sigmoid", "TransFn.exp", "TransFn.expm1", "TransFn.abs"):
            pass
        else:
            raise TranslateError(f"log-argument analysis: unknown function {e[1]}")
    for x in e[1:]:
        if isinstance(x, tuple):
            out += log_args(x, fns)
    return out


def has_inf(e):
    return isinstance(e, tuple) and (e[0] == "inf" or any(has_inf(x) for x in e[1:]))


def simp_prop(p):
    """Eliminate comparisons against ±inf (true for every finite value) — used for the derived classes whose
    constructor passes `math.inf` / `-math.inf` to Interval.__init__."""
    k = p[0]
    if k in ("le", "ge", "lt", "gt"):
        a, b = p[1], p[2]
        if b[0] == "inf":
            if (k in ("le", "lt") and b[1] > 0) or (k in ("ge", "gt") and b[1] < 0):
                return ("true",)
            raise TranslateError(f"comparison {p!r} against an infinite bound is never true")
        if has_inf(a) or has_inf(b):
            raise TranslateError(f"infinite bound inside comparison {p!r}")
        return p
    if k == "and":
        x, y = simp_prop(p[1]), simp_prop(p[2])
        if x == ("true",):
            return y
        if y == ("true",):
            return x
        return ("and", x, y)
    if k == "not":
        return ("not", simp_prop(p[1]))
    raise TranslateError(f"cannot simplify {p!r}")


# ------------------------------------------------------------------ module-level name resolution

class ModuleNames:
    """Resolves module-level names of constraints.py to the scalar vocabulary."""

    def __init__(self, tree, transforms_fns):
        self.map = {}
        for node in tree.body:
            if isinstance(node, ast.ImportFrom):
                for a in node.names:
                    nm = a.asname or a.name
                    if node.module == "torch" and a.name in TORCH_FN:
                        self.map[nm] = TORCH_FN[a.name]
                    elif node.module and node.module.endswith("utils.transforms") and a.name in transforms_fns:
                        self.map[nm] = "fn:" + a.name
            elif isinstance(node, ast.Assign) and len(node.targets) == 1 and isinstance(node.targets[0], ast.Name):
                v = node.value
                # softplus = torch.nn.Softplus()
                if (isinstance(v, ast.Call) and _src(v.func) == "torch.nn.Softplus"):
                    if v.args or v.keywords:
                        _bad(v, "Softplus with non-default beta/threshold is outside the vocabulary")
                    self.map[node.targets[0].id] = "ScalarFn.softplus"

    def resolve(self, name, node):
        if name not in self.map:
            _bad(node, f"name `{name}` does not resolve to a known transform")
        return self.map[name]


LEAN_FN_NAME = {"inv_softplus": "invSoftplus", "inv_sigmoid": "invSigmoid"}


class Exec:
    """Symbolic executor for the small method bodies."""

    def __init__(self, names, self_fields, fn_of=None):
        self.names = names          # ModuleNames or None
        self.self_fields = self_fields  # attr name -> IR (self.lower_bound, self.upper_bound) or callables
        self.fn_of = fn_of or {}    # self._transform / self._inv_transform -> lean function name

    def expr(self, node, env):
        if isinstance(node, ast.Name):
            if node.id in env:
                return env[node.id]
            _bad(node, "unknown variable")
        if isinstance(node, ast.Constant):
            return lean_num(node.value)
        if isinstance(node, ast.UnaryOp) and isinstance(node.op, ast.USub):
            inner = self.expr(node.operand, env)
            return ("inf", -inner[1]) if inner[0] == "inf" else ("neg", inner)
        if isinstance(node, ast.BinOp) and type(node.op) in BINOPS:
            return ("bin", BINOPS[type(node.op)], self.expr(node.left, env), self.expr(node.right, env))
        if isinstance(node, ast.Attribute):
            s = _src(node)
            if s == "math.pi":
                return ("pi",)
            if s == "math.inf":
                return ("inf", 1)
            if isinstance(node.value, ast.Name) and node.value.id == "self" and node.attr in self.self_fields:
                return self.self_fields[node.attr]
            _bad(node, "attribute outside vocabulary")
        if isinstance(node, ast.Call):
            f = _src(node.func)
            if node.keywords:
                _bad(node, "keyword arguments outside vocabulary")
            if f.startswith("torch.") and f[6:] in TORCH_FN and len(node.args) == 1:
                return ("app", TORCH_FN[f[6:]], self.expr(node.args[0], env))
            if f in ("torch.max", "torch.min") and len(node.args) == 2:
                return ("app2", "max" if f.endswith("max") else "min", self.expr(node.args[0], env),
                        self.expr(node.args[1], env))
            if f in self.fn_of and len(node.args) == 1:
                return ("app", self.fn_of[f], self.expr(node.args[0], env))
            if f in ("self.transform", "self.inverse_transform") and len(node.args) == 1 and f in self.self_fields:
                return self.self_fields[f](self.expr(node.args[0], env))
            _bad(node, "call outside vocabulary")
        if isinstance(node, ast.IfExp):
            # A if self.enforced else <identity>
            if _src(node.test) != "self.enforced":
                _bad(node, "conditional on something other than self.enforced")
            ident = self.expr(node.orelse, env)
            if ident != env.get("__arg__"):
                _bad(node, "non-enforced branch is not the identity")
            return self.expr(node.body, env)
        _bad(node, "expression outside vocabulary")

    def prop(self, node, env):
        if isinstance(node, ast.Call):
            f = _src(node.func)
            if f in ("bool", "torch.all", "torch.any") and len(node.args) == 1 and not node.keywords:
                # tensors are modelled elementwise; `all` over the elements of one scalar is the scalar test
                return self.prop(node.args[0], env)
            if f.startswith("torch.") and f[6:] in TORCH_CMP and len(node.args) == 2:
                return (TORCH_CMP[f[6:]], self.expr(node.args[0], env), self.expr(node.args[1], env))
        if isinstance(node, ast.Compare) and len(node.ops) == 1 and type(node.ops[0]) in CMPOPS:
            return (CMPOPS[type(node.ops[0])], self.expr(node.left, env), self.expr(node.comparators[0], env))
        if isinstance(node, ast.BoolOp):
            parts = [self.prop(v, env) for v in node.values]
            op = "and" if isinstance(node.op, ast.And) else "or"
            out = parts[0]
            for p in parts[1:]:
                out = (op, out, p)
            return out
        if isinstance(node, ast.UnaryOp) and isinstance(node.op, ast.Not):
            return ("not", self.prop(node.operand, env))
        _bad(node, "proposition outside vocabulary")

    def body(self, fn, kind="expr"):
        """Executes `fn` (ast.FunctionDef with one tensor argument besides self); returns the IR of the result."""
        args = [a.arg for a in fn.args.args if a.arg != "self"]
        if len(args) != 1:
            _bad(fn, "expected exactly one argument")
        env = {args[0]: ("var", "x"), "__arg__": ("var", "x")}
        for st in fn.body:
            if isinstance(st, ast.Expr) and isinstance(st.value, ast.Constant) and isinstance(st.value.value, str):
                continue  # docstring
            if isinstance(st, ast.If):
                # if not self.enforced: return <arg>
                ok = (_src(st.test) == "not self.enforced" and len(st.body) == 1 and isinstance(st.body[0], ast.Return)
                      and not st.orelse and self.expr(st.body[0].value, env) == env["__arg__"])
                if not ok:
                    _bad(st, "if-statement outside vocabulary")
                continue
            if isinstance(st, ast.Assign) and len(st.targets) == 1 and isinstance(st.targets[0], ast.Name):
                env[st.targets[0].id] = self.expr(st.value, env)
                continue
            if isinstance(st, ast.Return):
                return self.prop(st.value, env) if kind == "prop" else self.expr(st.value, env)
            _bad(st, "statement outside vocabulary")
        _bad(fn, "no return")


def _find(tree_body, cls, name=None):
    for n in tree_body:
        if isinstance(n, cls) and (name is None or n.name == name):
            return n
    return None


def _defaults(fn):
    """name -> default AST of a FunctionDef's positional args."""
    args = fn.args.args
    ds = fn.args.defaults
    out = {}
    for a, d in zip(args[len(args) - len(ds):], ds):
        out[a.arg] = d
    return out


def subst(e, m):
    if not isinstance(e, tuple):
        return e
    if e[0] == "var" and e[1] in m:
        return m[e[1]]
    return tuple(subst(x, m) if isinstance(x, tuple) else x for x in e)


class Translator:
    CLASSES = ["Interval", "GreaterThan", "Positive", "LessThan"]

    def __init__(self, repo):
        self.repo = repo
        self.cons_tree = ast.parse(open(os.path.join(repo, "gpytorch/constraints/constraints.py")).read())
        self.tr_tree = ast.parse(open(os.path.join(repo, "gpytorch/utils/transforms.py")).read())
        self.mod_tree = ast.parse(open(os.path.join(repo, "gpytorch/module.py")).read())
        self.out = {}
        self.info = {}

    # ---- utils/transforms.py
    def transforms(self):
        fns = {}
        ex = Exec(None, {})
        for name in LEAN_FN_NAME:
            fn = _find(self.tr_tree.body, ast.FunctionDef, name)
            if fn is None:
                raise TranslateError(f"utils/transforms.py: {name} not found")
            fns[name] = ex.body(fn)
        # registry must still pair the transforms with these inverses
        reg = None
        for n in self.tr_tree.body:
            if isinstance(n, ast.Assign) and _src(n.targets[0]) == "TRANSFORM_REGISTRY" and isinstance(n.value, ast.Dict):
                reg = {_src(k): _src(v) for k, v in zip(n.value.keys, n.value.values)}
        if reg is None:
            raise TranslateError("TRANSFORM_REGISTRY not found")
        self.info["registry"] = reg
        return fns

    # ---- constraints.py
    def klass(self, name):
        c = _find(self.cons_tree.body, ast.ClassDef, name)
        if c is None:
            raise TranslateError(f"class {name} not found")
        return c

    def method(self, cname, mname):
        """Method resolution along the single-inheritance chain inside constraints.py."""
        while True:
            c = self.klass(cname)
            m = _find(c.body, ast.FunctionDef, mname)
            if m is not None:
                return m, cname
            if len(c.bases) != 1 or not isinstance(c.bases[0], ast.Name) or c.bases[0].id not in self.CLASSES:
                raise TranslateError(f"{cname}.{mname}: not found along the class chain")
            cname = c.bases[0].id

    def bounds(self, cname):
        """(lower IR, upper IR, default transform name, default inverse name) as seen by Interval.__init__ when
        `cname(...)` is constructed with default transforms.  Constructor parameters are the variables l / u."""
        c = self.klass(cname)
        init = _find(c.body, ast.FunctionDef, "__init__")
        if init is None:
            raise TranslateError(f"{cname}.__init__ missing")
        d = _defaults(init)
        for k in ("transform", "inv_transform"):
            if k not in d or not isinstance(d[k], ast.Name):
                _bad(init, f"{cname}.__init__: default of `{k}` is not a plain name")
        tf = self.names.resolve(d["transform"].id, d["transform"])
        itf = self.names.resolve(d["inv_transform"].id, d["inv_transform"])
        if cname == "Interval":
            return ("var", "l"), ("var", "u"), tf, itf
        # derived: single statement super().__init__(lower_bound=…, upper_bound=…, transform=transform, …)
        calls = [s.value for s in init.body if isinstance(s, ast.Expr) and isinstance(s.value, ast.Call)
                 and _src(s.value.func) == "super().__init__"]
        if len(calls) != 1 or calls[0].args:
            _bad(init, f"{cname}.__init__: expected one keyword-only super().__init__ call")
        kw = {k.arg: k.value for k in calls[0].keywords}
        for k in ("transform", "inv_transform"):
            if k not in kw or _src(kw[k]) != k:
                _bad(calls[0], f"{cname}.__init__ does not forward `{k}` unchanged")
        base = c.bases[0].id
        bl, bu, _, _ = self.bounds(base)
        ex = Exec(self.names, {})
        env = {"lower_bound": ("var", "l"), "upper_bound": ("var", "u")}
        m = {}
        if "lower_bound" in kw:
            m["l"] = ex.expr(kw["lower_bound"], env)
        if "upper_bound" in kw:
            m["u"] = ex.expr(kw["upper_bound"], env)
        unknown = set(kw) - {"lower_bound", "upper_bound", "transform", "inv_transform", "initial_value"}
        if unknown:
            _bad(calls[0], f"unexpected constructor keywords {sorted(unknown)}")
        return subst(bl, m), subst(bu, m), tf, itf

    def run(self):
        tfs = self.transforms()
        self.tfs_ir = {LEAN_FN_NAME[k]: v for k, v in tfs.items()}
        self.names = ModuleNames(self.cons_tree, tfs)
        lines = []
        A = lines.append
        A("/-")
        A("GENERATED by harness/translate/g5_constraints.py from gpytorch/constraints/constraints.py,")
        A("gpytorch/utils/transforms.py and gpytorch/module.py (Module.initialize) — do not edit.")
        A("Scalar (elementwise) meaning of the four constraint classes with their default transforms.")
        A("-/")
        A("import GPVerif.Model.ScalarFn")
        A("")
        A("set_option linter.unusedVariables false")
        A("")
        A("namespace Gen.Constraints")
        A("open ScalarFn")
        A("")
        A("variable {α : Type} [Add α] [Sub α] [Mul α] [Div α] [Neg α] [NatCast α] [OfScientific α] [TransFn α]")
        A("")
        for py, ln in LEAN_FN_NAME.items():
            A(f"/-- `gpytorch.utils.transforms.{py}` -/")
            A(f"def {ln} (x : α) : α := {emit(tfs[py])}")
            A("")
        table = {}
        for cname in self.CLASSES:
            lo, up, tf, itf = self.bounds(cname)
            fn_of = {"self._transform": self._lean_fn(tf), "self._inv_transform": self._lean_fn(itf)}
            fields = {"lower_bound": lo, "upper_bound": up}
            ex = Exec(self.names, fields, fn_of)
            tm, t_owner = self.method(cname, "transform")
            im, i_owner = self.method(cname, "inverse_transform")
            t_ir, i_ir = ex.body(tm), ex.body(im)
            params = [p for p, b in (("l", lo), ("u", up)) if b == ("var", p)]
            used = [p for p in params]
            pfx = cname[0].lower() + cname[1:]
            sig = " ".join(used + ["x"])
            if has_inf(t_ir) or has_inf(i_ir):
                raise TranslateError(f"{cname}: an infinite bound enters transform / inverse_transform")
            A(f"/-- `{cname}.transform` (defined in `{t_owner}`), default `_transform = {tf}` -/")
            A(f"def {pfx}Transform ({sig} : α) : α := {emit(t_ir)}")
            A(f"/-- `{cname}.inverse_transform` (defined in `{i_owner}`), default `_inv_transform = {itf}` -/")
            A(f"def {pfx}Inverse ({sig} : α) : α := {emit(i_ir)}")
            A(f"/-- arguments of every `log` evaluated by `{cname}.inverse_transform` (IEEE: a negative one makes the "
              "result NaN, and NaN fails `check_raw`) -/")
            A(f"def {pfx}InverseLogArgs ({sig} : α) : List α := [{', '.join(emit(a) for a in log_args(i_ir, self.tfs_ir))}]")
            # check / check_raw (inherited from Interval unless overridden)
            cm, c_owner = self.method(cname, "check")
            c_ir = simp_prop(ex.body(cm, "prop"))
            fields2 = dict(fields)
            fields2["self.transform"] = lambda e, t=t_ir: subst(t, {"x": e})
            ex2 = Exec(self.names, fields2, fn_of)
            rm, r_owner = self.method(cname, "check_raw")
            r_ir = simp_prop(ex2.body(rm, "prop"))
            A(f"/-- `{cname}.check` (defined in `{c_owner}`; comparisons with ±∞ bounds dropped) -/")
            A(f"def {pfx}Check [LE α] ({sig} : α) : Prop := {emit_prop(c_ir)}")
            A(f"/-- `{cname}.check_raw` (defined in `{r_owner}`) -/")
            A(f"def {pfx}CheckRaw [LE α] ({sig} : α) : Prop := {emit_prop(r_ir)}")
            A("")
            table[cname] = {"params": used, "transform": tf, "inverse": itf, "lower": lo, "upper": up,
                            "transform_ir": t_ir, "inverse_ir": i_ir}
        # Interval.__init__ ValueError guard
        init = _find(self.klass("Interval").body, ast.FunctionDef, "__init__")
        guard = None
        for st in init.body:
            if isinstance(st, ast.If) and len(st.body) == 1 and isinstance(st.body[0], ast.Raise) \
                    and "ValueError" in _src(st.body[0]) and "empty" in _src(st.body[0]):
                guard = Exec(self.names, {}).prop(st.test, {"lower_bound": ("var", "l"), "upper_bound": ("var", "u")})
        if guard is None:
            raise TranslateError("Interval.__init__: empty-interval ValueError guard not found")
        A("/-- `Interval.__init__` raises `ValueError` (empty interval) exactly when this holds -/")
        A(f"def intervalInitRejects [LE α] (l u : α) : Prop := {emit_prop(guard)}")
        A("")
        # intersect
        it = _find(self.klass("Interval").body, ast.FunctionDef, "intersect")
        if it is not None:
            env = {}
            ex = Exec(self.names, {})
            lo_e = up_e = None
            for st in it.body:
                if isinstance(st, ast.Assign) and _src(st.targets[0]) in ("lower_bound", "upper_bound"):
                    call = st.value
                    f = _src(call.func)
                    a = [_src(x) for x in call.args]
                    want = "lower_bound" if _src(st.targets[0]) == "lower_bound" else "upper_bound"
                    if f not in ("torch.max", "torch.min") or a != [f"self.{want}", f"other.{want}"]:
                        _bad(st, "intersect: bound expression outside vocabulary")
                    if want == "lower_bound":
                        lo_e = "max" if f == "torch.max" else "min"
                    else:
                        up_e = "max" if f == "torch.max" else "min"
                elif isinstance(st, ast.Return):
                    if _src(st.value) != "Interval(lower_bound, upper_bound)":
                        _bad(st, "intersect: return outside vocabulary")
            if lo_e is None or up_e is None:
                raise TranslateError("Interval.intersect: bounds not found")
            A("/-- `Interval.intersect`: bounds of the returned Interval -/")
            A(f"def intersectLower [Max α] [Min α] (l₁ l₂ : α) : α := {lo_e} l₁ l₂")
            A(f"def intersectUpper [Max α] [Min α] (u₁ u₂ : α) : α := {up_e} u₁ u₂")
            A("")
            self.info["intersect"] = (lo_e, up_e)
        # Module.initialize guards
        g_t, g_f = self.initialize_guards()
        A("/-- `Module.initialize`, Tensor value: raises RuntimeError (out of bounds) exactly when this is true -/")
        A(f"def initTensorRaises (hasConstraint enforced checkRaw : Bool) : Bool := {emit_bool(g_t)}")
        A("/-- `Module.initialize`, float value -/")
        A(f"def initFloatRaises (hasConstraint enforced checkRaw : Bool) : Bool := {emit_bool(g_f)}")
        A("")
        A("end Gen.Constraints")
        self.table = table
        return "\n".join(lines) + "\n"

    def _lean_fn(self, resolved):
        if resolved.startswith("fn:"):
            return LEAN_FN_NAME[resolved[3:]]
        return resolved

    def initialize_guards(self):
        cls = _find(self.mod_tree.body, ast.ClassDef, "Module")
        init = _find(cls.body, ast.FunctionDef, "initialize")
        if init is None:
            raise TranslateError("Module.initialize not found")
        found = {}

        def atom(node):
            s = _src(node)
            if s == "constraint is not None":
                return ("atom", "hasConstraint")
            if s == "constraint.enforced":
                return ("atom", "enforced")
            if s == "constraint.check_raw(val)":
                return ("atom", "checkRaw")
            if isinstance(node, ast.UnaryOp) and isinstance(node.op, ast.Not):
                return ("not", atom(node.operand))
            if isinstance(node, ast.BoolOp):
                parts = [atom(v) for v in node.values]
                op = "and" if isinstance(node.op, ast.And) else "or"
                out = parts[0]
                for p in parts[1:]:
                    out = (op, out, p)
                return out
            _bad(node, "initialize guard outside vocabulary")

        def visit(stmts, ctx):
            for st in stmts:
                if isinstance(st, ast.If):
                    t = _src(st.test)
                    if t == "isinstance(val, Tensor)":
                        visit(st.body, "tensor")
                        visit(st.orelse, ctx)
                    elif t == "isinstance(val, float)":
                        visit(st.body, "float")
                        visit(st.orelse, ctx)
                    elif "check_raw" in t:
                        if not (len(st.body) == 1 and isinstance(st.body[0], ast.Raise) and "RuntimeError" in _src(st.body[0])):
                            _bad(st, "bound check does not raise RuntimeError")
                        if ctx is None:
                            _bad(st, "bound check outside an isinstance branch")
                        if ctx in found:
                            _bad(st, f"second bound check in the {ctx} branch")
                        # the statement right before must bind `constraint = self.constraint_for_parameter_name(name)`
                        found[ctx] = atom(st.test)
                    else:
                        visit(st.body, ctx)
                        visit(st.orelse, ctx)
                elif isinstance(st, (ast.For, ast.While, ast.With, ast.Try)):
                    visit(st.body, ctx)
                    for h in getattr(st, "handlers", []):
                        visit(h.body, ctx)
                    visit(getattr(st, "orelse", []), ctx)
        visit(init.body, None)
        if set(found) != {"tensor", "float"}:
            raise TranslateError(f"Module.initialize: bound checks found for {sorted(found)}, expected tensor and float")
        # the copy must come after the check in the tensor branch: verified dynamically by the harness (oob test)
        return found["tensor"], found["float"]

    # ---- setter pattern scan
    def setters(self):
        std, nonstd = [], []
        roots = ["gpytorch/kernels", "gpytorch/likelihoods", "gpytorch/means", "gpytorch/module.py", "gpytorch/models",
                 "gpytorch/variational", "gpytorch/mlls", "gpytorch/priors", "gpytorch/constraints"]
        files = []
        for r in roots:
            p = os.path.join(self.repo, r)
            if os.path.isfile(p):
                files.append(p)
            elif os.path.isdir(p):
                for dp, _, fs in os.walk(p):
                    files += [os.path.join(dp, f) for f in sorted(fs) if f.endswith(".py")]
        for f in sorted(files):
            tree = ast.parse(open(f).read())
            for c in ast.walk(tree):
                if not isinstance(c, ast.ClassDef):
                    continue
                for m in c.body:
                    if isinstance(m, ast.FunctionDef) and m.name.startswith("_set_"):
                        p = m.name[len("_set_"):]
                        last = m.body[-1]
                        want = f"self.initialize(raw_{p}=self.raw_{p}_constraint.inverse_transform(value))"
                        rel = os.path.relpath(f, self.repo)
                        if isinstance(last, ast.Expr) and _src(last.value) == want:
                            std.append((rel, c.name, p))
                        else:
                            nonstd.append((rel, c.name, p, _src(last)[:120]))
        return std, nonstd


def generate(repo, out_path):
    tr = Translator(repo)
    text = tr.run()
    std, nonstd = tr.setters()
    text = text.replace("end Gen.Constraints\n",
                        "/-- number of `_set_<p>` methods of the standard form "
                        "`initialize(raw_p = raw_p_constraint.inverse_transform(value))` found in the source -/\n"
                        f"def standardSetterCount : Nat := {len(std)}\n\nend Gen.Constraints\n")
    changed = _write(out_path, text)
    tr.std_setters, tr.nonstd_setters = std, nonstd
    return tr, changed


if __name__ == "__main__":
    import sys
    repo = sys.argv[1] if len(sys.argv) > 1 else "/repo"
    out = sys.argv[2] if len(sys.argv) > 2 else os.path.join(os.path.dirname(os.path.abspath(__file__)),
                                                             "../../lean/GPVerif/Gen/Constraints.lean")
    tr, changed = generate(repo, os.path.abspath(out))
    print(f"classes={list(tr.table)} std_setters={len(tr.std_setters)} nonstd={tr.nonstd_setters} changed={changed}")

"""G4 (strategy-environment part) — Python-AST -> Lean translator for the two pieces of `_VariationalStrategy` that
decide *which* K_ZZ^{-1/2} an objective evaluation is built from (round-3 seeded misses C15-7 / C15-8):

  * the jitter in force: `__init__` (what is stored in `_jitter_val`), the `jitter_val` property and its setter
        -> `Gen.StrategyEnv.storedJitter`, `jitterVal`, `jitterSetter`, `settingReadAtCurrentDtype`
  * the memo discipline of a training-mode call: `_VariationalStrategy.__call__` starts with
    `if self.training: self._clear_cache()`, `_clear_cache` is `clear_cache_hook(self)` (= `module._memoize_cache = {}`)
    and neither `VariationalStrategy` nor `UnwhitenedVariationalStrategy` overrides it
        -> `Gen.StrategyEnv.trainingCallClearsMemo` (+ the individual facts)

Reads `$VERIF_REPO/gpytorch/variational/{_variational_strategy,variational_strategy,unwhitened_variational_strategy}.py`
and `gpytorch/utils/memoize.py`.  Values of type "float or None" are `Option α`.  Statements about the jitter outside the
vocabulary raise `TranslateError`; an *absent* or *different* cache statement is in vocabulary and yields `false`
(then the theorem `C15.training_call_starts_from_empty_memo` fails).
"""
import ast
import os


class TranslateError(Exception):
    pass


VDIR = os.path.join("gpytorch", "variational")
SETTING_USE = "settings.variational_cholesky_jitter.value(dtype=self.inducing_points.dtype)"
SETTING_CTOR = "settings.variational_cholesky_jitter.value(dtype=inducing_points.dtype)"


def _parse(repo, rel):
    return ast.parse(open(os.path.join(repo, rel)).read())


def _cls(tree, name):
    for n in tree.body:
        if isinstance(n, ast.ClassDef) and n.name == name:
            return n
    raise TranslateError(f"class {name} not found")


def _methods(cls, name):
    return [n for n in cls.body if isinstance(n, ast.FunctionDef) and n.name == name]


def _strip_doc(body):
    return [s for s in body if not (isinstance(s, ast.Expr) and isinstance(s.value, ast.Constant)
                                    and isinstance(s.value.value, str))]


def _mentions_jitter(node):
    return any((isinstance(x, ast.Name) and x.id == "jitter_val") or (isinstance(x, ast.Attribute) and x.attr == "_jitter_val")
               for x in ast.walk(node))


def translate_init(fn):
    """symbolic value (Lean term : Option α) of the local `jitter_val`, and what ends up in `self._jitter_val`"""
    local, stored = "arg", None
    for st in _strip_doc(fn.body):
        if not _mentions_jitter(st):
            continue
        src = ast.unparse(st)
        if src == "self._jitter_val = jitter_val":
            stored = local
        elif isinstance(st, ast.If) and ast.unparse(st.test) == "jitter_val is None" and not st.orelse \
                and [ast.unparse(b) for b in st.body] == [f"jitter_val = {SETTING_CTOR}"]:
            local = f"(match {local} with | none => some settingAtCtor | some v => some v)"
        elif isinstance(st, ast.Expr) and isinstance(st.value, ast.Call) and "super().__init__" in src:
            raise TranslateError(f"_VariationalStrategy.__init__ forwards jitter_val: {src}")
        else:
            raise TranslateError(f"statement about the jitter outside the vocabulary in __init__: {src[:160]}")
    if stored is None:
        raise TranslateError("__init__ does not assign self._jitter_val")
    return stored


def translate_property(cls):
    getters = [f for f in _methods(cls, "jitter_val") if any(ast.unparse(d) == "property" for d in f.decorator_list)]
    setters = [f for f in _methods(cls, "jitter_val") if any(ast.unparse(d) == "jitter_val.setter" for d in f.decorator_list)]
    if len(getters) != 1 or len(setters) != 1:
        raise TranslateError("jitter_val property / setter not found")
    body = _strip_doc(getters[0].body)
    reads_current_dtype = False
    if len(body) == 2 and isinstance(body[0], ast.If) and ast.unparse(body[0].test) == "self._jitter_val is None" \
            and not body[0].orelse and len(body[0].body) == 1 and isinstance(body[0].body[0], ast.Return) \
            and ast.unparse(body[1]) == "return self._jitter_val":
        inner = ast.unparse(body[0].body[0].value)
        if inner == SETTING_USE:
            reads_current_dtype = True
            getter = "match stored with | none => settingAtUse | some v => v"
        else:
            raise TranslateError(f"jitter_val default outside the vocabulary: {inner}")
    elif len(body) == 1 and ast.unparse(body[0]) == "return self._jitter_val":
        # the stored value is returned as it is (a stored `None` would then reach add_jitter: not a float)
        getter = "match stored with | none => settingMissing | some v => v"
    else:
        raise TranslateError("jitter_val getter outside the vocabulary: " + "; ".join(ast.unparse(b) for b in body)[:200])
    sb = [ast.unparse(b) for b in _strip_doc(setters[0].body)]
    if sb != ["self._jitter_val = jitter_val"]:
        raise TranslateError(f"jitter_val setter outside the vocabulary: {sb}")
    return getter, reads_current_dtype


def cache_facts(repo):
    base = _cls(_parse(repo, os.path.join(VDIR, "_variational_strategy.py")), "_VariationalStrategy")
    calls = _methods(base, "__call__")
    if len(calls) != 1:
        raise TranslateError("_VariationalStrategy.__call__ not found")
    body = _strip_doc(calls[0].body)
    # the clearing statement must come before anything else than the `prior` shortcut
    srcs = [ast.unparse(b) for b in body]
    want = "if self.training:\n    self._clear_cache()"
    pos = srcs.index(want) if want in srcs else -1
    shortcut = "if prior:\n    return self.model.forward(x, **kwargs)"
    # the prior shortcut returns BEFORE the memo is touched (a `prior=True` evaluation between `output = model(x)` and
    # `mll(output, y)` must leave the p(u) cached by the forward pass in place) ...
    prior_leaves = shortcut in srcs and (pos < 0 or srcs.index(shortcut) < pos) and srcs.index(shortcut) == 0
    # ... and the clearing statement is the very next one
    before_ok = pos >= 0 and (pos == 0 or (pos == 1 and srcs[0] == shortcut))
    cc = _methods(base, "_clear_cache")
    base_clear = len(cc) == 1 and [ast.unparse(b) for b in _strip_doc(cc[0].body)] == ["clear_cache_hook(self)"]
    memo = _parse(repo, os.path.join("gpytorch", "utils", "memoize.py"))
    hook = [n for n in memo.body if isinstance(n, ast.FunctionDef) and n.name == "clear_cache_hook"]
    hook_resets = len(hook) == 1 and [ast.unparse(b) for b in _strip_doc(hook[0].body)] == ["module._memoize_cache = {}"]
    no_override = True
    for fname, cname in (("variational_strategy.py", "VariationalStrategy"),
                         ("unwhitened_variational_strategy.py", "UnwhitenedVariationalStrategy")):
        c = _cls(_parse(repo, os.path.join(VDIR, fname)), cname)
        if _methods(c, "_clear_cache"):
            no_override = False
        if [ast.unparse(b) for b in c.bases] != ["_VariationalStrategy"]:
            raise TranslateError(f"{cname} no longer derives from _VariationalStrategy only")
        # a subclass `__call__` must end in the base call (VariationalStrategy converts old checkpoints first)
        for f in _methods(c, "__call__"):
            last = ast.unparse(f.body[-1])
            if last != "return super().__call__(x, prior=prior, **kwargs)":
                raise TranslateError(f"{cname}.__call__ does not end in the base call: {last}")
    return {"callClearsFirst": before_ok, "baseClearIsHook": base_clear, "hookResetsMemo": hook_resets,
            "noOverride": no_override, "priorCallLeavesMemo": prior_leaves}


def translate(repo):
    base = _cls(_parse(repo, os.path.join(VDIR, "_variational_strategy.py")), "_VariationalStrategy")
    inits = _methods(base, "__init__")
    if len(inits) != 1 or "jitter_val" not in [a.arg for a in inits[0].args.args]:
        raise TranslateError("_VariationalStrategy.__init__(…, jitter_val) not found")
    dflt = dict(zip([a.arg for a in inits[0].args.args][::-1], [ast.unparse(d) for d in inits[0].args.defaults][::-1]))
    if dflt.get("jitter_val") != "None":
        raise TranslateError(f"default of jitter_val is not None: {dflt.get('jitter_val')}")
    stored = translate_init(inits[0])
    getter, cur = translate_property(base)
    facts = cache_facts(repo)
    b = lambda x: "true" if x else "false"      # noqa: E731
    return f"""/-
GENERATED by harness/translate/g4_strategy_env.py from gpytorch/variational/_variational_strategy.py,
variational_strategy.py, unwhitened_variational_strategy.py and gpytorch/utils/memoize.py — do not edit.
Which jitter a strategy uses (constructor argument / property / setting) and the memo discipline of a training-mode call.
-/

set_option linter.unusedVariables false

namespace Gen.StrategyEnv

variable {{α : Type}}

/-- what `_VariationalStrategy.__init__(…, jitter_val=arg)` leaves in `self._jitter_val`
(`settingAtCtor` = `settings.variational_cholesky_jitter.value(dtype=inducing_points.dtype)` at construction time) -/
def storedJitter (arg : Option α) (settingAtCtor : α) : Option α := {stored}

/-- the `jitter_val` property (`settingAtUse` = the setting for the CURRENT dtype of the inducing points at the time of
the access; `settingMissing` only appears when the getter no longer consults the setting) -/
def jitterVal (stored : Option α) (settingAtUse : α) (settingMissing : α := settingAtUse) : α :=
  {getter}

/-- the `jitter_val` setter -/
def jitterSetter (v : α) : Option α := some v

/-- the getter looks the setting up with `dtype=self.inducing_points.dtype` (the current dtype) -/
def settingReadAtCurrentDtype : Bool := {b(cur)}

/-- `_VariationalStrategy.__call__`: `if self.training: self._clear_cache()` before anything but the `prior` shortcut -/
def callClearsFirst : Bool := {b(facts['callClearsFirst'])}
/-- `_VariationalStrategy._clear_cache` is `clear_cache_hook(self)` -/
def baseClearIsHook : Bool := {b(facts['baseClearIsHook'])}
/-- `clear_cache_hook` is `module._memoize_cache = {{}}` -/
def hookResetsMemo : Bool := {b(facts['hookResetsMemo'])}
/-- neither `VariationalStrategy` nor `UnwhitenedVariationalStrategy` overrides `_clear_cache` -/
def noOverride : Bool := {b(facts['noOverride'])}
/-- `strategy(x, prior=True)` returns `self.model.forward(x)` as the FIRST statement of `__call__` — before the memo is
touched, in every mode -/
def priorCallLeavesMemo : Bool := {b(facts['priorCallLeavesMemo'])}
/-- a training-mode call of either strategy starts from an empty memo table -/
def trainingCallClearsMemo : Bool := callClearsFirst && baseClearIsHook && hookResetsMemo && noOverride

end Gen.StrategyEnv
"""


def generate(repo, path, check=None):
    text = translate(repo)
    old = open(path).read() if os.path.exists(path) else None
    if old != text:
        if check is not None:
            err = check(text)
            if err:
                raise TranslateError("the regenerated Gen/StrategyEnv.lean does not type-check (kept the previous file): " + err)
        tmp = path + ".tmp"
        with open(tmp, "w") as fh:
            fh.write(text)
        os.replace(tmp, path)
    return old is not None and old != text


if __name__ == "__main__":
    import sys
    print(translate(sys.argv[1] if len(sys.argv) > 1 else os.environ.get("VERIF_REPO", "/repo")), end="")

"""G4 (C07 part) — constants and clamp / constraint expressions the C07 theorems depend on.

Reads from `$VERIF_REPO` with Python's `ast` (nothing is imported or executed):

* `gpytorch/settings.py`           : `min_variance`, `min_fixed_noise` per-dtype class-level defaults;
* `gpytorch/likelihoods/noise_models.py`
                                   : the default `GreaterThan(<literal>)` of `_HomoskedasticNoiseBase.__init__`
                                     and `HeteroskedasticNoise.__init__`; the clamp of `FixedGaussianNoise.__init__`
                                     against `settings.min_fixed_noise.value(noise.dtype)`;
* `gpytorch/likelihoods/multitask_gaussian_likelihood.py`
                                   : the default `GreaterThan(<literal>)` of `MultitaskGaussianLikelihood`;
* `gpytorch/distributions/multivariate_normal.py`
                                   : the clamp of `MultivariateNormal.variance` against
                                     `settings.min_variance.value(variance.dtype)`;
* `gpytorch/constraints/constraints.py`
                                   : `GreaterThan.transform` (the expression `transform(raw) + lower_bound`), the
                                     default `transform=softplus` and the module-level `softplus = torch.nn.Softplus()`.

Output: `lean/GPVerif/Gen/C07Constants.lean` — exact rationals (the float64 value of every literal, and the
decimal reading of the literal) and two tiny expression IRs (`C07.Clamp`, `C07.NExpr`, see Model/PSD.lean).
A construct outside the vocabulary raises `TranslateError` (broken tie, never skipped).
"""
import ast
import os
from fractions import Fraction


class TranslateError(Exception):
    pass


def _parse(repo, rel):
    p = os.path.join(repo, *rel.split("/"))
    if not os.path.exists(p):
        raise TranslateError(f"source file missing: {rel}")
    return ast.parse(open(p).read()), rel


def _cls(tree, rel, name):
    for n in tree.body:
        if isinstance(n, ast.ClassDef) and n.name == name:
            return n
    raise TranslateError(f"class {name} not found in {rel}")


def _fn(cd, rel, name):
    for n in cd.body:
        if isinstance(n, ast.FunctionDef) and n.name == name:
            return n
    raise TranslateError(f"method {cd.name}.{name} not found in {rel}")


def _num(node, where):
    """numeric literal (possibly negated) -> (text, float value)"""
    if isinstance(node, ast.Constant) and isinstance(node.value, (int, float)) and not isinstance(node.value, bool):
        return repr(node.value), float(node.value)
    if isinstance(node, ast.UnaryOp) and isinstance(node.op, ast.USub):
        t, v = _num(node.operand, where)
        return "-" + t, -v
    raise TranslateError(f"{where}: expected a numeric literal, found `{ast.unparse(node)}`")


def lean_rat(fr):
    fr = Fraction(fr)
    if fr.denominator == 1:
        return f"({fr.numerator} : Rat)"
    return f"(({fr.numerator} : Rat) / {fr.denominator})"


def dec_fraction(text):
    """exact decimal reading of a literal's text ('1e-4' -> 1/10000)"""
    return Fraction(text)


# ------------------------------------------------------------------ settings defaults

DTYPE_FIELDS = (("float", "_global_float_value"), ("double", "_global_double_value"), ("half", "_global_half_value"))


def settings_defaults(repo, cls_name):
    tree, rel = _parse(repo, "gpytorch/settings.py")
    cd = _cls(tree, rel, cls_name)
    bases = [ast.unparse(b) for b in cd.bases]
    if bases != ["_dtype_value_context"]:
        raise TranslateError(f"settings.{cls_name}: base {bases} is not _dtype_value_context")
    out = {}
    for n in cd.body:
        if isinstance(n, ast.Expr) and isinstance(n.value, ast.Constant) and isinstance(n.value.value, str):
            continue  # docstring
        if isinstance(n, ast.Assign) and len(n.targets) == 1 and isinstance(n.targets[0], ast.Name):
            out[n.targets[0].id] = _num(n.value, f"settings.{cls_name}.{n.targets[0].id}")
            continue
        raise TranslateError(f"settings.{cls_name}: statement outside vocabulary: `{ast.unparse(n)[:80]}`")
    res = {}
    for dt, f in DTYPE_FIELDS:
        if f not in out:
            raise TranslateError(f"settings.{cls_name}: no class-level default {f}")
        res[dt] = out[f]
    if set(out) - {f for _, f in DTYPE_FIELDS}:
        raise TranslateError(f"settings.{cls_name}: unexpected fields {sorted(set(out) - {f for _, f in DTYPE_FIELDS})}")
    # the accessor the clamps call: _dtype_value_context.value must dispatch on dtype to these three fields
    base = _cls(tree, rel, "_dtype_value_context")
    val = _fn(base, rel, "value")
    src = ast.unparse(val)
    for dt, f in DTYPE_FIELDS:
        if f"dtype == torch.{dt}" not in src or f"return cls.{f}" not in src:
            raise TranslateError(f"_dtype_value_context.value: dispatch for torch.{dt} -> {f} not recognised")
    return res


# ------------------------------------------------------------------ default noise constraints

def default_greater_than(fn, where, var="noise_constraint"):
    """`if <var> is None: <var> = GreaterThan(<literal>)` inside fn -> (text, value)."""
    found = []
    for n in ast.walk(fn):
        if not isinstance(n, ast.If):
            continue
        t = n.test
        if (isinstance(t, ast.Compare) and isinstance(t.left, ast.Name) and t.left.id == var
                and len(t.ops) == 1 and isinstance(t.ops[0], ast.Is)
                and isinstance(t.comparators[0], ast.Constant) and t.comparators[0].value is None):
            if len(n.body) != 1 or n.orelse:
                raise TranslateError(f"{where}: default branch of {var} has an unexpected shape")
            a = n.body[0]
            if not (isinstance(a, ast.Assign) and len(a.targets) == 1 and isinstance(a.targets[0], ast.Name)
                    and a.targets[0].id == var):
                raise TranslateError(f"{where}: default branch does not assign {var}: `{ast.unparse(a)}`")
            c = a.value
            if not (isinstance(c, ast.Call) and isinstance(c.func, ast.Name) and c.func.id == "GreaterThan"
                    and len(c.args) == 1 and not c.keywords):
                raise TranslateError(f"{where}: default of {var} is `{ast.unparse(c)}`, not GreaterThan(<literal>)")
            found.append(_num(c.args[0], where))
    if len(found) != 1:
        raise TranslateError(f"{where}: expected exactly one `if {var} is None: {var} = GreaterThan(c)`, found {len(found)}")
    return found[0]


def constraint_is_registered(fn, where, raw_names, var="noise_constraint"):
    """every `register_constraint("<raw>", <var>)` in fn passes the (defaulted) constraint variable."""
    seen = []
    for n in ast.walk(fn):
        if (isinstance(n, ast.Call) and isinstance(n.func, ast.Attribute) and n.func.attr == "register_constraint"
                and n.args and isinstance(n.args[0], ast.Constant)):
            if len(n.args) != 2 or not (isinstance(n.args[1], ast.Name) and n.args[1].id == var):
                raise TranslateError(f"{where}: `{ast.unparse(n)}` does not register {var}")
            seen.append(n.args[0].value)
    for r in raw_names:
        if r not in seen:
            raise TranslateError(f"{where}: no register_constraint({r!r}, {var})")
    return seen


# ------------------------------------------------------------------ clamp expressions

def _is_settings_value(node, setting, arg_of):
    """settings.<setting>.value(<arg_of>.dtype)"""
    return (isinstance(node, ast.Call) and ast.unparse(node.func) == f"settings.{setting}.value"
            and len(node.args) == 1 and not node.keywords and ast.unparse(node.args[0]) == f"{arg_of}.dtype")


def vexpr(node, var, bound, where):
    """tensor expression over {var, bound} -> IR text (Lean constructor syntax)."""
    if isinstance(node, ast.Name) and node.id == var:
        return ".input"
    if isinstance(node, ast.Name) and node.id == bound:
        return ".bound"
    if isinstance(node, ast.Call) and isinstance(node.func, ast.Attribute):
        recv, meth = node.func.value, node.func.attr
        if meth in ("clamp_min", "clamp_min_") and len(node.args) == 1 and not node.keywords:
            return f"(.clampMin {vexpr(recv, var, bound, where)} {vexpr(node.args[0], var, bound, where)})"
        if meth in ("clamp", "clamp_") and not node.args and [k.arg for k in node.keywords] == ["min"]:
            return f"(.clampMin {vexpr(recv, var, bound, where)} {vexpr(node.keywords[0].value, var, bound, where)})"
        if meth in ("clamp_max", "clamp_max_") and len(node.args) == 1 and not node.keywords:
            return f"(.clampMax {vexpr(recv, var, bound, where)} {vexpr(node.args[0], var, bound, where)})"
    raise TranslateError(f"{where}: tensor expression outside vocabulary: `{ast.unparse(node)}`")


def clamp_block(stmts, var, bound, setting, where):
    """Straight-line region

        <bound> = settings.<setting>.value(<var>.dtype)
        if <var>.lt(<bound>).any():
            warnings.warn(...)
            <var> = <expr over var, bound>
        [or, unguarded]  <var> = <expr over var, bound>

    -> (guard, thenE) in IR text; the else branch is `.input` (the tensor passes through unchanged).
    Returns (ir, index of the first statement after the region)."""
    i = None
    for k, s in enumerate(stmts):
        if (isinstance(s, ast.Assign) and len(s.targets) == 1 and isinstance(s.targets[0], ast.Name)
                and s.targets[0].id == bound):
            if not _is_settings_value(s.value, setting, var):
                raise TranslateError(f"{where}: `{ast.unparse(s)}` is not settings.{setting}.value({var}.dtype)")
            i = k
            break
    if i is None:
        raise TranslateError(f"{where}: no `{bound} = settings.{setting}.value({var}.dtype)`")
    if i + 1 >= len(stmts):
        raise TranslateError(f"{where}: nothing follows the bound lookup (clamp removed?)")
    s = stmts[i + 1]
    if isinstance(s, ast.If):
        t = s.test
        # <var>.lt(<bound>).any()
        ok = (isinstance(t, ast.Call) and isinstance(t.func, ast.Attribute) and t.func.attr == "any" and not t.args
              and isinstance(t.func.value, ast.Call) and isinstance(t.func.value.func, ast.Attribute)
              and t.func.value.func.attr == "lt" and len(t.func.value.args) == 1)
        if not ok:
            raise TranslateError(f"{where}: guard outside vocabulary: `{ast.unparse(t)}`")
        ga = vexpr(t.func.value.func.value, var, bound, where)
        gb = vexpr(t.func.value.args[0], var, bound, where)
        if s.orelse:
            raise TranslateError(f"{where}: guard has an else branch")
        assigns = []
        for b in s.body:
            if isinstance(b, ast.Expr) and isinstance(b.value, ast.Call) and ast.unparse(b.value.func) == "warnings.warn":
                continue
            if (isinstance(b, ast.Assign) and len(b.targets) == 1 and isinstance(b.targets[0], ast.Name)
                    and b.targets[0].id == var):
                assigns.append(vexpr(b.value, var, bound, where))
                continue
            raise TranslateError(f"{where}: statement outside vocabulary in the guarded branch: `{ast.unparse(b)[:80]}`")
        if len(assigns) > 1:
            raise TranslateError(f"{where}: several assignments to {var} in the guarded branch")
        then_e = assigns[0] if assigns else ".input"
        return f"{{ guard := some ({ga}, {gb}), thenE := {then_e}, elseE := .input }}", i + 2
    if (isinstance(s, ast.Assign) and len(s.targets) == 1 and isinstance(s.targets[0], ast.Name)
            and s.targets[0].id == var):
        return f"{{ guard := none, thenE := {vexpr(s.value, var, bound, where)}, elseE := .input }}", i + 2
    # the bound is looked up but the tensor is used unclamped
    return "{ guard := none, thenE := .input, elseE := .input }", i + 1


def variance_clamp(repo):
    tree, rel = _parse(repo, "gpytorch/distributions/multivariate_normal.py")
    cd = _cls(tree, rel, "MultivariateNormal")
    fn = None
    for n in cd.body:
        if isinstance(n, ast.FunctionDef) and n.name == "variance" and any(
                ast.unparse(d) == "property" for d in n.decorator_list):
            fn = n
    if fn is None:
        raise TranslateError("MultivariateNormal.variance property not found")
    where = "MultivariateNormal.variance"
    body = [s for s in fn.body if not (isinstance(s, ast.Expr) and isinstance(s.value, ast.Constant))]
    # first statement: the islazy split assigning `variance` in both branches
    first = body[0]
    if not (isinstance(first, ast.If) and ast.unparse(first.test) == "self.islazy"):
        raise TranslateError(f"{where}: expected the `if self.islazy:` split first")
    for br, nm in ((first.body, "lazy"), (first.orelse, "dense")):
        if not br or not (isinstance(br[-1], ast.Assign) and ast.unparse(br[-1].targets[0]) == "variance"):
            raise TranslateError(f"{where}: {nm} branch does not end by assigning `variance`")
    lazy_src = " ".join(ast.unparse(s) for s in first.body)
    if "self.lazy_covariance_matrix.diagonal(" not in lazy_src:
        raise TranslateError(f"{where}: lazy branch does not read the covariance diagonal")
    if ast.unparse(first.orelse[-1].value) != "super().variance":
        raise TranslateError(f"{where}: dense branch is not super().variance")
    ir, nxt = clamp_block(body[1:], "variance", "min_variance", "min_variance", where)
    rest = body[1 + nxt:]
    if len(rest) != 1 or not (isinstance(rest[0], ast.Return) and ast.unparse(rest[0].value) == "variance"):
        raise TranslateError(f"{where}: does not end with `return variance`")
    return ir


def fixed_noise_clamp(repo):
    tree, rel = _parse(repo, "gpytorch/likelihoods/noise_models.py")
    cd = _cls(tree, rel, "FixedGaussianNoise")
    fn = _fn(cd, rel, "__init__")
    where = "FixedGaussianNoise.__init__"
    body = list(fn.body)
    if not (body and ast.unparse(body[0]) == "super().__init__()"):
        raise TranslateError(f"{where}: expected super().__init__() first")
    ir, nxt = clamp_block(body[1:], "noise", "min_noise", "min_fixed_noise", where)
    rest = body[1 + nxt:]
    if len(rest) != 1 or ast.unparse(rest[0]) != "self.noise = noise":
        raise TranslateError(f"{where}: does not end with `self.noise = noise`")
    # forward(): which tensor becomes the diagonal
    fw = _fn(cd, rel, "forward")
    rets = [ast.unparse(n.value) for n in ast.walk(fw) if isinstance(n, ast.Return)]
    want = ["DiagLinearOperator(noise)", "DiagLinearOperator(self.noise)", "ZeroLinearOperator()"]
    if rets != want:
        raise TranslateError(f"FixedGaussianNoise.forward: returns {rets}, expected {want}")
    return ir


# ------------------------------------------------------------------ GreaterThan.transform

def nexpr(node, where):
    if isinstance(node, ast.Name) and node.id == "tensor":
        return ".raw"
    if isinstance(node, ast.Attribute) and ast.unparse(node) == "self.lower_bound":
        return ".lower"
    if isinstance(node, ast.Call) and ast.unparse(node.func) == "self._transform" and len(node.args) == 1:
        return f"(.tr {nexpr(node.args[0], where)})"
    if isinstance(node, ast.BinOp) and isinstance(node.op, (ast.Add, ast.Sub, ast.Mult)):
        op = {ast.Add: "add", ast.Sub: "sub", ast.Mult: "mul"}[type(node.op)]
        return f"(.{op} {nexpr(node.left, where)} {nexpr(node.right, where)})"
    if isinstance(node, ast.UnaryOp) and isinstance(node.op, ast.USub):
        return f"(.neg {nexpr(node.operand, where)})"
    raise TranslateError(f"{where}: expression outside vocabulary: `{ast.unparse(node)}`")


def greater_than_transform(repo):
    tree, rel = _parse(repo, "gpytorch/constraints/constraints.py")
    cd = _cls(tree, rel, "GreaterThan")
    fn = _fn(cd, rel, "transform")
    where = "GreaterThan.transform"
    body = [s for s in fn.body if not (isinstance(s, ast.Expr) and isinstance(s.value, ast.Constant))]
    # vocabulary: `t = E if self.enforced else tensor; return t`  |  `return E if self.enforced else tensor`
    if len(body) == 2 and isinstance(body[0], ast.Assign) and isinstance(body[1], ast.Return) \
            and ast.unparse(body[1].value) == ast.unparse(body[0].targets[0]):
        val = body[0].value
    elif len(body) == 1 and isinstance(body[0], ast.Return):
        val = body[0].value
    else:
        raise TranslateError(f"{where}: body outside vocabulary")
    if not (isinstance(val, ast.IfExp) and ast.unparse(val.test) == "self.enforced" and ast.unparse(val.orelse) == "tensor"):
        raise TranslateError(f"{where}: expected `E if self.enforced else tensor`, found `{ast.unparse(val)}`")
    ir = nexpr(val.body, where)
    # default transform of GreaterThan.__init__ and the module-level softplus
    init = _fn(cd, rel, "__init__")
    args = init.args
    names = [a.arg for a in args.args]
    defaults = dict(zip(names[len(names) - len(args.defaults):], args.defaults))
    if "transform" not in defaults or ast.unparse(defaults["transform"]) != "softplus":
        raise TranslateError("GreaterThan.__init__: default transform is not `softplus`")
    sp = [n for n in tree.body if isinstance(n, ast.Assign) and ast.unparse(n.targets[0]) == "softplus"]
    if len(sp) != 1 or ast.unparse(sp[0].value) != "torch.nn.Softplus()":
        raise TranslateError("constraints.softplus is not `torch.nn.Softplus()` (beta=1, threshold=20)")
    # Interval.enforced: transform is not None
    icd = _cls(tree, rel, "Interval")
    enf = _fn(icd, rel, "enforced")
    if "return self._transform is not None" not in ast.unparse(enf):
        raise TranslateError("Interval.enforced outside vocabulary")
    return ir


# ------------------------------------------------------------------ emit

def extract(repo):
    out = {}
    out["min_variance"] = settings_defaults(repo, "min_variance")
    out["min_fixed_noise"] = settings_defaults(repo, "min_fixed_noise")
    tree, rel = _parse(repo, "gpytorch/likelihoods/noise_models.py")
    homo = _fn(_cls(tree, rel, "_HomoskedasticNoiseBase"), rel, "__init__")
    out["homoskedastic_lower"] = default_greater_than(homo, "_HomoskedasticNoiseBase.__init__")
    constraint_is_registered(homo, "_HomoskedasticNoiseBase.__init__", ["raw_noise"])
    het = _fn(_cls(tree, rel, "HeteroskedasticNoise"), rel, "__init__")
    out["heteroskedastic_lower"] = default_greater_than(het, "HeteroskedasticNoise.__init__")
    # `noise` property reads the constraint transform of the raw parameter
    prop = [n for n in _cls(tree, rel, "_HomoskedasticNoiseBase").body
            if isinstance(n, ast.FunctionDef) and n.name == "noise"
            and any(ast.unparse(d) == "property" for d in n.decorator_list)]
    if len(prop) != 1 or "return self.raw_noise_constraint.transform(self.raw_noise)" not in ast.unparse(prop[0]):
        raise TranslateError("_HomoskedasticNoiseBase.noise is not raw_noise_constraint.transform(raw_noise)")
    mt, mrel = _parse(repo, "gpytorch/likelihoods/multitask_gaussian_likelihood.py")
    mfn = _fn(_cls(mt, mrel, "MultitaskGaussianLikelihood"), mrel, "__init__")
    out["multitask_lower"] = default_greater_than(mfn, "MultitaskGaussianLikelihood.__init__")
    constraint_is_registered(mfn, "MultitaskGaussianLikelihood.__init__", ["raw_task_noises", "raw_noise"])
    out["variance_clamp"] = variance_clamp(repo)
    out["fixed_noise_clamp"] = fixed_noise_clamp(repo)
    out["greater_than_transform"] = greater_than_transform(repo)
    return out


def render(x):
    L = ["/- GENERATED by harness/translate/g4_c07_constants.py from the working tree — do not edit. -/",
         "import GPVerif.Model.PSD", "", "namespace Gen.C07", "open _root_.C07", ""]

    def const(name, tv, doc):
        text, val = tv
        L.append(f"/-- {doc}: source literal `{text}`; `{name}` is the exact value of the float64 the interpreter")
        L.append(f"reads it as, `{name}Dec` the decimal reading of the literal. -/")
        L.append(f"def {name} : Rat := {lean_rat(Fraction(val))}")
        L.append(f"def {name}Dec : Rat := {lean_rat(dec_fraction(text))}")
        L.append("")

    for s, pre in (("min_variance", "minVariance"), ("min_fixed_noise", "minFixedNoise")):
        for dt in ("float", "double", "half"):
            const(f"{pre}{dt.capitalize()}", x[s][dt], f"settings.{s}._global_{dt}_value")
    const("homoskedasticNoiseLower", x["homoskedastic_lower"],
          "_HomoskedasticNoiseBase.__init__: default `noise_constraint = GreaterThan(c)`")
    const("heteroskedasticNoiseLower", x["heteroskedastic_lower"],
          "HeteroskedasticNoise.__init__: default `noise_constraint = GreaterThan(c)`")
    const("multitaskNoiseLower", x["multitask_lower"],
          "MultitaskGaussianLikelihood.__init__: default `noise_constraint = GreaterThan(c)`")
    L.append("/-- `MultivariateNormal.variance`: the statements between the covariance diagonal and `return variance`")
    L.append("(`.input` = the diagonal, `.bound` = `settings.min_variance.value(variance.dtype)`). -/")
    L.append(f"def varianceClamp : Clamp :=\n  {x['variance_clamp']}")
    L.append("")
    L.append("/-- `FixedGaussianNoise.__init__`: what is stored as `self.noise`")
    L.append("(`.input` = the constructor argument, `.bound` = `settings.min_fixed_noise.value(noise.dtype)`). -/")
    L.append(f"def fixedNoiseClamp : Clamp :=\n  {x['fixed_noise_clamp']}")
    L.append("")
    L.append("/-- `GreaterThan.transform` (enforced branch); default `transform = softplus = torch.nn.Softplus()`. -/")
    L.append(f"def greaterThanTransform : NExpr :=\n  {x['greater_than_transform']}")
    L.append("")
    L.append("end Gen.C07")
    return "\n".join(L) + "\n"


def generate(repo, out_path):
    x = extract(repo)
    text = render(x)
    old = open(out_path).read() if os.path.exists(out_path) else None
    if old != text:
        with open(out_path, "w") as fh:
            fh.write(text)
    return x, old is not None and old != text


if __name__ == "__main__":
    import sys
    repo = sys.argv[1] if len(sys.argv) > 1 else os.environ.get("VERIF_REPO", "/repo")
    here = os.path.dirname(os.path.dirname(os.path.dirname(os.path.abspath(__file__))))
    x, ch = generate(repo, os.path.join(here, "lean", "GPVerif", "Gen", "C07Constants.lean"))
    print("changed" if ch else "unchanged")
    for k, v in x.items():
        print(k, v)

"""G4 (interpolation part) — `gpytorch/utils/interpolation.py` -> `lean/GPVerif/Gen/Interp.lean`.

Regenerated on every `./check C09` from $VERIF_REPO's working tree:

* `Interpolation._cubic_interpolation_kernel`: straight-line symbolic execution (one Lean `let` per Python
  assignment).  The polynomial pieces are emitted as separate definitions (`piece0`, `piece1`, Horner form
  exactly as written in the source) together with their expanded coefficient lists (exact rationals).
* `Interpolation.interpolate`: the per-dimension arithmetic (grid spacing, lower node, relative distance, shift
  by `interp_points.max()`, `scaled_dist`, boundary conditions / snapped values / candidate node slices,
  `offset`, `n_inner_repeat`, `n_outer_repeat`, `index_coeff`) is translated expression by expression; the
  tensor scaffolding around it (nonzero / per-point loops / unsqueeze-repeat-view-add-mul) is checked
  statement by statement against the shape the hand-written assembly `Interp.interpolate` implements.

Anything outside this vocabulary raises `TranslateError` (a broken tie; run.py then searches for a failing
input with the property's own oracle).
"""
import ast
import os
from fractions import Fraction


class TranslateError(Exception):
    pass


def _u(node):
    return ast.unparse(node)


# ----------------------------------------------------------------------------- expressions
# value = (lean_text, type); types: 'R' scalar in α, 'Z' integer, 'L' integer literal (adapts),
#                                  'RK' / 'ZK' rows over the coefficient position `k`, 'B' Bool

def _rat(v):
    f = Fraction(v) if isinstance(v, int) else Fraction(*float(v).as_integer_ratio())
    return f


def _lit_R(f):
    if f.denominator == 1:
        return f"({f.numerator} : α)" if f >= 0 else f"(-({-f.numerator} : α))"
    s = f"({abs(f.numerator)} / {f.denominator} : α)"
    return s if f >= 0 else f"(-{s})"


def as_R(val):
    t, ty = val
    if ty == "R":
        return t
    if ty == "L":
        return _lit_R(Fraction(int(t)))
    if ty == "Z":
        return f"(({t} : ℤ) : α)"
    raise TranslateError(f"cannot use {ty} value `{t}` as a scalar")


def as_Z(val):
    t, ty = val
    if ty == "Z":
        return t
    if ty == "L":
        return f"({t} : ℤ)" if int(t) >= 0 else f"(-({-int(t)} : ℤ))"
    raise TranslateError(f"cannot use {ty} value `{t}` as an integer")


def _row(val):
    """row view of a value: returns (text possibly mentioning k, elem type)"""
    t, ty = val
    if ty in ("RK", "ZK"):
        return t, ty[0]
    return t, ty


class Expr:
    """Expression translator with an environment name -> value."""

    def __init__(self, env, subs=None):
        self.env = dict(env)
        self.subs = dict(subs or {})   # unparsed text -> value (for `x_target[:, i]`, `x_grid[i][0]`, …)

    def __call__(self, n):
        key = _u(n)
        if key in self.subs:
            return self.subs[key]
        m = getattr(self, "t_" + type(n).__name__, None)
        if m is None:
            raise TranslateError(f"expression outside vocabulary: {key}")
        return m(n)

    def t_Constant(self, n):
        if isinstance(n.value, bool) or not isinstance(n.value, (int, float)):
            raise TranslateError(f"constant outside vocabulary: {n.value!r}")
        if isinstance(n.value, int):
            return (str(n.value), "L")
        return (_lit_R(_rat(n.value)), "R")

    def t_Name(self, n):
        if n.id not in self.env:
            raise TranslateError(f"unknown name {n.id}")
        return self.env[n.id]

    def t_UnaryOp(self, n):
        if not isinstance(n.op, ast.USub):
            raise TranslateError(f"unary operator outside vocabulary: {_u(n)}")
        v = self(n.operand)
        if v[1] == "L":
            return (str(-int(v[0])), "L")
        if v[1] == "Z":
            return (f"(-{v[0]})", "Z")
        return (f"(-{as_R(v)})", "R")

    def _bin(self, a, b, sym, what):
        ta, ea = _row(a)
        tb, eb = _row(b)
        is_row = a[1] in ("RK", "ZK") or b[1] in ("RK", "ZK")
        if sym == "/":
            txt, ty = f"({as_R((ta, ea))} / {as_R((tb, eb))})", "R"
        elif ea in ("Z", "L") and eb in ("Z", "L"):
            if ea == "L" and eb == "L":
                val = {"+": int(ta) + int(tb), "-": int(ta) - int(tb), "*": int(ta) * int(tb)}.get(sym)
                if val is None:
                    raise TranslateError(f"operator {sym} on literals: {what}")
                return (str(val), "L")
            txt, ty = f"({as_Z((ta, ea))} {sym} {as_Z((tb, eb))})", "Z"
        else:
            txt, ty = f"({as_R((ta, ea))} {sym} {as_R((tb, eb))})", "R"
        return (txt, ty + "K") if is_row else (txt, ty)

    def t_BinOp(self, n):
        ops = {ast.Add: "+", ast.Sub: "-", ast.Mult: "*", ast.Div: "/"}
        if type(n.op) not in ops:
            raise TranslateError(f"operator outside vocabulary: {_u(n)}")
        return self._bin(self(n.left), self(n.right), ops[type(n.op)], _u(n))

    def t_Compare(self, n):
        if len(n.ops) != 1 or not isinstance(n.ops[0], (ast.Lt, ast.Gt)):
            raise TranslateError(f"comparison outside vocabulary: {_u(n)}")
        a, b = self(n.left), self(n.comparators[0])
        sym = "<" if isinstance(n.ops[0], ast.Lt) else ">"
        return (f"decide ({as_Z(a)} {sym} {as_Z(b)})", "B")

    def t_Call(self, n):
        f = n.func
        if n.keywords and not (isinstance(f, ast.Attribute) and f.attr in ("zeros",)):
            raise TranslateError(f"keyword arguments outside vocabulary: {_u(n)}")
        if isinstance(f, ast.Attribute) and isinstance(f.value, ast.Name) and f.value.id == "torch":
            if f.attr == "floor" and len(n.args) == 1:
                return (f"⌊{as_R(self(n.args[0]))}⌋", "Z")
            if f.attr == "abs" and len(n.args) == 1:
                v = self(n.args[0])
                return (f"|{as_R(_row(v))}|", "RK" if v[1].endswith("K") else "R")
            if f.attr == "zeros":
                return ("0", "L")
            raise TranslateError(f"torch function outside vocabulary: {_u(n)}")
        if isinstance(f, ast.Attribute):
            recv = self(f.value)
            a = [self(x) for x in n.args]
            rt, re_ = _row(recv)
            k = "K" if recv[1].endswith("K") else ""
            if f.attr == "abs" and not a:
                return (f"|{as_R((rt, re_))}|", "R" + k)
            if f.attr == "floor" and not a:
                return (f"⌊{as_R((rt, re_))}⌋", "Z" + k)
            if f.attr == "clamp" and len(a) == 2:
                if re_ in ("Z", "L"):
                    return (f"(min {as_Z(a[1])} (max {as_Z(a[0])} {as_Z((rt, re_))}))", "Z" + k)
                return (f"(min {as_R(a[1])} (max {as_R(a[0])} {as_R((rt, re_))}))", "R" + k)
            if f.attr == "clamp_min_" and len(a) == 1:
                return (f"(max {as_R((rt, re_))} {as_R(a[0])})", "R" + k)
            if f.attr in ("mul", "add") and len(a) == 1:
                return self._bin(recv, a[0], "*" if f.attr == "mul" else "+", _u(n))
            if f.attr == "long" and not a:
                if re_ not in ("Z", "L"):
                    raise TranslateError(f".long() of a non-integer value: {_u(n)}")
                return recv
            if f.attr == "unsqueeze" and len(a) == 1:
                return recv     # broadcasting is carried by the scalar / row distinction
            raise TranslateError(f"method outside vocabulary: {_u(n)}")
        raise TranslateError(f"call outside vocabulary: {_u(n)}")


# ----------------------------------------------------------------------------- polynomial coefficients

def _poly(n, var):
    """Expand an arithmetic AST in the single variable `var` into a coefficient list (exact rationals)."""
    def mul(p, q):
        r = [Fraction(0)] * (len(p) + len(q) - 1)
        for i, a in enumerate(p):
            for j, b in enumerate(q):
                r[i + j] += a * b
        return r

    def add(p, q, s=1):
        r = [Fraction(0)] * max(len(p), len(q))
        for i, a in enumerate(p):
            r[i] += a
        for i, b in enumerate(q):
            r[i] += s * b
        return r
    if isinstance(n, ast.Constant) and isinstance(n.value, (int, float)) and not isinstance(n.value, bool):
        return [_rat(n.value)]
    if isinstance(n, ast.Name) and n.id == var:
        return [Fraction(0), Fraction(1)]
    if isinstance(n, ast.UnaryOp) and isinstance(n.op, ast.USub):
        return [-c for c in _poly(n.operand, var)]
    if isinstance(n, ast.BinOp):
        if isinstance(n.op, ast.Add):
            return add(_poly(n.left, var), _poly(n.right, var))
        if isinstance(n.op, ast.Sub):
            return add(_poly(n.left, var), _poly(n.right, var), -1)
        if isinstance(n.op, ast.Mult):
            return mul(_poly(n.left, var), _poly(n.right, var))
    if isinstance(n, ast.Call) and isinstance(n.func, ast.Attribute) and n.func.attr == "mul" and len(n.args) == 1:
        return mul(_poly(n.func.value, var), _poly(n.args[0], var))
    raise TranslateError(f"not a polynomial in {var}: {_u(n)}")


def _q(f):
    return f"({f.numerator} : ℚ)" if f.denominator == 1 else f"({f.numerator} / {f.denominator} : ℚ)"


# ----------------------------------------------------------------------------- the two functions

def _find(tree, cls, name):
    for n in tree.body:
        if isinstance(n, ast.ClassDef) and n.name == cls:
            for f in n.body:
                if isinstance(f, ast.FunctionDef) and f.name == name:
                    return f
    raise TranslateError(f"{cls}.{name} not found")


def translate_kernel(fn):
    """-> (lean text, list of coefficient lists)"""
    args = [a.arg for a in fn.args.args]
    if args != ["self", "scaled_grid_dist"]:
        raise TranslateError(f"_cubic_interpolation_kernel signature changed: {args}")
    body = [s for s in fn.body if not (isinstance(s, ast.Expr) and isinstance(s.value, ast.Constant))]
    E = Expr({"scaled_grid_dist": ("s", "R")})
    lets, pieces, coeffs = [], [], []
    version = {}
    ret = None
    for s in body:
        if isinstance(s, ast.Return):
            ret = E(s.value)
            break
        if not (isinstance(s, ast.Assign) and len(s.targets) == 1 and isinstance(s.targets[0], ast.Name)):
            raise TranslateError(f"statement outside vocabulary in _cubic_interpolation_kernel: {_u(s)}")
        tgt = s.targets[0].id
        v = s.value
        # res = res + (<polynomial in U>) * <mask name>   -> name the polynomial
        if (isinstance(v, ast.BinOp) and isinstance(v.op, ast.Add) and isinstance(v.left, ast.Name)
                and isinstance(v.right, ast.BinOp) and isinstance(v.right.op, ast.Mult)
                and isinstance(v.right.right, ast.Name)):
            poly_ast = v.right.left
            c = _poly(poly_ast, "U")
            pe = Expr({"U": ("U", "R")})(poly_ast)
            idx = len(pieces)
            pieces.append(f"/-- `{_u(poly_ast)}` -/\ndef piece{idx} (U : α) : α := {as_R(pe)}")
            coeffs.append(c)
            val = (f"({as_R(E(v.left))} + piece{idx} {as_R(E.env['U'])} * {as_R(E(v.right.right))})", "R")
        else:
            val = E(v)
        version[tgt] = version.get(tgt, -1) + 1
        lean_name = tgt if version[tgt] == 0 else f"{tgt}_{version[tgt]}"
        ty = {"R": "α", "L": "α", "Z": "ℤ"}[val[1]]
        txt = as_R(val) if val[1] in ("R", "L") else val[0]
        lets.append(f"  let {lean_name} : {ty} := {txt}")
        E.env[tgt] = (lean_name, "R" if val[1] in ("R", "L") else "Z")
    if ret is None:
        raise TranslateError("_cubic_interpolation_kernel has no return")
    if len(pieces) != 2:
        raise TranslateError(f"expected two polynomial pieces, found {len(pieces)}")
    text = "\n\n".join(pieces) + "\n\n"
    for i, c in enumerate(coeffs):
        text += (f"/-- coefficients of `piece{i}` (constant term first), exact rationals -/\n"
                 f"def piece{i}Coeffs : List ℚ := [{', '.join(_q(x) for x in c)}]\n\n")
    text += ("/-- `Interpolation._cubic_interpolation_kernel`, one `let` per assignment of the source -/\n"
             "def cubicKernel (s : α) : α :=\n" + "\n".join(lets) + f"\n  {as_R(ret)}\n")
    return text, coeffs


def _expect(stmt, text, where):
    if _u(stmt) != text:
        raise TranslateError(f"{where}: expected `{text}`, source has `{_u(stmt)}`")


def _assign_value(stmt, target, where):
    if not (isinstance(stmt, ast.Assign) and len(stmt.targets) == 1 and _u(stmt.targets[0]) == target):
        raise TranslateError(f"{where}: expected an assignment to `{target}`, source has `{_u(stmt)}`")
    return stmt.value


def _slice_start(sub, nc_name="num_coefficients"):
    """x_grid[i][<slice>] -> start position of the `nc` candidate nodes as a Lean integer expression in G."""
    if not (isinstance(sub, ast.Subscript) and _u(sub.value) == "x_grid[i]" and isinstance(sub.slice, ast.Slice)):
        raise TranslateError(f"candidate-node slice outside vocabulary: {_u(sub)}")
    sl = sub.slice
    if sl.step is not None:
        raise TranslateError(f"slice step outside vocabulary: {_u(sub)}")
    if sl.lower is None and sl.upper is not None and _u(sl.upper) == nc_name:
        return "0"
    if sl.upper is None and sl.lower is not None and _u(sl.lower) == f"-{nc_name}":
        return "((G : ℤ) - (numCoefficients : ℤ)).toNat"
    raise TranslateError(f"candidate-node slice outside vocabulary: {_u(sub)}")


def _boundary_block(block, side, E, num, pts, first, closest):
    """Checks the scaffolding of one boundary block and returns (slice start, value set on the row,
    value set at the closest node, snapped lower index)."""
    w = f"{side} boundary block"
    b = block.body
    if _u(block.test) != f"{num} > 0" or block.orelse:
        raise TranslateError(f"{w}: guard changed: {_u(block.test)}")
    i = 0
    _expect(b[i], f"{pts}.squeeze_(1)", w); i += 1
    v = _assign_value(b[i], first, w); i += 1
    # x_grid[i][<slice>].unsqueeze(1).t().expand(num, num_coefficients)
    tail = f".unsqueeze(1).t().expand({num}, num_coefficients)"
    if not _u(v).endswith(tail):
        raise TranslateError(f"{w}: `{first}` changed: {_u(v)}")
    sub = v.func.value.func.value.func.value   # expand( t( unsqueeze( <sub> )))
    start = _slice_start(sub)
    if side == "left":
        _expect(b[i], f"grid_targets = x_target.select(1, i)[{pts}].unsqueeze(1).expand({num}, num_coefficients)", w); i += 1
    else:
        _expect(b[i], f"grid_targets = x_target.select(1, i)[{pts}].unsqueeze(1)", w); i += 1
        _expect(b[i], f"grid_targets = grid_targets.expand({num}, num_coefficients)", w); i += 1
    _expect(b[i], f"dists = torch.abs({first} - grid_targets)", w); i += 1
    _expect(b[i], f"{closest} = torch.min(dists, 1)[1]", w); i += 1
    loop = b[i]
    if not (isinstance(loop, ast.For) and _u(loop.target) == "j" and _u(loop.iter) == f"range({num})" and len(b) == i + 1):
        raise TranslateError(f"{w}: per-point loop changed")
    if len(loop.body) != 3:
        raise TranslateError(f"{w}: per-point loop has {len(loop.body)} statements, expected 3")
    row_v = _assign_value(loop.body[0], f"dim_interp_values[{pts}[j], :]", w)
    hot_v = _assign_value(loop.body[1], f"dim_interp_values[{pts}[j], {closest}[j]]", w)
    low_v = _assign_value(loop.body[2], f"lower_grid_pt_idxs[{pts}[j]]", w)
    return start, E(row_v), E(hot_v), E(low_v)


def translate_interpolate(fn):
    a = fn.args
    names = [x.arg for x in a.args]
    if names != ["self", "x_grid", "x_target", "interp_points", "eps"] or len(a.defaults) != 2:
        raise TranslateError(f"interpolate signature changed: {names}")
    d_ip, d_eps = a.defaults
    if not (isinstance(d_ip, ast.Call) and _u(d_ip.func) == "range" and len(d_ip.args) == 2):
        raise TranslateError(f"interp_points default outside vocabulary: {_u(d_ip)}")
    lo, hi = (ast.literal_eval(x) for x in d_ip.args)
    pts = list(range(lo, hi))
    if len(pts) < 2:
        raise TranslateError("fewer than two interpolation points")
    eps = _rat(ast.literal_eval(d_eps))

    pre = {}
    loop = None
    for s in fn.body:
        if isinstance(s, ast.Assign) and len(s.targets) == 1 and isinstance(s.targets[0], ast.Name):
            pre[s.targets[0].id] = _u(s.value)
        if isinstance(s, ast.For):
            loop = s
    want_pre = {
        "interp_points": "torch.tensor(interp_points, dtype=x_grid[0].dtype, device=x_grid[0].device)",
        "interp_points_flip": "interp_points.flip(0)",
        "num_coefficients": "len(interp_points)",
        "grid_sizes": "[len(x_grid[i]) for i in range(num_dim)]",
        "interp_values": "torch.ones(num_target_points, num_coefficients ** num_dim, dtype=x_grid[0].dtype, device=x_grid[0].device)",
        "interp_indices": "torch.zeros(num_target_points, num_coefficients ** num_dim, dtype=torch.long, device=x_grid[0].device)",
    }
    for k, v in want_pre.items():
        if pre.get(k) != v:
            raise TranslateError(f"interpolate: `{k} = {pre.get(k)}` (expected `{v}`)")
    if loop is None or _u(loop.target) != "i" or _u(loop.iter) != "range(num_dim)":
        raise TranslateError("interpolate: per-dimension loop not found")
    if _u(fn.body[-1]) != "return (interp_indices, interp_values)":
        raise TranslateError(f"interpolate: return changed: {_u(fn.body[-1])}")

    subs = {
        "x_target[:, i]": ("x", "R"),
        "x_grid[i][0]": ("(g 0)", "R"),
        "x_grid[i][1]": ("(g 1)", "R"),
        "x_grid[i].size(0)": ("(G : ℤ)", "Z"),
        "interp_points.max()": ("interpMax", "Z"),
        "interp_points.min()": ("interpMin", "Z"),
        "interp_points": ("interpPoints k", "ZK"),
        "interp_points_flip": ("interpFlip k", "ZK"),
    }
    env = {"eps": ("eps", "R"), "num_coefficients": ("(numCoefficients : ℤ)", "Z")}
    E = Expr(env, subs)
    B = list(loop.body)
    out = {}
    i = 0

    def nxt():
        nonlocal i
        if i >= len(B):
            raise TranslateError("interpolate: loop body ended early")
        i += 1
        return B[i - 1]

    v = _assign_value(nxt(), "num_grid_points", "loop")
    E.env["num_grid_points"] = E(v)
    if E.env["num_grid_points"][1] != "Z":
        raise TranslateError("num_grid_points is not the grid size")
    out["gridDelta"] = as_R(E(_assign_value(nxt(), "grid_delta", "loop")))
    E.env["grid_delta"] = ("delta", "R")
    val = E(_assign_value(nxt(), "lower_grid_pt_idxs", "loop"))
    if val[1] != "Z":
        raise TranslateError("lower_grid_pt_idxs is not an integer (floor) expression")
    out["lowerIdx"] = val[0]
    E.env["lower_grid_pt_idxs"] = ("lower", "Z")
    out["relDist"] = as_R(E(_assign_value(nxt(), "lower_pt_rel_dists", "loop")))
    E.env["lower_pt_rel_dists"] = ("rel", "R")
    out["lowerShift"] = as_Z(E(_assign_value(nxt(), "lower_grid_pt_idxs", "loop")))
    _expect(nxt(), "lower_grid_pt_idxs.detach_()", "loop")
    s = nxt()
    if not (isinstance(s, ast.If) and _u(s.test) == "len(lower_grid_pt_idxs.shape) == 0"):
        raise TranslateError(f"loop: expected the 0-dim guard, source has `{_u(s)}`")
    val = E(_assign_value(nxt(), "scaled_dist", "loop"))
    if val[1] != "RK":
        raise TranslateError("scaled_dist is not a row over the interpolation points")
    out["scaledDist"] = val[0]
    _expect(nxt(), "dim_interp_values = self._cubic_interpolation_kernel(scaled_dist)", "loop")

    for side, pts_n, num, first, closest in (("left", "left_boundary_pts", "num_left", "x_grid_first", "closest_from_first"),
                                             ("right", "right_boundary_pts", "num_right", "x_grid_last", "closest_from_last")):
        v = _assign_value(nxt(), pts_n, "loop")
        if not (_u(v).endswith(".nonzero(as_tuple=False)") and isinstance(v.func.value, ast.Compare)):
            raise TranslateError(f"{side} boundary mask changed: {_u(v)}")
        cond = E(v.func.value)
        _expect(nxt(), f"{num} = len({pts_n})", "loop")
        blk = nxt()
        if not isinstance(blk, ast.If):
            raise TranslateError(f"{side} boundary block missing")
        start, rowv, hotv, lowv = _boundary_block(blk, side, E, num, pts_n, first, closest)
        out[side] = {"cond": cond[0], "start": start, "row": as_R(rowv), "hot": as_R(hotv), "low": as_Z(lowv)}

    v = _assign_value(nxt(), "offset", "loop")
    if not _u(v).endswith(".long().unsqueeze(-2)"):
        raise TranslateError(f"offset changed: {_u(v)}")
    val = E(v)
    if val[1] != "ZK":
        raise TranslateError("offset is not an integer row")
    out["offset"] = val[0]
    _expect(nxt(), "dim_interp_indices = lower_grid_pt_idxs.long().unsqueeze(-1) + offset", "loop")

    Ei = Expr({"num_coefficients": ("nc", "N"), "num_dim": ("d", "N"), "i": ("i", "N")})

    def nat(n):
        if isinstance(n, ast.Name):
            if n.id not in Ei.env:
                raise TranslateError(f"unknown name {n.id}")
            return Ei.env[n.id][0]
        if isinstance(n, ast.Constant) and isinstance(n.value, int) and n.value >= 0:
            return str(n.value)
        if isinstance(n, ast.BinOp) and type(n.op) in (ast.Add, ast.Sub, ast.Mult, ast.Pow):
            sym = {ast.Add: "+", ast.Sub: "-", ast.Mult: "*", ast.Pow: "^"}[type(n.op)]
            return f"({nat(n.left)} {sym} {nat(n.right)})"
        raise TranslateError(f"natural-number expression outside vocabulary: {_u(n)}")
    out["nInner"] = nat(_assign_value(nxt(), "n_inner_repeat", "loop"))
    out["nOuter"] = nat(_assign_value(nxt(), "n_outer_repeat", "loop"))
    v = _assign_value(nxt(), "index_coeff", "loop")
    # reduce(mul, grid_sizes[<lo>:<hi>], 1)
    if not (isinstance(v, ast.Call) and _u(v.func) == "reduce" and len(v.args) == 3 and _u(v.args[0]) == "mul"
            and _u(v.args[2]) == "1" and isinstance(v.args[1], ast.Subscript) and _u(v.args[1].value) == "grid_sizes"
            and isinstance(v.args[1].slice, ast.Slice) and v.args[1].slice.step is None):
        raise TranslateError(f"index_coeff outside vocabulary: {_u(v)}")
    sl = v.args[1].slice
    sizes = "sizes"
    if sl.upper is not None:
        sizes = f"({sizes}.take {nat(sl.upper)})"
    if sl.lower is not None:
        sizes = f"({sizes}.drop {nat(sl.lower)})"
    out["indexCoeff"] = f"{sizes}.foldl (· * ·) 1"
    _expect(nxt(), "dim_interp_indices = dim_interp_indices.unsqueeze(-1).repeat(1, n_inner_repeat, n_outer_repeat)", "loop")
    _expect(nxt(), "dim_interp_values = dim_interp_values.unsqueeze(-1).repeat(1, n_inner_repeat, n_outer_repeat)", "loop")
    _expect(nxt(), "interp_indices = interp_indices.add(dim_interp_indices.view(num_target_points, -1).mul(index_coeff))", "loop")
    _expect(nxt(), "interp_values = interp_values.mul(dim_interp_values.view(num_target_points, -1))", "loop")
    if i != len(B):
        raise TranslateError(f"interpolate: unexpected trailing statements in the loop: {_u(B[i])}")
    return pts, eps, out


HEADER = """/- GENERATED by harness/translate/g4_interp_constants.py from gpytorch/utils/interpolation.py — do not edit. -/
import GPVerif.Model.Interp

set_option linter.unusedVariables false

namespace Gen.Interp
open _root_.Interp

"""


def emit(kernel_text, pts, eps, o):
    ilist = lambda l: "[" + ", ".join(str(x) for x in l) + "]"
    t = HEADER
    t += f"/-- `interp_points=range({pts[0]}, {pts[-1] + 1})` -/\n"
    t += f"def interpPoints (k : Nat) : ℤ := ({ilist(pts)} : List ℤ).getD k 0\n"
    t += f"/-- `interp_points.flip(0)` -/\ndef interpFlip (k : Nat) : ℤ := ({ilist(pts[::-1])} : List ℤ).getD k 0\n"
    t += f"def numCoefficients : Nat := {len(pts)}\n"
    t += f"def interpMax : ℤ := {max(pts)}\ndef interpMin : ℤ := {min(pts)}\n\n"
    t += "section\nvariable {α : Type} [Field α] [LinearOrder α] [IsStrictOrderedRing α] [FloorRing α]\n\n"
    t += kernel_text + "\n"
    t += f"/-- default `eps` of `interpolate` (the float literal, exactly) -/\ndef defaultEps : α := {_lit_R(eps)}\n\n"
    t += f"/-- `grid_delta` -/\ndef gridDelta (eps : α) (g : Nat → α) : α := {o['gridDelta']}\n"
    t += f"/-- `lower_grid_pt_idxs` (first assignment: left-bounding node, index space) -/\n"
    t += f"def lowerIdx (g : Nat → α) (delta x : α) : ℤ := {o['lowerIdx']}\n"
    t += f"/-- `lower_pt_rel_dists` -/\ndef relDist (g : Nat → α) (delta x : α) (lower : ℤ) : α := {o['relDist']}\n"
    t += f"/-- `lower_grid_pt_idxs` (second assignment: left-most relevant node) -/\n"
    t += f"def lowerShift (lower : ℤ) : ℤ := {o['lowerShift']}\n"
    t += f"/-- `scaled_dist` -/\ndef scaledDist (rel : α) (k : Nat) : α := {o['scaledDist']}\n"
    for side in ("left", "right"):
        b = o[side]
        t += f"/-- {side} boundary mask -/\ndef {side}Cond (G : Nat) (lower : ℤ) : Bool := {_bind_npts(b['cond'])}\n"
        t += f"/-- snapped lower index at the {side} boundary -/\ndef {side}Value (G : Nat) : ℤ := {_bind_npts(b['low'])}\n"
        t += f"/-- first of the `numCoefficients` candidate nodes at the {side} boundary -/\ndef {side}Start (G : Nat) : Nat := {b['start']}\n"
        t += (f"/-- snapped weight row at the {side} boundary: `{b['row']}` everywhere, `{b['hot']}` at the closest node -/\n"
              f"def {side}Row (g : Nat → α) (G : Nat) (x : α) : Nat → α :=\n"
              f"  let c := argminAbs (fun k => g ({side}Start G + k)) numCoefficients x\n"
              f"  fun j => if j = c then {b['hot']} else {b['row']}\n")
    t += "\n/-- one dimension, one target coordinate (the body of the per-dimension loop up to the snapping) -/\n"
    t += ("def dimInterp (eps : α) (g : Nat → α) (G : Nat) (x : α) : ℤ × (Nat → α) :=\n"
          "  let delta := gridDelta eps g\n"
          "  let lower0 := lowerIdx g delta x\n"
          "  let rel := relDist g delta x lower0\n"
          "  let lower1 := lowerShift lower0\n"
          "  let w0 : Nat → α := fun k => cubicKernel (scaledDist rel k)\n"
          "  let w1 := if leftCond G lower1 then leftRow g G x else w0\n"
          "  let lower2 := if leftCond G lower1 then leftValue G else lower1\n"
          "  let w2 := if rightCond G lower2 then rightRow g G x else w1\n"
          "  let lower3 := if rightCond G lower2 then rightValue G else lower2\n"
          "  (lower3, w2)\n\nend\n\n")
    t += f"/-- `offset` -/\ndef offset (k : Nat) : ℤ := {o['offset']}\n"
    t += f"/-- `n_inner_repeat` -/\ndef nInnerRepeat (nc d i : Nat) : Nat := {o['nInner']}\n"
    t += f"/-- `n_outer_repeat` -/\ndef nOuterRepeat (nc d i : Nat) : Nat := {o['nOuter']}\n"
    t += f"/-- `index_coeff` -/\ndef indexCoeff (sizes : List Nat) (i : Nat) : Nat := {o['indexCoeff']}\n"
    t += ("/-- position `j` of `row.unsqueeze(-1).repeat(1, n_inner_repeat, n_outer_repeat).view(n, -1)` reads `row[srcOf d i j]` -/\n"
          "def srcOf (d i j : Nat) : Nat := repeatView numCoefficients (nOuterRepeat numCoefficients d i) id j\n\n")
    t += ("def spec {α : Type} [Field α] [LinearOrder α] [IsStrictOrderedRing α] [FloorRing α] (eps : α) : DimSpec α :=\n"
          "  { nc := numCoefficients, dimInterp := dimInterp eps, offset := offset, srcOf := srcOf, indexCoeff := indexCoeff }\n\n")
    t += "end Gen.Interp\n"
    return t


def _bind_npts(txt):
    return txt


def _write(path, text):
    old = open(path).read() if os.path.exists(path) else None
    if old != text:
        os.makedirs(os.path.dirname(path), exist_ok=True)
        with open(path, "w") as fh:
            fh.write(text)
    return old != text


def translate(repo):
    src = open(os.path.join(repo, "gpytorch", "utils", "interpolation.py")).read()
    tree = ast.parse(src)
    ktext, coeffs = translate_kernel(_find(tree, "Interpolation", "_cubic_interpolation_kernel"))
    pts, eps, o = translate_interpolate(_find(tree, "Interpolation", "interpolate"))
    return emit(ktext, pts, eps, o), {"coeffs": coeffs, "interp_points": pts, "eps": eps, "pieces": o}


def generate(repo, out_path):
    text, info = translate(repo)
    changed = _write(out_path, text)
    return info, changed


if __name__ == "__main__":
    import sys
    repo = sys.argv[1] if len(sys.argv) > 1 else "/repo"
    out = sys.argv[2] if len(sys.argv) > 2 else os.path.join(os.path.dirname(os.path.abspath(__file__)),
                                                             "../../lean/GPVerif/Gen/Interp.lean")
    info, changed = generate(repo, os.path.abspath(out))
    print("coefficients:", [[str(c) for c in p] for p in info["coeffs"]], "changed:", changed)

"""G5 (wave 3) — axis-aware symbolic execution of kernel `forward` methods: tensors as INDEX FUNCTIONS.

Where `g5_kernels` classifies tensors (row / pair / param) and trusts that shape-only operations keep entry (i, j)
in place, this executor tracks the trailing (non-batch) shape of every tensor symbolically and its value as a function
of the index tuple, so `unsqueeze` / `transpose` / `view` / `expand` / `repeat` / broadcasting / `sum(dim)` / `prod(dim)` /
`diagonal` / `cat` / slicing / slice assignment / integer-tensor indexing are EXECUTED (a missing transpose or a sum over
the wrong axis changes the generated term or makes the result shape differ from `n1 x n2`, which raises).

Sizes are polynomials over size symbols (n1, n2, d, Q, …; `d = 2·h` for the symmetrised-KL kernel, `d = T·V` for the
Hamming kernel), index expressions are +,-,*,/,% terms over index variables and sizes, scalars are expression trees.
Batch dimensions are not represented (`batch_shape = ()`): one batch element.

Emitted per-pair definition: the result entry (i, j) is required to read row i of x1 and row j of x2 only (checked on
the final term — anything else raises); it is printed with `x1`, `x2` standing for those rows.  Reductions become
`Scalar.sumR n fun k => …` / `Scalar.prodR`, row arguments of sub-kernel calls `Scalar.tab n fun k => …`
(Model/RangeOps.lean).  Python-level control flow is executed on the concrete configuration; data-dependent tests
(`torch.equal(x1, x2)`, `torch.any(r > 1)`) are answered by the configuration; a reached `raise` or anything outside the
vocabulary raises TranslateError (broken tie).
"""
import ast
import itertools
import os
from fractions import Fraction

from .g5_formulas import TranslateError, const, is_num, lean_rat


# ----------------------------------------------------------------------------------------- sizes (polynomials)

class Poly:
    """polynomial with integer coefficients over size symbols; terms: {sorted tuple of symbols: coeff}"""

    def __init__(self, terms=None):
        self.terms = {k: v for k, v in (terms or {}).items() if v != 0}

    @staticmethod
    def of(x):
        if isinstance(x, Poly):
            return x
        if isinstance(x, int) and not isinstance(x, bool):
            return Poly({(): x})
        if isinstance(x, str):
            return Poly({(x,): 1})
        raise TranslateError(f"not a size: {x!r}")

    def __add__(self, o):
        o = Poly.of(o)
        t = dict(self.terms)
        for k, v in o.terms.items():
            t[k] = t.get(k, 0) + v
        return Poly(t)
    __radd__ = __add__

    def __neg__(self):
        return Poly({k: -v for k, v in self.terms.items()})

    def __sub__(self, o):
        return self + (-Poly.of(o))

    def __rsub__(self, o):
        return Poly.of(o) - self

    def __mul__(self, o):
        o = Poly.of(o)
        t = {}
        for (k1, v1), (k2, v2) in itertools.product(self.terms.items(), o.terms.items()):
            k = tuple(sorted(k1 + k2))
            t[k] = t.get(k, 0) + v1 * v2
        return Poly(t)
    __rmul__ = __mul__

    def const(self):
        if not self.terms:
            return 0
        if list(self.terms) == [()]:
            return self.terms[()]
        return None

    def div_exact(self, o):
        """self / o when o is a monomial dividing every term, else None"""
        o = Poly.of(o)
        if len(o.terms) != 1:
            return None
        (ok, ov), = o.terms.items()
        t = {}
        for k, v in self.terms.items():
            if v % ov:
                return None
            rest = list(k)
            for s in ok:
                if s not in rest:
                    return None
                rest.remove(s)
            t[tuple(rest)] = v // ov
        return Poly(t)

    def __eq__(self, o):
        return isinstance(o, (Poly, int)) and self.terms == Poly.of(o).terms

    def __hash__(self):
        return hash(tuple(sorted(self.terms.items())))

    def __repr__(self):
        return f"Poly({self.terms})"

    def lean(self, sym):
        c = self.const()
        if c is not None:
            if c < 0:
                raise TranslateError("negative size")
            return str(c)
        parts = []
        for k, v in sorted(self.terms.items()):
            if v < 0:
                raise TranslateError(f"size with a negative coefficient: {self}")
            fs = ([str(v)] if v != 1 or not k else []) + [sym[s] for s in k]
            parts.append(" * ".join(fs))
        return "(" + " + ".join(parts) + ")"


ONE, ZERO = Poly.of(1), Poly.of(0)


# ----------------------------------------------------------------------------------------- index expressions
# ("sz", Poly) | ("iv", name) | ("add"|"sub"|"mul"|"div"|"mod", a, b)

def IX(x):
    if isinstance(x, tuple):
        return x
    return ("sz", Poly.of(x))


def _c(e):
    return e[1].const() if e[0] == "sz" else None


def iadd(a, b):
    a, b = IX(a), IX(b)
    if a[0] == "sz" and b[0] == "sz":
        return ("sz", a[1] + b[1])
    if _c(a) == 0:
        return b
    if _c(b) == 0:
        return a
    return ("add", a, b)


def isub(a, b):
    a, b = IX(a), IX(b)
    if a[0] == "sz" and b[0] == "sz":
        return ("sz", a[1] - b[1])
    if _c(b) == 0:
        return a
    return ("sub", a, b)


def imul(a, b):
    a, b = IX(a), IX(b)
    if a[0] == "sz" and b[0] == "sz":
        return ("sz", a[1] * b[1])
    if _c(a) == 1:
        return b
    if _c(b) == 1:
        return a
    if _c(a) == 0 or _c(b) == 0:
        return ("sz", ZERO)
    return ("mul", a, b)


def idiv(a, b):
    a, b = IX(a), IX(b)
    if _c(b) == 1:
        return a
    if a[0] == "sz" and b[0] == "sz":
        q = a[1].div_exact(b[1])
        if q is not None:
            return ("sz", q)
    return ("div", a, b)


def imod(a, b):
    a, b = IX(a), IX(b)
    if _c(b) == 1:
        return ("sz", ZERO)
    return ("mod", a, b)


def lix(e, sym):
    k = e[0]
    if k == "sz":
        return e[1].lean(sym)
    if k == "iv":
        return e[1]
    op = {"add": "+", "sub": "-", "mul": "*", "div": "/", "mod": "%"}[k]
    return f"({lix(e[1], sym)} {op} {lix(e[2], sym)})"


def ix_vars(e, acc):
    if e[0] == "iv":
        acc.add(e[1])
    elif e[0] != "sz":
        ix_vars(e[1], acc)
        ix_vars(e[2], acc)
    return acc


# conditions over indices: ("lt", a, b) | ("eq", a, b) | ("and", c, c) | ("not", c) | True | False

def cand(a, b):
    if a is True:
        return b
    if b is True:
        return a
    if a is False or b is False:
        return False
    return ("and", a, b)


def cnot(a):
    if isinstance(a, bool):
        return not a
    return ("not", a)


def clt(a, b):
    a, b = IX(a), IX(b)
    if a[0] == "sz" and b[0] == "sz":
        d = (b[1] - a[1]).const()
        if d is not None:
            return d > 0
    if _c(a) == 0 and b[0] == "sz" and all(v > 0 for v in b[1].terms.values()) and b[1].terms:
        pass
    return ("lt", a, b)


def ceq(a, b):
    a, b = IX(a), IX(b)
    if a == b:
        return True
    if a[0] == "sz" and b[0] == "sz" and (a[1] - b[1]).const() is not None:
        return (a[1] - b[1]).const() == 0
    return ("eq", a, b)


def lcond(c, sym):
    if c is True:
        return "True"
    if c is False:
        return "False"
    k = c[0]
    if k == "lt":
        return f"{lix(c[1], sym)} < {lix(c[2], sym)}"
    if k == "eq":
        return f"{lix(c[1], sym)} = {lix(c[2], sym)}"
    if k == "and":
        return f"({lcond(c[1], sym)} ∧ {lcond(c[2], sym)})"
    if k == "not":
        return f"¬ ({lcond(c[1], sym)})"
    raise TranslateError(f"condition node {k}")


def ite(c, a, b):
    if c is True:
        return a
    if c is False:
        return b
    if a == b:
        return a
    return ("ite", c, a, b)


# ----------------------------------------------------------------------------------------- scalar expressions
# ("const", q) ("pi",) ("sqrtc", q) ("var", name) ("ofnat", ix) ("get", list, ix) ("get2", list, ix, ix)
# ("add"|"sub"|"mul"|"div"|"max"|"rpow"|"jit", a, b) ("neg"|"exp"|"sin"|"cos"|"sqrt", a) ("npow", a, ix)
# ("sum"|"prod", var, size_ix, body) ("call", fname, [listexpr]) ("ite", cond, a, b)
# ("loop1", var, accvar, n_ix, init, step)      -- Scalar.loopFrom1 n init fun var accvar => step
# listexpr: ("tab", var, size_ix, body) | ("lcat", [listexpr])

def SC(x):
    """scalar expression of a Python-level number-like value"""
    if isinstance(x, tuple):
        return x
    if is_num(x):
        return ("const", const(x))
    if isinstance(x, Poly):
        return ("ofnat", ("sz", x))
    raise TranslateError(f"unsupported scalar operand {x!r}")


def is_scalar_like(x):
    return is_num(x) or isinstance(x, Poly) or (isinstance(x, tuple) and x and x[0] in
                                                  ("const", "pi", "sqrtc", "var", "ofnat", "npow", "mul", "neg", "add", "sub", "div"))


def lsc(x, sym):
    k = x[0]
    if k == "const":
        return f"(Scalar.lit {lean_rat(x[1])})"
    if k == "sqrtc":
        return f"(Scalar.sqrt (Scalar.lit {lean_rat(x[1])}))"
    if k == "pi":
        return "Scalar.pi"
    if k == "var":
        return x[1]
    if k == "acc":
        return x[1]
    if k == "ofnat":
        return f"(Scalar.lit (({lix(x[1], sym)} : Nat) : Rat))"
    if k == "get":
        return f"(Scalar.nth {x[1]} {lix(x[2], sym)})"
    if k == "get2":
        return f"(Scalar.nth2 {x[1]} {lix(x[2], sym)} {lix(x[3], sym)})"
    if k in ("add", "sub", "mul", "div"):
        return f"({lsc(x[1], sym)} {dict(add='+', sub='-', mul='*', div='/')[k]} {lsc(x[2], sym)})"
    if k == "neg":
        return f"(-{lsc(x[1], sym)})"
    if k in ("exp", "sin", "cos", "sqrt"):
        return f"(Scalar.{k} {lsc(x[1], sym)})"
    if k in ("max", "rpow"):
        return f"(Scalar.{k} {lsc(x[1], sym)} {lsc(x[2], sym)})"
    if k == "jit":
        return f"(jit {lsc(x[1], sym)} {lsc(x[2], sym)})"
    if k == "npow":
        return f"(Scalar.npow {lsc(x[1], sym)} {lix(x[2], sym)})"
    if k in ("sum", "prod"):
        return f"(Scalar.{k}R {lix(x[2], sym)} fun {x[1]} => {lsc(x[3], sym)})"
    if k == "call":
        return "(" + " ".join([x[1]] + [llist(a, sym) for a in x[2]]) + ")"
    if k == "ite":
        return f"(if {lcond(x[1], sym)} then {lsc(x[2], sym)} else {lsc(x[3], sym)})"
    if k == "loop1":
        return f"(Scalar.loopFrom1 {lix(x[3], sym)} {lsc(x[4], sym)} fun {x[1]} {x[2]} => {lsc(x[5], sym)})"
    raise TranslateError(f"scalar node {k}")


def llist(a, sym):
    if a[0] == "tab":
        if _c(a[2]) == 1:
            return "[" + lsc(subst_iv(a[3], a[1], ("sz", ZERO)), sym) + "]"
        return f"(Scalar.tab {lix(a[2], sym)} fun {a[1]} => {lsc(a[3], sym)})"
    if a[0] == "lcat":
        return "(" + " ++ ".join(llist(p, sym) for p in a[1]) + ")"
    raise TranslateError(f"list node {a[0]}")


def subst_iv(e, name, val):
    """substitute index variable `name` by index expression `val` everywhere in a scalar / index / condition term"""
    if isinstance(e, tuple):
        if e == ("iv", name):
            return val
        if e and e[0] == "sz":
            return e
        out = tuple(subst_iv(x, name, val) for x in e)
        # re-simplify index arithmetic
        if out and out[0] in ("add", "sub", "mul", "div", "mod") and len(out) == 3 and all(
                isinstance(o, tuple) and o and o[0] in ("sz", "iv", "add", "sub", "mul", "div", "mod") for o in out[1:]):
            return {"add": iadd, "sub": isub, "mul": imul, "div": idiv, "mod": imod}[out[0]](out[1], out[2])
        return out
    if isinstance(e, list):
        return [subst_iv(x, name, val) for x in e]
    return e


def leaves(e, acc):
    if isinstance(e, tuple):
        if e and e[0] == "get2":
            acc.append(e)
        for x in e:
            leaves(x, acc)
    elif isinstance(e, list):
        for x in e:
            leaves(x, acc)
    return acc


def map_term(e, f):
    """bottom-up rewrite of tuples"""
    if isinstance(e, tuple):
        if e and e[0] == "sz":
            return e
        return f(tuple(map_term(x, f) for x in e))
    if isinstance(e, list):
        return [map_term(x, f) for x in e]
    return e


# ----------------------------------------------------------------------------------------- tensors

_fresh = itertools.count()


def fresh(prefix="k"):
    return f"{prefix}{next(_fresh)}"


class Ten:
    """tensor object (identity matters): trailing shape (list of size index-expressions) + index function.
    `integer` tensors (arange and its views) return index expressions instead of scalar expressions."""

    def __init__(self, shape, fn, integer=False, cat_parts=None):
        self.shape = [IX(s) for s in shape]
        self.fn = fn
        self.integer = integer
        self.cat_parts = cat_parts          # [(Ten, ...)] when this is an untouched torch.cat along the last dim

    def at(self, idx):
        if len(idx) != len(self.shape):
            raise TranslateError(f"tensor of rank {len(self.shape)} indexed with {len(idx)} indices")
        return self.fn(list(idx))

    def rank(self):
        return len(self.shape)


def is_one(s):
    return _c(s) == 1


def bshape(a, b):
    """broadcast two trailing shapes (aligned from the right)"""
    out = []
    for i in range(1, max(len(a), len(b)) + 1):
        x = a[-i] if i <= len(a) else IX(1)
        y = b[-i] if i <= len(b) else IX(1)
        if is_one(x):
            out.append(y)
        elif is_one(y) or x == y:
            out.append(x)
        else:
            raise TranslateError(f"shapes do not broadcast: {a} vs {b}")
    return out[::-1]


def bat(t, idx):
    """value of `t` at the (broadcast) index tuple `idx` of a shape it broadcasts into"""
    own = idx[len(idx) - t.rank():] if t.rank() else []
    own = [IX(0) if is_one(s) else i for s, i in zip(t.shape, own)]
    return t.at(own)


def as_ten(x):
    if isinstance(x, Ten):
        return x
    sc = SC(x)
    return Ten([], lambda idx, sc=sc: sc)


def ewise(op, a, b):
    a, b = as_ten(a), as_ten(b)
    if a.integer or b.integer:
        raise TranslateError("arithmetic on an integer (index) tensor")
    return Ten(bshape(a.shape, b.shape), lambda idx: (op, bat(a, idx), bat(b, idx)))


def unary(op, a):
    return Ten(a.shape, lambda idx: (op, a.at(idx)))


def norm_dim(k, rank):
    if not isinstance(k, int) or isinstance(k, bool):
        raise TranslateError(f"dimension argument {k!r} is not a concrete int")
    if k >= 0:
        raise TranslateError(f"non-negative dimension {k}: position relative to unknown batch dimensions")
    if -k > rank:
        raise TranslateError(f"dimension {k} reaches into the batch dimensions")
    return rank + k


def unsqueeze(t, k):
    pos = norm_dim(k, t.rank() + 1)
    return Ten(t.shape[:pos] + [IX(1)] + t.shape[pos:], lambda idx: t.at(idx[:pos] + idx[pos + 1:]), t.integer)


def transpose(t, a, b):
    a, b = norm_dim(a, t.rank()), norm_dim(b, t.rank())
    sh = list(t.shape)
    sh[a], sh[b] = sh[b], sh[a]

    def fn(idx):
        j = list(idx)
        j[a], j[b] = j[b], j[a]
        return t.at(j)
    return Ten(sh, fn, t.integer)


def reduce_(t, kind, dims, keepdim=False):
    dims = sorted({norm_dim(k, t.rank()) for k in (dims if isinstance(dims, (tuple, list)) else [dims])})
    vs = {p: fresh() for p in dims}
    sh = [IX(1) if p in vs else s for p, s in enumerate(t.shape)] if keepdim else \
        [s for p, s in enumerate(t.shape) if p not in vs]

    def fn(idx):
        it = iter(idx)
        full = []
        for p in range(t.rank()):
            if p in vs:
                if keepdim:
                    next(it)
                full.append(("iv", vs[p]))
            else:
                full.append(next(it))
        body = t.at(full)
        for p in reversed(dims):
            body = (kind, vs[p], t.shape[p], body)
        return body
    return Ten(sh, fn)


def total(shape):
    p = IX(1)
    for s in shape:
        p = imul(p, s)
    return p


def reshape(t, new):
    """general reshape of the trailing dims; one entry may be -1; only the suffix that changes is re-indexed"""
    new = [IX(s) if not (isinstance(s, int) and s == -1) else -1 for s in new]
    if any(s == -1 for s in new):
        known = IX(1)
        for s in new:
            if s != -1:
                known = imul(known, s)
        q = idiv(total(t.shape), known)
        if q[0] != "sz":
            raise TranslateError(f"cannot infer the -1 of view{new} on shape {t.shape}")
        new = [q if s == -1 else s for s in new]
    if total(new) != total(t.shape):
        raise TranslateError(f"view/reshape {t.shape} -> {new}: element counts differ")
    p = 0
    while p < min(len(new), t.rank()) and new[p] == t.shape[p]:
        p += 1
    old_s, new_s = t.shape[p:], new[p:]
    if not old_s and not new_s:
        return Ten(new, t.fn, t.integer)
    drop1 = [s for s in old_s if not is_one(s)]
    dropn = [s for s in new_s if not is_one(s)]
    if drop1 == dropn:                      # only size-1 axes are inserted / removed
        def fn(idx):
            it = iter([i for s, i in zip(new_s, idx[p:]) if not is_one(s)])
            return t.at(idx[:p] + [IX(0) if is_one(s) else next(it) for s in old_s])
        return Ten(new, fn, t.integer)

    def fn(idx):
        flat = IX(0)
        for s, i in zip(new_s, idx[p:]):
            flat = iadd(imul(flat, s), i)
        old_idx = []
        rem = flat
        for k in range(len(old_s) - 1, -1, -1):
            if k == 0:
                old_idx.append(rem)
            else:
                old_idx.append(imod(rem, old_s[k]))
                rem = idiv(rem, old_s[k])
        return t.at(idx[:p] + old_idx[::-1])
    return Ten(new, fn, t.integer)


def expand(t, new):
    new = [IX(s) if not (isinstance(s, int) and s == -1) else -1 for s in new]
    if len(new) < t.rank():
        raise TranslateError("expand to fewer dimensions")
    sh = []
    for i in range(1, len(new) + 1):
        own = t.shape[-i] if i <= t.rank() else IX(1)
        want = new[-i]
        if want == -1 or want == own:
            sh.append(own)
        elif is_one(own):
            sh.append(want)
        else:
            raise TranslateError(f"expand {t.shape} -> {new}")
    sh = sh[::-1]
    return Ten(sh, lambda idx: bat(t, idx), t.integer)


def repeat(t, reps):
    if len(reps) < t.rank():
        raise TranslateError("repeat with fewer entries than dimensions")
    lead = len(reps) - t.rank()
    for r in reps[:lead]:
        if not is_one(IX(r)):
            raise TranslateError("repeat adds a leading non-batch dimension")
    reps = [IX(r) for r in reps[lead:]]
    sh = [imul(r, s) for r, s in zip(reps, t.shape)]
    return Ten(sh, lambda idx: t.at([i if is_one(r) else imod(i, s) for i, r, s in zip(idx, reps, t.shape)]), t.integer)


def cat(ts, dim):
    ts = [as_ten(x) for x in ts]
    r = ts[0].rank()
    p = norm_dim(dim, r)
    for t in ts:
        if t.rank() != r or any(a != b for q, (a, b) in enumerate(zip(t.shape, ts[0].shape)) if q != p):
            raise TranslateError("torch.cat of tensors whose other dimensions differ")
    size = IX(0)
    offs = []
    for t in ts:
        offs.append(size)
        size = iadd(size, t.shape[p])

    def fn(idx):
        out = None
        for t, off in reversed(list(zip(ts, offs))):
            j = list(idx)
            j[p] = isub(idx[p], off)
            v = t.at(j)
            out = v if out is None else ite(clt(idx[p], iadd(off, t.shape[p])), v, out)
        return out
    sh = list(ts[0].shape)
    sh[p] = size
    return Ten(sh, fn, cat_parts=list(ts) if p == r - 1 else None)


def slice_get(t, items):
    """items: per trailing dim  None (keep) | ("slice", lo, hi) | ("int", ix) | ("newaxis",) | ("iten", Ten)"""
    sh, plan = [], []
    src = 0
    for it in items:
        if it == ("newaxis",):
            sh.append(IX(1))
            plan.append(("new",))
            continue
        s = t.shape[src]
        if it is None:
            sh.append(s)
            plan.append(("keep", src))
        elif it[0] == "slice":
            lo = IX(0) if it[1] is None else it[1]
            hi = s if it[2] is None else it[2]
            sh.append(isub(hi, lo))
            plan.append(("off", src, lo))
        elif it[0] == "int":
            plan.append(("fix", src, it[1]))
        elif it[0] == "iten":
            if it[1].rank() != 1:
                raise TranslateError("index tensor of rank != 1")
            sh.append(it[1].shape[0])
            plan.append(("gather", src, it[1]))
        src += 1
    if src != t.rank():
        raise TranslateError("index does not cover the trailing dimensions")

    def fn(idx):
        it = iter(idx)
        full = [None] * t.rank()
        for pl in plan:
            if pl[0] == "new":
                next(it)
            elif pl[0] == "keep":
                full[pl[1]] = next(it)
            elif pl[0] == "off":
                full[pl[1]] = iadd(next(it), pl[2])
            elif pl[0] == "fix":
                full[pl[1]] = pl[2]
            else:
                full[pl[1]] = pl[2].at([next(it)])
        return t.at(full)
    return Ten(sh, fn, t.integer)


def slice_set(t, items, rhs):
    """in-place `t[items] = rhs` (slices / ints only): t's index function becomes piecewise"""
    rhs = as_ten(rhs)
    old = t.fn
    region_shape = slice_get(Ten(t.shape, old), items).shape
    bshape(region_shape, rhs.shape)
    if len(bshape(region_shape, rhs.shape)) != len(region_shape):
        raise TranslateError("assigned value has more dimensions than the target region")

    def fn(idx):
        cond = True
        sub = []
        for i, it, s in zip(idx, items, t.shape):
            if it is None:
                sub.append(i)
            elif it[0] == "slice":
                lo = IX(0) if it[1] is None else it[1]
                hi = s if it[2] is None else it[2]
                if it[1] is not None:
                    cond = cand(cond, cnot(clt(i, lo)))
                if it[2] is not None:
                    cond = cand(cond, clt(i, hi))
                sub.append(isub(i, lo))
            elif it[0] == "int":
                cond = cand(cond, ceq(i, it[1]))
            else:
                raise TranslateError("assignment through this kind of index")
        return ite(cond, bat(rhs, sub), old(idx))
    t.fn = fn
    t.cat_parts = None


def matmul(a, b):
    a, b = as_ten(a), as_ten(b)
    if a.rank() < 2 or b.rank() < 2:
        raise TranslateError("matmul of tensors of rank < 2")
    if a.shape[-1] != b.shape[-2]:
        raise TranslateError(f"matmul inner dimensions differ: {a.shape} @ {b.shape}")
    lead = bshape(a.shape[:-2], b.shape[:-2])
    v = fresh()

    def fn(idx):
        li, i, j = idx[:-2], idx[-2], idx[-1]
        av = bat(Ten(a.shape[:-2], lambda q: a.at(q + [i, ("iv", v)])), li) if a.rank() > 2 else a.at([i, ("iv", v)])
        bv = bat(Ten(b.shape[:-2], lambda q: b.at(q + [("iv", v), j])), li) if b.rank() > 2 else b.at([("iv", v), j])
        return ("sum", v, a.shape[-1], ("mul", av, bv))
    return Ten(lead + [a.shape[-2], b.shape[-1]], fn)


def rowlist(t, lead_idx):
    """the last axis of `t` at the leading indices `lead_idx`, as a list expression"""
    if t.cat_parts:
        return ("lcat", [rowlist(p, lead_idx) for p in t.cat_parts])
    v = fresh()
    return ("tab", v, t.shape[-1], t.at(list(lead_idx) + [("iv", v)]))


# ----------------------------------------------------------------------------------------- executor values

class Sc:
    """a per-call scalar (not a tensor): wraps a scalar expression"""
    def __init__(self, e):
        self.e = e


class SelfObj:
    def __init__(self, attrs, methods, bases=()):
        self.attrs, self.methods, self.bases = attrs, methods, bases     # bases: [methods dict of base classes]


class Bound:
    def __init__(self, node, selfobj):
        self.node, self.selfobj = node, selfobj


class Callback:
    """a sub-kernel / distance callback: name of the Lean parameter"""
    def __init__(self, name, kind="kernel"):
        self.name, self.kind = name, kind


class Marker:
    def __init__(self, name):
        self.name = name


class DataBool:
    def __init__(self, tag):
        self.tag = tag


class Mask:
    def __init__(self, t, what):
        self.t, self.what = t, what


class MaskSel:
    def __init__(self, t, mask, delta=None):
        self.t, self.mask, self.delta = t, mask, delta


class DiagView:
    def __init__(self, t):
        self.t = t


class Kron:
    def __init__(self, a, b):
        self.a, self.b = a, b


class Closure:
    def __init__(self, node, ex):
        self.node, self.ex = node, ex


def as_ten(x):  # noqa: F811  (extends the definition above with Sc)
    if isinstance(x, Ten):
        return x
    if isinstance(x, Sc):
        return Ten([], lambda idx, e=x.e: e)
    sc = SC(x)
    return Ten([], lambda idx, sc=sc: sc)


def scal(x):
    if isinstance(x, Sc):
        return x.e
    return SC(x)


def is_pyint(x):
    return isinstance(x, int) and not isinstance(x, bool)


def is_size(x):
    return is_pyint(x) or isinstance(x, Poly)


class AExec:
    def __init__(self, env, cfg, mod):
        self.env = dict(env)
        self.cfg = cfg
        self.mod = mod            # {"fns": {...}, "consts": {...assign nodes}, "classes": {...}}
        self.ret = None
        self.done = False

    # ------------------------------------------------------------------ statements
    def run(self, body):
        for st in body:
            if self.done:
                return
            self.stmt(st)

    def assign(self, tgt, v, lineno):
        if isinstance(tgt, ast.Name):
            self.env[tgt.id] = v
        elif isinstance(tgt, (ast.Tuple, ast.List)):
            if not isinstance(v, (tuple, list)) or len(v) != len(tgt.elts):
                raise TranslateError(f"line {lineno}: cannot unpack")
            for e, x in zip(tgt.elts, v):
                self.assign(e, x, lineno)
        elif isinstance(tgt, ast.Subscript):
            obj = self.ev(tgt.value)
            if not isinstance(obj, Ten):
                raise TranslateError(f"line {lineno}: item assignment on a non-tensor")
            if isinstance(tgt.slice, ast.Compare):
                m = self.ev(tgt.slice)
                if not (isinstance(v, MaskSel) and v.t is obj and isinstance(m, Mask) and m.t is obj and v.delta is not None):
                    raise TranslateError(f"line {lineno}: masked assignment form outside the vocabulary")
                old, dl = obj.fn, v.delta
                obj.fn = lambda idx: ("jit", old(idx), dl)
                obj.cat_parts = None
                return
            slice_set(obj, self.index_items(tgt.slice, obj, lineno), v)
        else:
            raise TranslateError(f"line {lineno}: assignment target outside the vocabulary")

    def stmt(self, st):
        if isinstance(st, ast.Expr) and isinstance(st.value, ast.Constant) and isinstance(st.value.value, str):
            return
        if isinstance(st, ast.Assign):
            if len(st.targets) != 1:
                raise TranslateError(f"line {st.lineno}: chained assignment")
            v = self.ev(st.value)
            self.assign(st.targets[0], v, st.lineno)
        elif isinstance(st, ast.If):
            c = self.ev(st.test)
            if isinstance(c, DataBool):
                c = self.data_bool(c, st.lineno)
            if is_pyint(c) or (isinstance(c, (tuple, list)) and not any(isinstance(x, str) for x in c)):
                c = bool(c)                          # Python truthiness of a concrete int / sequence
            if not isinstance(c, bool):
                raise TranslateError(f"line {st.lineno}: branch condition is not concrete")
            self.run(st.body if c else st.orelse)
        elif isinstance(st, ast.For):
            self.for_loop(st)
        elif isinstance(st, ast.With):
            self.run(st.body)                      # settings context managers do not change values
        elif isinstance(st, ast.FunctionDef):
            self.env[st.name] = Closure(st, self)
        elif isinstance(st, ast.Raise):
            raise TranslateError(f"line {st.lineno}: `raise` reached in the translated configuration")
        elif isinstance(st, ast.Expr):
            self.ev(st.value)
        elif isinstance(st, ast.Return):
            self.ret = self.ev(st.value) if st.value is not None else None
            self.done = True
        elif isinstance(st, ast.Pass):
            pass
        else:
            raise TranslateError(f"line {st.lineno}: statement {type(st).__name__} outside the vocabulary")

    def data_bool(self, c, lineno):
        if c.tag not in self.cfg:
            raise TranslateError(f"line {lineno}: data-dependent test `{c.tag}` has no value in the configuration")
        return bool(self.cfg[c.tag])

    def for_loop(self, st):
        if not isinstance(st.target, ast.Name) or st.orelse:
            raise TranslateError(f"line {st.lineno}: for-loop form outside the vocabulary")
        it = self.ev(st.iter)
        if isinstance(it, (list, tuple, range)):
            for x in it:
                self.env[st.target.id] = x
                self.run(st.body)
                if self.done:
                    return
            return
        if not isinstance(it, SymRange):
            raise TranslateError(f"line {st.lineno}: loop over a non-concrete iterable")
        # ---- `for p in range(P)` with a symbolic trip count P >= 1: iteration 0 is executed concretely, every later
        #      iteration symbolically with p >= 1; loop-carried tensors become an accumulator (Scalar.loopFrom1)
        name = st.target.id
        before = dict(self.env)
        self.env[name] = 0
        self.run(st.body)
        after0 = dict(self.env)
        carried = [k for k, v in after0.items() if k != name and (k not in before or before[k] is not v)]
        if len(carried) != 1 or not isinstance(after0[carried[0]], Ten):
            raise TranslateError(f"line {st.lineno}: symbolic loop must carry exactly one tensor (got {carried})")
        cv = carried[0]
        init = after0[cv]
        pv, av = fresh("p"), fresh("acc")

        def step_from(acc_t):
            ex = AExec(dict(after0), self.cfg, self.mod)
            ex.env[name] = SymIdx(("iv", pv))
            ex.env[cv] = acc_t
            ex.run(st.body)
            extra = [k for k, v in ex.env.items() if k not in (name, cv) and (k not in after0 or after0[k] is not v)]
            if extra:
                raise TranslateError(f"line {st.lineno}: symbolic loop changes other variables {extra}")
            return ex.env[cv]
        s1 = step_from(Ten(init.shape, lambda idx: ("acc", av)))
        s2 = step_from(Ten(s1.shape, lambda idx: ("acc", av)))
        if s1.shape != s2.shape:
            raise TranslateError(f"line {st.lineno}: accumulator shape does not stabilise")
        e1 = s1.at([("iv", f"z{q}") for q in range(s1.rank())])
        e2 = s2.at([("iv", f"z{q}") for q in range(s2.rank())])
        if e1 != e2:
            raise TranslateError(f"line {st.lineno}: loop step depends on the accumulator's shape")
        n = it.n
        self.env[cv] = Ten(s1.shape, lambda idx: ("loop1", pv, av, n, bat(init, idx), s1.at(idx)))
        self.env[name] = SymIdx(isub(n, IX(1)))

    # ------------------------------------------------------------------ expressions
    def ev(self, e):
        m = getattr(self, "ev_" + type(e).__name__, None)
        if m is None:
            raise TranslateError(f"line {getattr(e, 'lineno', '?')}: expression {type(e).__name__} outside the vocabulary")
        return m(e)

    def ev_Constant(self, e):
        return e.value

    def ev_Name(self, e):
        if e.id in self.env:
            return self.env[e.id]
        if e.id in ("len", "range", "int", "super", "float", "isinstance"):
            return Marker(e.id)
        if e.id in self.mod["fns"]:
            return Closure(self.mod["fns"][e.id], AExec({}, self.cfg, self.mod))
        if e.id in self.mod["consts"]:
            return AExec({}, self.cfg, self.mod).ev(self.mod["consts"][e.id])
        if e.id == "pi":
            return Sc(("pi",))
        if e.id in ("torch", "math", "settings", "KroneckerProductLinearOperator", "Tensor", "to_linear_operator", "to_dense"):
            return Marker(e.id)
        raise TranslateError(f"line {e.lineno}: unknown name {e.id}")

    def ev_Tuple(self, e):
        out = []
        for x in e.elts:
            if isinstance(x, ast.Starred):
                v = self.ev(x.value)
                if not isinstance(v, (tuple, list)):
                    raise TranslateError("starred non-sequence")
                out += list(v)
            else:
                out.append(self.ev(x))
        return tuple(out)

    def ev_List(self, e):
        return list(self.ev_Tuple(e))

    def ev_Attribute(self, e):
        if isinstance(e.value, ast.Name) and e.value.id == "math" and "math" not in self.env:
            if e.attr == "pi":
                return Sc(("pi",))
            raise TranslateError(f"math.{e.attr} outside the vocabulary")
        o = self.ev(e.value)
        if isinstance(o, SelfObj):
            if e.attr in o.attrs:
                return o.attrs[e.attr]
            for ms in (o.methods,) + tuple(o.bases):
                if e.attr in ms:
                    return Bound(ms[e.attr], o)
            raise TranslateError(f"line {e.lineno}: self.{e.attr} outside the vocabulary")
        if isinstance(o, Ten):
            if e.attr == "shape":
                return [s[1] if s[0] == "sz" else SymIdx(s) for s in o.shape]
            if e.attr in ("dtype", "device"):
                return Marker(e.attr)
            if e.attr == "requires_grad":
                return bool(self.cfg.get("requires_grad", False))
            if e.attr == "mT":
                return transpose(o, -1, -2)
        raise TranslateError(f"line {e.lineno}: attribute .{e.attr} outside the vocabulary")

    def index_items(self, sl, obj, lineno):
        parts = list(sl.elts) if isinstance(sl, ast.Tuple) else [sl]
        items, ell = [], None
        for p in parts:
            if isinstance(p, ast.Constant) and p.value is Ellipsis:
                if ell is not None:
                    raise TranslateError(f"line {lineno}: two ellipses")
                ell = len(items)
            elif isinstance(p, ast.Constant) and p.value is None:
                items.append(("newaxis",))
            elif isinstance(p, ast.Slice):
                if p.step is not None:
                    raise TranslateError(f"line {lineno}: stepped slice")
                lo = None if p.lower is None else self.size_ix(self.ev(p.lower), lineno)
                hi = None if p.upper is None else self.size_ix(self.ev(p.upper), lineno)
                items.append(None if lo is None and hi is None else ("slice", lo, hi))
            else:
                v = self.ev(p)
                if isinstance(v, Ten) and v.integer:
                    items.append(("iten", v))
                else:
                    items.append(("int", self.size_ix(v, lineno)))
        consumed = sum(1 for it in items if it != ("newaxis",))
        if ell is None:
            if consumed != obj.rank():
                raise TranslateError(f"line {lineno}: index without ellipsis must cover all dimensions (batch dims unknown)")
        else:
            if ell != 0:
                raise TranslateError(f"line {lineno}: ellipsis not in front")
            if consumed > obj.rank():
                raise TranslateError(f"line {lineno}: too many indices")
            items = [None] * (obj.rank() - consumed) + items
        return items

    def size_ix(self, v, lineno):
        if isinstance(v, SymIdx):
            return v.e
        if is_size(v):
            return IX(v)
        raise TranslateError(f"line {lineno}: index / size is not an integer expression: {v!r}")

    def ev_Subscript(self, e):
        o = self.ev(e.value)
        if isinstance(o, Ten):
            if isinstance(e.slice, ast.Compare):
                m = self.ev(e.slice)
                if isinstance(m, Mask) and m.t is o:
                    return MaskSel(o, m)
                raise TranslateError(f"line {e.lineno}: boolean-mask indexing outside the vocabulary")
            return slice_get(o, self.index_items(e.slice, o, e.lineno))
        if isinstance(o, (tuple, list)):
            if isinstance(e.slice, ast.Slice):
                lo = None if e.slice.lower is None else self.ev(e.slice.lower)
                hi = None if e.slice.upper is None else self.ev(e.slice.upper)
                if e.slice.step is not None or not all(x is None or is_pyint(x) for x in (lo, hi)):
                    raise TranslateError(f"line {e.lineno}: slice of a sequence")
                return o[lo:hi]
            i = self.ev(e.slice)
            if is_pyint(i):
                return o[i]
        raise TranslateError(f"line {e.lineno}: subscript outside the vocabulary")

    def ev_UnaryOp(self, e):
        v = self.ev(e.operand)
        if isinstance(e.op, ast.USub):
            if is_num(v):
                return -v
            if isinstance(v, Sc):
                return Sc(("neg", v.e))
            if isinstance(v, Ten):
                return unary("neg", v)
            raise TranslateError(f"line {e.lineno}: negation of {type(v).__name__}")
        if isinstance(e.op, ast.Not):
            if isinstance(v, DataBool):
                v = self.data_bool(v, e.lineno)
            if isinstance(v, bool):
                return not v
        raise TranslateError(f"line {e.lineno}: unary operator outside the vocabulary")

    def ev_BoolOp(self, e):
        is_and = isinstance(e.op, ast.And)
        for x in e.values:
            v = self.ev(x)
            if isinstance(v, DataBool):
                v = self.data_bool(v, e.lineno)
            if not isinstance(v, bool):
                raise TranslateError(f"line {e.lineno}: boolean operator on a non-concrete value")
            if is_and and not v:
                return False
            if not is_and and v:
                return True
        return is_and

    def ev_Compare(self, e):
        if len(e.ops) != 1:
            raise TranslateError("chained comparison")
        a, b = self.ev(e.left), self.ev(e.comparators[0])
        op = e.ops[0]
        if isinstance(a, Ten) and is_num(b):
            if isinstance(op, ast.Eq) and const(b) == 0:
                return Mask(a, "eq0")
            if isinstance(op, ast.Gt):
                return DataBool(f"gt{const(b)}")
            raise TranslateError(f"line {e.lineno}: tensor comparison outside the vocabulary")
        if a is None or b is None:
            if isinstance(op, ast.Is):
                return a is b
            if isinstance(op, ast.IsNot):
                return a is not b
        if isinstance(a, bool) and isinstance(b, bool) and isinstance(op, (ast.Is, ast.Eq)):
            return a is b
        if isinstance(a, SymIdx) and is_pyint(b) and b == 0 and isinstance(op, ast.Eq) and a.e[0] == "iv":
            return False                              # symbolic loop index of the iterations p >= 1
        if is_size(a) and is_size(b) and isinstance(op, (ast.Eq, ast.NotEq)):
            d = (Poly.of(a) - Poly.of(b)).const()
            if d is None:
                tag = "n1_eq_n2" if {repr(Poly.of(a)), repr(Poly.of(b))} == {repr(Poly.of("n1")), repr(Poly.of("n2"))} else None
                if tag and tag in self.cfg:
                    r = bool(self.cfg[tag])
                    return r if isinstance(op, ast.Eq) else not r
                raise TranslateError(f"line {e.lineno}: comparison of sizes {a} and {b} is not decided")
            return (d == 0) if isinstance(op, ast.Eq) else (d != 0)
        if not (is_num(a) and is_num(b)):
            raise TranslateError(f"line {e.lineno}: comparison of non-concrete values")
        a, b = const(a), const(b)
        table = {ast.Eq: a == b, ast.NotEq: a != b, ast.Gt: a > b, ast.GtE: a >= b, ast.Lt: a < b, ast.LtE: a <= b}
        for k, v in table.items():
            if isinstance(op, k):
                return v
        raise TranslateError("comparison operator outside the vocabulary")

    def ev_IfExp(self, e):
        c = self.ev(e.test)
        if not isinstance(c, bool):
            raise TranslateError(f"line {e.lineno}: conditional expression on a non-concrete test")
        return self.ev(e.body if c else e.orelse)

    def ev_BinOp(self, e):
        return self.binop(e.op, self.ev(e.left), self.ev(e.right), e.lineno)

    def binop(self, op, a, b, lineno):
        name = {ast.Add: "add", ast.Sub: "sub", ast.Mult: "mul", ast.Div: "div", ast.Pow: "pow"}.get(type(op))
        if name is None:
            raise TranslateError(f"line {lineno}: operator {type(op).__name__} outside the vocabulary")
        if isinstance(a, MaskSel) and name == "add" and a.delta is None:
            return MaskSel(a.t, a.mask, scal(b))
        if isinstance(a, (list, tuple)) and isinstance(b, (list, tuple)) and name == "add":
            return list(a) + list(b)
        if isinstance(a, list) and is_pyint(b) and name == "mul":
            return a * b
        if (isinstance(a, SymIdx) or isinstance(b, SymIdx)) and name in ("add", "sub", "mul") and \
                all(isinstance(v, SymIdx) or is_size(v) for v in (a, b)):
            ea, eb = (v.e if isinstance(v, SymIdx) else IX(v) for v in (a, b))
            return SymIdx({"add": iadd, "sub": isub, "mul": imul}[name](ea, eb))
        if is_pyint(a) and is_pyint(b) and name in ("add", "sub", "mul"):
            return a + b if name == "add" else a - b if name == "sub" else a * b
        if is_size(a) and is_size(b) and (isinstance(a, Poly) or isinstance(b, Poly)):
            A, B = Poly.of(a), Poly.of(b)
            if name == "add":
                return A + B
            if name == "sub":
                return A - B
            if name == "mul":
                return A * B
            if name == "div":
                q = A.div_exact(B)
                if q is None:
                    raise TranslateError(f"line {lineno}: size {A} is not divisible by {B}")
                return q
        if is_num(a) and is_num(b):
            a, b = const(a), const(b)
            if name == "pow":
                if b.denominator != 1:
                    raise TranslateError("non-integer constant power")
                return a ** int(b)
            return a + b if name == "add" else a - b if name == "sub" else a * b if name == "mul" else a / b
        if name == "pow":
            return self.power(a, b, lineno)
        if isinstance(a, Ten) or isinstance(b, Ten):
            return ewise(name, self.num_like(a), self.num_like(b))
        if isinstance(a, (Sc, Poly, SymIdx)) or isinstance(b, (Sc, Poly, SymIdx)) or (is_num(a) and is_num(b)):
            return Sc((name, scal(self.num_like(a)), scal(self.num_like(b))))
        raise TranslateError(f"line {lineno}: `{name}` of {type(a).__name__} and {type(b).__name__} outside the vocabulary")

    def num_like(self, x):
        if isinstance(x, SymIdx):
            return Sc(("ofnat", x.e))
        return x

    def power(self, a, n, lineno, inplace=False):
        if isinstance(n, SymIdx):
            nix = n.e
        elif is_size(n):
            nix = IX(n)
            c = _c(nix)
            if c is not None and c < 0:
                raise TranslateError(f"line {lineno}: negative integer power")
        else:
            nix = None
        if isinstance(a, Ten):
            if nix is not None:
                old = a.fn
                f = lambda idx: ("npow", old(idx), nix)  # noqa: E731
                if inplace:
                    a.fn = f
                    a.cat_parts = None
                    return a
                return Ten(a.shape, f)
            if is_num(n):
                raise TranslateError(f"line {lineno}: non-integer constant power of a tensor")
            r = ewise("rpow", a, n)
            if inplace:
                if r.shape != a.shape:
                    raise TranslateError("in-place power changes the shape")
                a.fn = r.fn
                return a
            return r
        if nix is not None:
            return Sc(("npow", scal(self.num_like(a)), nix))
        raise TranslateError(f"line {lineno}: power outside the vocabulary")

    # ------------------------------------------------------------------ calls
    def bind_call(self, node, args, kwargs, selfobj=None):
        a = node.args
        names = [x.arg for x in a.args]
        defaults = [self_default(d) for d in a.defaults]
        env = {}
        vals = ([selfobj] if selfobj is not None else []) + list(args)
        if len(vals) > len(names) and not a.vararg:
            raise TranslateError(f"too many arguments for {node.name}")
        kwargs = dict(kwargs)
        for i, n in enumerate(names):
            if i < len(vals):
                env[n] = vals[i]
            elif n in kwargs:
                env[n] = kwargs.pop(n)
            else:
                j = i - (len(names) - len(defaults))
                if j < 0:
                    raise TranslateError(f"missing argument {n} of {node.name}")
                env[n] = defaults[j]
        if a.vararg:
            env[a.vararg.arg] = tuple(vals[len(names):])
        for ko, kd in zip(a.kwonlyargs, a.kw_defaults):
            env[ko.arg] = kwargs.pop(ko.arg) if ko.arg in kwargs else self_default(kd)
        if a.kwarg:
            env[a.kwarg.arg] = kwargs
        elif kwargs:
            raise TranslateError(f"{node.name}: unexpected keyword arguments {sorted(kwargs)}")
        return env

    def call_fn(self, node, args, kwargs, selfobj=None, base_env=None):
        env = dict(base_env or {})
        env.update(self.bind_call(node, args, kwargs, selfobj))
        ex = AExec(env, self.cfg, self.mod)
        ex.run(node.body)
        return ex.ret

    def ev_args(self, nodes):
        out = []
        for a in nodes:
            if isinstance(a, ast.Starred):
                v = self.ev(a.value)
                if not isinstance(v, (tuple, list)):
                    raise TranslateError("starred argument of a non-sequence")
                out += list(v)
            else:
                out.append(self.ev(a))
        return out

    def ev_Call(self, e):
        f = e.func
        kwargs = {}
        for k in e.keywords:
            if k.arg is None:
                v = self.ev(k.value)
                if not isinstance(v, dict):
                    raise TranslateError(f"line {e.lineno}: ** of a non-dict")
                kwargs.update(v)
            else:
                kwargs[k.arg] = self.ev(k.value)
        if isinstance(f, ast.Attribute) and isinstance(f.value, ast.Name) and f.value.id in ("math", "torch") \
                and f.value.id not in self.env:
            return self.module_call(f.value.id, f.attr, self.ev_args(e.args), kwargs, e.lineno)
        if isinstance(f, ast.Attribute) and isinstance(f.value, ast.Call) and isinstance(f.value.func, ast.Name) \
                and f.value.func.id == "super":
            so = self.env.get("self")
            for ms in so.bases:
                if f.attr in ms:
                    return self.super_call(ms[f.attr], self.ev_args(e.args), kwargs, so, e.lineno)
            raise TranslateError(f"line {e.lineno}: super().{f.attr} outside the vocabulary")
        if isinstance(f, ast.Attribute) and isinstance(f.value, ast.Attribute) and f.value.attr in (
                "lazily_evaluate_kernels",) :
            return Marker("ctxmgr")
        if isinstance(f, ast.Attribute):
            obj = self.ev(f.value)
            args = self.ev_args(e.args)
            return self.method(obj, f.attr, args, kwargs, e.lineno)
        fn = self.ev(f)
        args = self.ev_args(e.args)
        return self.call_value(fn, args, kwargs, e.lineno)

    def super_call(self, node, args, kwargs, so, lineno):
        raise TranslateError(f"line {lineno}: super() call outside the vocabulary")

    def call_value(self, fn, args, kwargs, lineno):
        if isinstance(fn, Closure):
            return self.call_fn(fn.node, args, kwargs, base_env=fn.ex.env)
        if isinstance(fn, Bound):
            return self.call_fn(fn.node, args, kwargs, selfobj=fn.selfobj)
        if isinstance(fn, Callback):
            return self.callback(fn, args, kwargs, lineno)
        if isinstance(fn, Marker):
            n = fn.name
            if n == "len" and len(args) == 1 and isinstance(args[0], (tuple, list)):
                return len(args[0])
            if n == "range" and len(args) == 1:
                if is_pyint(args[0]):
                    return range(args[0])
                if isinstance(args[0], Poly):
                    return SymRange(IX(args[0]))
            if n == "int" and len(args) == 1 and is_size(args[0]):
                return args[0]
            if n == "mask" and len(args) == 1:
                return self.mask_for(args[0], lineno)
            if n == "KroneckerProductLinearOperator" and len(args) == 2:
                return Kron(as_ten(args[0]), as_ten(args[1]))
            if n in ("to_linear_operator", "to_dense") and len(args) == 1 and isinstance(args[0], (Ten, Kron)):
                return args[0]                      # a LinearOperator wrapper is read by its dense meaning
        raise TranslateError(f"line {lineno}: call outside the vocabulary")

    def mask_for(self, x, lineno):
        for nm, leaf in (("x1", "MASK1"), ("x2", "MASK2")):
            if x is self.cfg["_inputs"][nm]:
                return Ten(x.shape, lambda idx, leaf=leaf: ("get2", leaf, idx[0], idx[1]))
        raise TranslateError(f"line {lineno}: delta_func applied to something that is not x1 / x2")

    def callback(self, cb, args, kwargs, lineno):
        a, b = as_ten(args[0]), as_ten(args[1])
        if a.rank() != 2 or b.rank() != 2:
            raise TranslateError(f"line {lineno}: sub-kernel called on tensors of rank != 2")
        diag = bool(kwargs.get("diag", False))
        if cb.kind == "dist":
            name = "sqd" if kwargs.get("square_dist", False) else "distf"
            if kwargs.get("last_dim_is_batch", False):
                raise TranslateError("covar_dist(last_dim_is_batch=True) outside the vocabulary")
        else:
            name = cb.name
        if a.shape[-1] != b.shape[-1]:
            raise TranslateError(f"line {lineno}: sub-kernel inputs of different dimension")
        if diag:
            if a.shape[0] != b.shape[0]:
                raise TranslateError(f"line {lineno}: diag sub-kernel call on inputs of different length")
            return Ten([a.shape[0]], lambda idx: ("call", name, [rowlist(a, [idx[0]]), rowlist(b, [idx[0]])]))
        return Ten([a.shape[0], b.shape[0]], lambda idx: ("call", name, [rowlist(a, [idx[0]]), rowlist(b, [idx[1]])]))

    def module_call(self, mod, fn, args, kw, lineno):
        if mod == "math":
            if fn == "sqrt" and len(args) == 1 and is_num(args[0]):
                return Sc(("sqrtc", const(args[0])))
            raise TranslateError(f"line {lineno}: math.{fn} outside the vocabulary")
        if fn == "equal" and len(args) == 2:
            return bool(self.cfg.get("x1_eq_x2", False))
        if fn == "eq" and len(args) == 2:
            return DataBool("x1_eq_x2")
        if fn == "any" and len(args) == 1 and isinstance(args[0], DataBool):
            return args[0]
        if fn == "is_tensor":
            return isinstance(args[0], Ten)
        if fn in ("exp", "cos", "sin", "sqrt") and len(args) == 1:
            return unary(fn, as_ten(args[0]))
        if fn == "ones_like" and len(args) == 1 and isinstance(args[0], Ten):
            return Ten(args[0].shape, lambda idx: ("const", Fraction(1)))
        if fn in ("zeros", "ones"):
            v = Fraction(0 if fn == "zeros" else 1)
            return Ten([self.size_ix(s, lineno) for s in args], lambda idx: ("const", v))
        if fn == "eye" and len(args) == 2:
            return Ten([self.size_ix(s, lineno) for s in args],
                       lambda idx: ite(ceq(idx[0], idx[1]), ("const", Fraction(1)), ("const", Fraction(0))))
        if fn == "arange" and len(args) == 1:
            return Ten([self.size_ix(args[0], lineno)], lambda idx: idx[0], integer=True)
        if fn == "cat" and len(args) == 1 and isinstance(args[0], (list, tuple)) and "dim" in kw:
            return cat(args[0], kw["dim"])
        if fn == "transpose" and len(args) == 3:
            return transpose(args[0], args[1], args[2])
        if fn == "matmul" and len(args) == 2:
            return matmul(args[0], args[1])
        if fn == "add" and len(args) == 2:
            return ewise("add", args[0], args[1])
        if fn == "broadcast_shapes":
            if all(isinstance(a, (tuple, list)) and len(a) == 0 for a in args):
                return ()
            raise TranslateError(f"line {lineno}: broadcast_shapes of non-empty (batch) shapes")
        raise TranslateError(f"line {lineno}: torch.{fn} outside the vocabulary")

    def method(self, obj, meth, args, kw, lineno):
        if isinstance(obj, dict):
            if meth in ("pop", "get") and 1 <= len(args) <= 2 and isinstance(args[0], str):
                d = args[1] if len(args) == 2 else None
                return obj.pop(args[0], d) if meth == "pop" else obj.get(args[0], d)
            raise TranslateError(f"line {lineno}: dict.{meth}")
        if isinstance(obj, SelfObj):
            for ms in (obj.methods,) + tuple(obj.bases):
                if meth in ms:
                    return self.call_fn(ms[meth], args, kw, selfobj=obj)
            if meth in obj.attrs:
                return self.call_value(obj.attrs[meth], args, kw, lineno)
            raise TranslateError(f"line {lineno}: self.{meth}(…) outside the vocabulary")
        if isinstance(obj, DataBool) and meth == "all" and not args:
            return obj
        if isinstance(obj, Callback) and meth == "forward":
            return self.callback(obj, args, kw, lineno)
        if isinstance(obj, DiagView) and meth != "fill_":
            obj = obj.ten
        if isinstance(obj, Kron) and meth != "to_dense":
            obj = self.method(obj, "to_dense", [], {}, lineno)
        if isinstance(obj, Kron) and meth == "to_dense":
            A, B = obj.a, obj.b
            return Ten([imul(A.shape[0], B.shape[0]), imul(A.shape[1], B.shape[1])],
                       lambda idx: ("mul", A.at([idx_div(idx[0], B.shape[0]), idx_div(idx[1], B.shape[1])]),
                                    B.at([imod(idx[0], B.shape[0]), imod(idx[1], B.shape[1])])))
        if isinstance(obj, DiagView):
            if meth == "fill_" and len(args) == 1 and is_num(args[0]):
                t, old, v = obj.t, obj.t.fn, ("const", const(args[0]))
                t.fn = lambda idx: ite(ceq(idx[-2], idx[-1]), v, old(idx))
                return obj
            raise TranslateError(f"line {lineno}: diagonal view .{meth}")
        if not isinstance(obj, Ten):
            raise TranslateError(f"line {lineno}: method .{meth} on {type(obj).__name__}")
        t = obj
        sz = lambda v: self.size_ix(v, lineno)  # noqa: E731
        if meth in ("to", "contiguous", "float", "double", "type_as"):
            return t
        if meth == "clone" and not args:
            return Ten(t.shape, t.fn, t.integer, t.cat_parts)
        if meth == "size":
            if not args:
                return [s[1] if s[0] == "sz" else SymIdx(s) for s in t.shape]
            s = t.shape[norm_dim(args[0], t.rank())]
            return s[1] if s[0] == "sz" else SymIdx(s)
        if meth == "dim" and not args:
            return t.rank()
        if meth == "unsqueeze" and len(args) == 1:
            return unsqueeze(t, args[0])
        if meth == "transpose" and len(args) == 2:
            return transpose(t, args[0], args[1])
        if meth == "t" and not args and t.rank() == 2:
            return transpose(t, -1, -2)
        if meth in ("view", "reshape"):
            a = list(args[0]) if len(args) == 1 and isinstance(args[0], (tuple, list)) else list(args)
            return reshape(t, [x if (is_pyint(x) and x == -1) else sz(x) for x in a])
        if meth == "expand":
            a = list(args[0]) if len(args) == 1 and isinstance(args[0], (tuple, list)) else list(args)
            return expand(t, [x if (is_pyint(x) and x == -1) else sz(x) for x in a])
        if meth == "repeat":
            a = list(args[0]) if len(args) == 1 and isinstance(args[0], (tuple, list)) else list(args)
            return repeat(t, [sz(x) for x in a])
        if meth in ("sum", "prod"):
            dim = kw.get("dim", args[0] if args else None)
            if dim is None:
                raise TranslateError(f"line {lineno}: full reduction")
            return reduce_(t, meth, dim, bool(kw.get("keepdim", False)))
        if meth == "norm" and "dim" in kw:
            sq = Ten(t.shape, lambda idx: ("npow", t.at(idx), IX(2)))
            return unary("sqrt", reduce_(sq, "sum", kw["dim"], bool(kw.get("keepdim", False))))
        if meth == "diagonal":
            d1, d2 = kw.get("dim1", -2), kw.get("dim2", -1)
            if sorted([d1, d2]) != [-2, -1] or t.rank() < 2:
                raise TranslateError(f"line {lineno}: diagonal over other dimensions")
            if t.shape[-1] != t.shape[-2] and not self.cfg.get("diag_square_ok"):
                raise TranslateError(f"line {lineno}: diagonal of a non-square matrix {t.shape}")
            view = DiagView(t)
            view.ten = Ten(t.shape[:-2] + [t.shape[-2]], lambda idx: t.at(idx + [idx[-1]]))
            return view
        if meth == "matmul" and len(args) == 1:
            return matmul(t, args[0])
        un = {"exp": "exp", "sin": "sin", "cos": "cos", "sqrt": "sqrt", "neg": "neg"}
        if meth in un and not args:
            return unary(un[meth], t)
        if meth.endswith("_") and meth[:-1] in un and not args:
            old, op = t.fn, un[meth[:-1]]
            t.fn = lambda idx: (op, old(idx))
            t.cat_parts = None
            return t
        if meth == "reciprocal" and not args:
            return Ten(t.shape, lambda idx: ("div", ("const", Fraction(1)), t.at(idx)))
        bi = {"div": "div", "mul": "mul", "add": "add", "sub": "sub"}
        if meth in bi and len(args) == 1:
            return ewise(bi[meth], t, self.num_like(args[0]))
        if meth.endswith("_") and meth[:-1] in bi and len(args) == 1:
            r = ewise(bi[meth[:-1]], Ten(t.shape, t.fn), self.num_like(args[0]))
            if r.shape != t.shape:
                raise TranslateError(f"line {lineno}: in-place .{meth} changes the shape")
            t.fn = r.fn
            t.cat_parts = None
            return t
        if meth in ("clamp_min", "clamp_min_") and len(args) == 1 and is_num(args[0]):
            old, c = t.fn, ("const", const(args[0]))
            f = lambda idx: ("max", old(idx), c)  # noqa: E731
            if meth.endswith("_"):
                t.fn = f
                return t
            return Ten(t.shape, f)
        if meth in ("pow", "pow_") and len(args) == 1:
            return self.power(t, args[0], lineno, inplace=meth.endswith("_"))
        raise TranslateError(f"line {lineno}: tensor method .{meth} outside the vocabulary")


def idx_div(a, b):
    return idiv(a, b)


class SymIdx:
    """a Python int kept symbolic (loop index, non-polynomial size)"""
    def __init__(self, e):
        self.e = e


class SymRange:
    def __init__(self, n):
        self.n = n


def self_default(d):
    if d is None:
        raise TranslateError("keyword-only argument without default")
    if isinstance(d, ast.Constant):
        return d.value
    if isinstance(d, ast.UnaryOp) and isinstance(d.op, ast.USub) and isinstance(d.operand, ast.Constant):
        return -d.operand.value
    raise TranslateError("non-constant default argument")


# ----------------------------------------------------------------------------------------- drivers

def load_module(repo, rel):
    p = os.path.join(repo, rel)
    tree = ast.parse(open(p).read(), p)
    fns = {n.name: n for n in tree.body if isinstance(n, ast.FunctionDef)}
    classes = {n.name: {m.name: m for m in n.body if isinstance(m, ast.FunctionDef)} for n in tree.body
               if isinstance(n, ast.ClassDef)}
    consts = {n.targets[0].id: n.value for n in tree.body
              if isinstance(n, ast.Assign) and len(n.targets) == 1 and isinstance(n.targets[0], ast.Name)}
    return {"fns": fns, "classes": classes, "consts": consts}


def param(name, shape, pick):
    """parameter tensor; pick: None (scalar `name`) | int (list indexed by that axis) | (int, int) (list of lists)"""
    if pick is None:
        return Ten(shape, lambda idx: ("var", name))
    if isinstance(pick, int):
        return Ten(shape, lambda idx: ("get", name, idx[pick]))
    return Ten(shape, lambda idx: ("get2", name, idx[pick[0]], idx[pick[1]]))


def inputs(cfg, d):
    """x1 : n1 x d reading X1, x2 : n2 x d reading X2 (n2 := n1 when the configuration says x1 == x2 or diag)"""
    n2 = "n1" if (cfg.get("diag") or cfg.get("x1_eq_x2")) else "n2"
    x1 = Ten([Poly.of("n1"), d], lambda idx: ("get2", "X1", idx[0], idx[1]))
    x2 = Ten([Poly.of(n2), d], lambda idx: ("get2", "X2", idx[0], idx[1]))
    cfg["_inputs"] = {"x1": x1, "x2": x2}
    return x1, x2


def resolve(e, on_diag):
    def rc(c):
        if isinstance(c, bool):
            return c
        k = c[0]
        if k == "eq" and {c[1], c[2]} == {("iv", "i"), ("iv", "j")}:
            if on_diag is None:
                raise TranslateError("entry depends on whether i = j but the configuration does not say")
            return on_diag
        if k == "and":
            return cand(rc(c[1]), rc(c[2]))
        if k == "not":
            return cnot(rc(c[1]))
        return c

    def f(t):
        if t and t[0] == "ite":
            return ite(rc(t[1]), t[2], t[3])
        return t
    return map_term(e, f)


def entry(result, cfg):
    """per-pair term of the returned tensor: checks the shape and that entry (i, j) reads row i of x1 / row j of x2"""
    if isinstance(result, DiagView):
        result = result.ten
    if not isinstance(result, Ten):
        raise TranslateError(f"forward returns {type(result).__name__}, not a tensor")
    x1, x2 = cfg["_inputs"]["x1"], cfg["_inputs"]["x2"]
    want = [x1.shape[0]] if cfg.get("diag") else [x1.shape[0], x2.shape[0]]
    sh = list(result.shape)
    while len(sh) > len(want) and is_one(sh[0]):
        sh = sh[1:]
    if sh != want:
        raise TranslateError(f"forward returns shape {result.shape}, expected {want} (diag={bool(cfg.get('diag'))})")
    lead = [IX(0)] * (result.rank() - len(want))
    i, j = ("iv", "i"), ("iv", "i" if cfg.get("diag") else "j")
    e = result.at(lead + ([i] if cfg.get("diag") else [i, j]))
    e = resolve(e, cfg.get("on_diag"))
    for lf in leaves(e, []):
        row = {"X1": i, "MASK1": i, "X2": j, "MASK2": j}.get(lf[1])
        if row is None:
            continue
        if lf[2] != row:
            raise TranslateError(f"entry (i, j) reads row {lf[2]} of {lf[1]}")

    def f(t):
        if t and t[0] == "get2" and t[1] in ("X1", "X2", "MASK1", "MASK2"):
            return ("get", {"X1": "x1", "X2": "x2", "MASK1": "mask1", "MASK2": "mask2"}[t[1]], t[3])
        return t
    e = map_term(e, f)
    free = set()

    def g(t):
        if t and t[0] == "iv" and t[1] in ("i", "j"):
            free.add(t[1])
        return t
    map_term(e, g)
    if free:
        raise TranslateError(f"entry still depends on the point indices {sorted(free)}")
    return e


def run_method(mod, cls, meth, attrs, cfg, d, bases=(), extra=None):
    x1, x2 = inputs(cfg, d)
    so = SelfObj(dict(attrs), mod["classes"][cls], bases)
    fn = mod["classes"][cls][meth]
    given = {"x1": x1, "x2": x2}
    names = [a.arg for a in fn.args.args]
    if "diag" in names:
        given["diag"] = bool(cfg.get("diag", False))
    given.update(extra or {})
    ex = AExec({}, cfg, mod)
    ret = ex.call_fn(fn, [], given, selfobj=so)
    return entry(ret, cfg)


HEADER = """/-
GENERATED by harness/translate/g5_axes.py from $VERIF_REPO — do not edit.
Per-pair terms (entry (i, j): `x1` = row i of the first argument, `x2` = row j of the second) of kernel `forward`
methods obtained by AXIS-AWARE symbolic execution: every tensor is an index function over its trailing shape, so
unsqueeze / transpose / view / broadcasting / sum(dim) / prod(dim) / diagonal / cat / slicing have been executed, not assumed.
Reductions: `Scalar.sumR n f = Σ_{k<n} f k`, `Scalar.prodR`, rows handed to a sub-kernel: `Scalar.tab n f = [f 0, …, f (n-1)]`,
element access `Scalar.nth a k` (0 outside), `Scalar.nth2 A q l`; sub-kernels / distance callbacks are parameters.
-/
import GPVerif.Model.RangeOps

set_option linter.unusedVariables false

namespace Gen.KernelAxes

variable {α : Type} [Add α] [Sub α] [Mul α] [Div α] [Neg α] [Scalar α]

"""


def translate(repo):
    global _fresh
    _fresh = itertools.count()
    out = [HEADER]

    def emit(doc, name, params, term, sym):
        out.append(f"/-- {doc} -/\ndef {name} {params} : α :=\n  {lsc(term, sym)}\n\n")

    D = Poly.of("d")
    SYM = {"d": "x1.length"}

    # ---------------- SpectralMixtureKernel
    mod = load_module(repo, "gpytorch/kernels/spectral_mixture_kernel.py")
    Q = Poly.of("Q")
    attrs = {"ard_num_dims": D, "mixture_weights": param("mixture_weights", [Q], 0),
             "mixture_scales": param("mixture_scales", [Q, 1, D], (0, 2)),
             "mixture_means": param("mixture_means", [Q, 1, D], (0, 2))}
    for tag, diag in (("", False), ("Diag", True)):
        t = run_method(mod, "SpectralMixtureKernel", "forward", attrs, {"diag": diag}, D)
        emit(f"`SpectralMixtureKernel.forward`, diag={diag}; `mixture_means` / `mixture_scales` indexed [mixture][dimension]",
             f"spectralMixture{tag}", "(x1 x2 mixture_weights : List α) (mixture_means mixture_scales : List (List α))", t,
             dict(SYM, Q="mixture_weights.length"))

    # ---------------- HammingIMQKernel
    mod = load_module(repo, "gpytorch/kernels/hamming_kernel.py")
    TV = Poly.of("T") * Poly.of("V")
    attrs = {"vocab_size": Poly.of("V"), "alpha": param("alpha", [1], None), "beta": param("beta", [1], None),
             "batch_shape": ()}
    symh = {"T": "(x1.length / vocab)", "V": "vocab"}
    for tag, cfg in (("", {"diag": False, "x1_eq_x2": False}),
                     ("SameOff", {"diag": False, "x1_eq_x2": True, "on_diag": False}),
                     ("SameDiag", {"diag": False, "x1_eq_x2": True, "on_diag": True}),
                     ("DiagSame", {"diag": True, "x1_eq_x2": True}),
                     ("DiagOther", {"diag": True, "x1_eq_x2": False})):
        t = run_method(mod, "HammingIMQKernel", "forward", attrs, dict(cfg), TV)
        emit(f"`HammingIMQKernel.forward`, configuration {cfg} (rows are flattened one-hot sequences of T = length/vocab tokens)",
             f"hamming{tag}", "(vocab : Nat) (x1 x2 : List α) (alpha beta : α)", t, symh)

    # ---------------- GaussianSymmetrizedKLKernel (DistributionalInputKernel)
    modg = load_module(repo, "gpytorch/kernels/gaussian_symmetrized_kl_kernel.py")
    modd = load_module(repo, "gpytorch/kernels/distributional_input_kernel.py")
    init = modg["classes"]["GaussianSymmetrizedKLKernel"].get("__init__")
    dfn = None
    for st in (init.body if init else []):
        if isinstance(st, ast.Assign) and isinstance(st.targets[0], ast.Name) and st.targets[0].id == "distance_function" \
                and isinstance(st.value, ast.Name):
            dfn = st.value.id
    if dfn not in modg["fns"]:
        raise TranslateError("GaussianSymmetrizedKLKernel.__init__ no longer binds distance_function to a module function")
    modd["fns"].update(modg["fns"])
    H = Poly.of("h")
    attrs = {"distance_function": Closure(modg["fns"][dfn], AExec({}, {}, modg)),
             "lengthscale": param("lengthscale", [1, 1], None)}
    for tag, diag in (("", False), ("Diag", True)):
        t = run_method(modd, "DistributionalInputKernel", "forward", attrs, {"diag": diag, "x1_eq_x2": diag}, 2 * H)
        emit(f"`GaussianSymmetrizedKLKernel` = `DistributionalInputKernel.forward` with `{dfn}`, diag={diag}; rows are "
             "[means ++ log-variances], h = length / 2", f"gskl{tag}", "(x1 x2 : List α) (lengthscale : α)", t,
             {"h": "(x1.length / 2)"})

    # ---------------- ArcKernel
    mod = load_module(repo, "gpytorch/kernels/arc_kernel.py")
    base = {"lengthscale": param("lengthscale", [1, D], 1), "angle": param("angle", [1, D], 1),
            "radius": param("radius", [1, D], 1), "base_kernel": Callback("base")}
    cls = mod["classes"]["ArcKernel"]
    for tag, diag in (("", False), ("Diag", True)):
        t = run_method(mod, "ArcKernel", "forward", dict(base, delta_func=Bound(cls["default_delta_func"], SelfObj({}, {}))),
                       {"diag": diag}, D)
        emit(f"`ArcKernel.forward` with the default `delta_func`, diag={diag}; `base` = the base kernel on embedded rows",
             f"arc{tag}", "(base : List α → List α → α) (x1 x2 lengthscale angle radius : List α)", t, SYM)
        t = run_method(mod, "ArcKernel", "forward", dict(base, delta_func=Marker("mask")), {"diag": diag}, D)
        emit(f"`ArcKernel.forward` with a custom `delta_func` (`mask1`/`mask2` = its value on the two rows), diag={diag}",
             f"arcMasked{tag}", "(base : List α → List α → α) (x1 x2 mask1 mask2 lengthscale angle radius : List α)", t, SYM)

    # ---------------- CylindricalKernel
    mod = load_module(repo, "gpytorch/kernels/cylindrical_kernel.py")
    P = Poly.of("P")
    attrs = {"eps": Sc(("var", "eps")), "alpha": param("alpha", [1], None), "beta": param("beta", [1], None),
             "angular_weights": param("angular_weights", [P], 0), "num_angular_weights": P, "batch_shape": (),
             "radial_base_kernel": Callback("radial")}
    for tag, diag in (("", False), ("Diag", True)):
        t = run_method(mod, "CylindricalKernel", "forward", attrs, {"diag": diag, "gt1": False}, D)
        emit(f"`CylindricalKernel.forward`, diag={diag}, all radii <= 1; `jit t eps` = the code's `t[t == 0] = t + eps`; "
             "the loop over the angular weights is `Scalar.loopFrom1` (iteration 0 executed, the rest symbolic)",
             f"cylindrical{tag}", "(radial : List α → List α → α) (jit : α → α → α) (x1 x2 angular_weights : List α) "
             "(alpha beta eps : α)", t, dict(SYM, P="angular_weights.length"))

    # ---------------- derivative kernels: the block assembly itself (matrix-level: entry (r, c) of the returned matrix)
    NSYM = {"n1": "n1", "n2": "n2", "d": "d"}
    modr = load_module(repo, "gpytorch/kernels/rbf_kernel_grad.py")
    modr["fns"].update(load_module(repo, "gpytorch/kernels/rbf_kernel.py")["fns"])
    attrs = {"lengthscale": param("lengthscale", [1, D], 1), "covar_dist": Callback("covar_dist", "dist")}
    cfg = {"diag": False, "x1_eq_x2": False, "n1_eq_n2": False, "matrix": True}
    x1, x2 = inputs(cfg, D)
    so = SelfObj(attrs, modr["classes"]["RBFKernelGrad"])
    fn = modr["classes"]["RBFKernelGrad"]["forward"]
    ret = AExec({}, cfg, modr).call_fn(fn, [], {"x1": x1, "x2": x2, "diag": False}, selfobj=so)
    N1, N2 = Poly.of("n1"), Poly.of("n2")
    want = [IX(N1 * (D + 1)), IX(N2 * (D + 1))]
    if not isinstance(ret, Ten) or ret.shape != want:
        raise TranslateError(f"RBFKernelGrad.forward returns shape {getattr(ret, 'shape', None)}, expected {want}")
    def split_shuffle(ret, name, doc):
        """emit `<name>Blocks … R C` (the matrix before the final permutation) and `<name>Matrix … r c` (the returned matrix)"""
        m = IX(D + 1)
        r, c = ("iv", "r"), ("iv", "c")
        full = ret.at([r, c])
        Sr = iadd(imul(imod(r, m), IX(N1)), idiv(r, m))
        Sc = iadd(imul(imod(c, m), IX(N2)), idiv(c, m))

        def sub(t):
            if t == Sr:
                return ("iv", "R")
            if t == Sc:
                return ("iv", "C")
            return t
        body = map_term(full, sub)
        free = set()
        map_term(body, lambda t: (free.add(t[1]) if t and t[0] == "iv" and t[1] in ("r", "c") else None) or t)
        sig = "(sqd distf : List α → List α → α) (n1 n2 d : Nat) (X1 X2 : List (List α)) (lengthscale : List α)"
        args = "sqd distf n1 n2 d X1 X2 lengthscale"
        if free:      # the final indexing is no longer the perfect shuffle: no split, the proof about `Blocks` will not apply
            out.append(f"/-- {doc}: entry (r, c) of the returned matrix -/\ndef {name}Matrix {sig} (r c : Nat) : α :=\n"
                       f"  {lsc(full, NSYM)}\n\n/-- (no split: the final indexing is not the perfect shuffle) -/\n"
                       f"def {name}Blocks {sig} (R C : Nat) : α :=\n  Scalar.lit 0\n\n")
            return
        out.append(f"/-- {doc}: entry (R, C) of the block matrix `K` BEFORE the final permutation -/\n"
                   f"def {name}Blocks {sig} (R C : Nat) : α :=\n  {lsc(body, NSYM)}\n\n"
                   f"/-- {doc}: entry (r, c) of the RETURNED matrix `K[..., pi1, :][..., :, pi2]` (`pi = arange(n(d+1)).view(d+1, n)"
                   f".t().reshape(n(d+1))`, executed) -/\ndef {name}Matrix {sig} (r c : Nat) : α :=\n"
                   f"  {name}Blocks {args} {lix(Sr, NSYM)} {lix(Sc, NSYM)}\n\n")

    split_shuffle(ret, "rbfGrad", "`RBFKernelGrad.forward` (full matrix, x1 is not x2; scaling, `outer`, the four blocks written "
                  "into `K` by slice assignment through views / transposes / repeats / a Kronecker product — all executed on index "
                  "functions; `X1`, `X2` = the inputs as lists of rows)")

    modm = load_module(repo, "gpytorch/kernels/matern52_kernel_grad.py")
    cfg = {"diag": False, "x1_eq_x2": False, "n1_eq_n2": False, "matrix": True}
    x1, x2 = inputs(cfg, D)
    so = SelfObj(attrs, modm["classes"]["Matern52KernelGrad"])
    fn = modm["classes"]["Matern52KernelGrad"]["forward"]
    ret = AExec({}, cfg, modm).call_fn(fn, [], {"x1": x1, "x2": x2, "diag": False}, selfobj=so)
    if not isinstance(ret, Ten) or ret.shape != want:
        raise TranslateError(f"Matern52KernelGrad.forward returns shape {getattr(ret, 'shape', None)}, expected {want}")
    split_shuffle(ret, "matern52Grad", "`Matern52KernelGrad.forward` (full matrix, x1 is not x2; `outer`, the four blocks written "
                  "into `K` by slice assignment through views / transposes / repeats / a Kronecker product and in-place `mul_` / "
                  "`sub_` — all executed on index functions)")

    # ---------------- MultitaskKernel: Kronecker layout of the full matrix and of the diag path (matrix-level)
    modt = load_module(repo, "gpytorch/kernels/multitask_kernel.py")
    TT = Poly.of("T")
    tsym = dict(NSYM, T="T")
    tsig = "(data : List α → List α → α) (n1 n2 d T : Nat) (X1 X2 : List (List α)) (KT : List (List α))"
    for tag, diag in (("Matrix", False), ("Diag", True)):
        cfg = {"diag": diag, "x1_eq_x2": diag, "matrix": True}
        x1, x2 = inputs(cfg, D)
        task = SelfObj({"covar_matrix": param("KT", [TT, TT], (0, 1))}, {})
        so = SelfObj({"task_covar_module": task, "data_covar_module": Callback("data"), "num_tasks": TT},
                     modt["classes"]["MultitaskKernel"])
        fn = modt["classes"]["MultitaskKernel"]["forward"]
        ret = AExec({}, cfg, modt).call_fn(fn, [], {"x1": x1, "x2": x2, "diag": diag}, selfobj=so)
        if isinstance(ret, Kron):
            ret = AExec({}, cfg, modt).method(ret, "to_dense", [], {}, 0)
        if isinstance(ret, DiagView):
            ret = ret.ten
        wantt = [IX(N1 * TT)] if diag else [IX(N1 * TT), IX(N2 * TT)]
        if not isinstance(ret, Ten) or ret.shape != wantt:
            raise TranslateError(f"MultitaskKernel.forward(diag={diag}) returns shape {getattr(ret, 'shape', None)}, expected {wantt}")
        idx = [("iv", "r")] if diag else [("iv", "r"), ("iv", "c")]
        out.append(f"/-- `MultitaskKernel.forward(diag={diag})`: entry {'r of the returned diagonal' if diag else '(r, c) of the returned matrix'} "
                   "(`data` = the data kernel on two rows, `KT` = the task covariance matrix; Kronecker product"
                   f"{' and its diagonal' if diag else ''} executed on index functions) -/\n"
                   f"def multitask{tag} {tsig} {'(r : Nat)' if diag else '(r c : Nat)'} : α :=\n  {lsc(ret.at(idx), tsym)}\n\n")

    out.append("end Gen.KernelAxes\n")
    return "".join(out)


def generate(repo, path):
    text = translate(repo)
    old = open(path).read() if os.path.exists(path) else None
    if old != text:
        with open(path, "w") as fh:
            fh.write(text)
    return old != text


if __name__ == "__main__":
    import sys
    print(translate(sys.argv[1] if len(sys.argv) > 1 else os.environ.get("VERIF_REPO", "/repo")))

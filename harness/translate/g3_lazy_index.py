"""G3 (lazy part) — Python-AST -> Lean translator for the index arithmetic of C06.

Reads from `$VERIF_REPO`:

* `gpytorch/lazy/lazy_evaluated_kernel_tensor.py`, `LazyEvaluatedKernelTensor._getitem`: the multi-output
  (`num_outputs_per_input != 1`) branch — how the row / column slices on the `(n·t)` axes are turned into
  slices of `x1` / `x2`, and the three conditions under which the code falls back to full evaluation
  (`self.evaluate_kernel()._getitem(...)`);
* `gpytorch/kernels/kernel.py`, `Kernel.__getitem__` and `Kernel.expand_batch`: whether the loop over
  `self.named_buffers(recurse=False)` also indexes / expands the (non-batched) `active_dims` buffer.

and writes `lean/GPVerif/Gen/LazyIndex.lean`.  Every integer expression is translated structurally
(`or` on optional ints, `x if x is not None else y`, `%`, `//`, `is not None`, `isinstance(·, slice)`);
anything outside this vocabulary, or a control-flow skeleton different from

    if <multi>:  if <nonslice>: return FALLBACK;  <2 tuple assigns>;  if <step>: return FALLBACK;
                 if <mod>: return FALLBACK;  row_index = slice(..);  col_index = slice(..)

raises `TranslateError` (a broken tie, never silently skipped).
"""
import ast
import os


class TranslateError(Exception):
    pass


def _fail(node, why):
    raise TranslateError(f"{why}: line {getattr(node, 'lineno', '?')}: {ast.unparse(node)[:200]}")


def _find_method(tree, cls, name):
    for n in tree.body:
        if isinstance(n, ast.ClassDef) and n.name == cls:
            for m in n.body:
                if isinstance(m, ast.FunctionDef) and m.name == name:
                    return m
    raise TranslateError(f"{cls}.{name} not found")


# ------------------------------------------------------------------ expressions

class Env:
    """Python names -> (Lean text, type) with type in {'int', 'opt', 'bool'}."""

    def __init__(self):
        self.v = {}

    def bind(self, py, lean, ty):
        self.v[py] = (lean, ty)


ATTR = {  # attribute / subscript leaves
    "row_index.start": ("rowSl.1", "opt"), "row_index.stop": ("rowSl.2.1", "opt"), "row_index.step": ("rowSl.2.2", "opt"),
    "col_index.start": ("colSl.1", "opt"), "col_index.stop": ("colSl.2.1", "opt"), "col_index.step": ("colSl.2.2", "opt"),
    "self.shape[-2]": ("nRows", "int"), "self.shape[-1]": ("nCols", "int"),
}


def tr_expr(node, env):
    """-> (lean text, type)."""
    src = ast.unparse(node)
    if src in ATTR:
        return ATTR[src]
    if isinstance(node, ast.Name):
        if node.id in env.v:
            return env.v[node.id]
        _fail(node, "unknown name")
    if isinstance(node, ast.Constant):
        if node.value is None:
            return ("(none : Option Int)", "opt")
        if isinstance(node.value, bool):
            return ("true" if node.value else "false", "bool")
        if isinstance(node.value, int):
            return (f"({node.value} : Int)", "int")
        _fail(node, "constant outside vocabulary")
    if isinstance(node, ast.UnaryOp) and isinstance(node.op, ast.USub) and isinstance(node.operand, ast.Constant) \
            and isinstance(node.operand.value, int):
        return (f"(-{node.operand.value} : Int)", "int")
    if isinstance(node, ast.UnaryOp) and isinstance(node.op, ast.Not):
        a, ta = tr_expr(node.operand, env)
        return (f"(!{as_bool(a, ta)})", "bool")
    if isinstance(node, ast.BoolOp) and isinstance(node.op, ast.Or):
        parts = [tr_expr(v, env) for v in node.values]
        # value-`or`:  <optional int> or <int>
        if len(parts) == 2 and parts[0][1] == "opt" and parts[1][1] == "int":
            return (f"(pyOr {parts[0][0]} {parts[1][0]})", "int")
        # truth-`or` (in a test)
        return ("(" + " || ".join(as_bool(a, t) for a, t in parts) + ")", "bool")
    if isinstance(node, ast.IfExp):
        # x if x is not None else y
        t = node.test
        if (isinstance(t, ast.Compare) and len(t.ops) == 1 and isinstance(t.ops[0], ast.IsNot)
                and isinstance(t.comparators[0], ast.Constant) and t.comparators[0].value is None
                and ast.unparse(t.left) == ast.unparse(node.body)):
            a, ta = tr_expr(node.body, env)
            b, tb = tr_expr(node.orelse, env)
            if ta == "opt" and tb == "int":
                return (f"(pyIfNotNone {a} {b})", "int")
        # x if x is None ... not used by the code
        _fail(node, "conditional expression outside vocabulary")
    if isinstance(node, ast.Compare) and len(node.ops) == 1:
        op, rhs = node.ops[0], node.comparators[0]
        if isinstance(op, (ast.IsNot, ast.Is)) and isinstance(rhs, ast.Constant) and rhs.value is None:
            a, ta = tr_expr(node.left, env)
            if ta != "opt":
                _fail(node, "`is None` on a non-optional")
            return (f"{a}.isSome" if isinstance(op, ast.IsNot) else f"{a}.isNone", "bool")
        if isinstance(op, (ast.NotEq, ast.Eq)):
            a, ta = tr_expr(node.left, env)
            b, tb = tr_expr(rhs, env)
            if ta == tb == "int":
                return (f"({a} != {b})" if isinstance(op, ast.NotEq) else f"({a} == {b})", "bool")
        _fail(node, "comparison outside vocabulary")
    if isinstance(node, ast.BinOp):
        a, ta = tr_expr(node.left, env)
        b, tb = tr_expr(node.right, env)
        if ta == tb == "int":
            if isinstance(node.op, ast.Mod):
                return (f"({a} % {b})", "int")      # Int.emod = Python % for a positive divisor (t ≥ 1)
            if isinstance(node.op, ast.FloorDiv):
                return (f"({a} / {b})", "int")      # Int.ediv = Python // for a positive divisor
            if isinstance(node.op, ast.Add):
                return (f"({a} + {b})", "int")
            if isinstance(node.op, ast.Sub):
                return (f"({a} - {b})", "int")
            if isinstance(node.op, ast.Mult):
                return (f"({a} * {b})", "int")
        _fail(node, "arithmetic outside vocabulary")
    if isinstance(node, ast.Call) and isinstance(node.func, ast.Name) and node.func.id == "isinstance" \
            and len(node.args) == 2 and ast.unparse(node.args[1]) == "slice":
        who = ast.unparse(node.args[0])
        if who == "row_index":
            return ("rowIsSlice", "bool")
        if who == "col_index":
            return ("colIsSlice", "bool")
    _fail(node, "expression outside vocabulary")


def as_bool(a, t):
    if t == "bool":
        return a
    if t == "int":
        return f"truthy {a}"
    if t == "opt":
        return f"truthyOpt {a}"
    raise TranslateError("bad type")


def is_fallback_return(stmt):
    return (isinstance(stmt, ast.Return)
            and ast.unparse(stmt.value) == "self.evaluate_kernel()._getitem(row_index, col_index, *batch_indices)")


def tuple_assign(stmt, names):
    if not (isinstance(stmt, ast.Assign) and len(stmt.targets) == 1 and isinstance(stmt.targets[0], ast.Tuple)
            and [ast.unparse(t) for t in stmt.targets[0].elts] == names and isinstance(stmt.value, ast.Tuple)
            and len(stmt.value.elts) == len(names)):
        _fail(stmt, f"expected `{', '.join(names)} = (…)`")
    return stmt.value.elts


def slice_assign(stmt, name):
    if not (isinstance(stmt, ast.Assign) and len(stmt.targets) == 1 and ast.unparse(stmt.targets[0]) == name
            and isinstance(stmt.value, ast.Call) and ast.unparse(stmt.value.func) == "slice" and len(stmt.value.args) == 3):
        _fail(stmt, f"expected `{name} = slice(a, b, c)`")
    return stmt.value.args


# ------------------------------------------------------------------ _getitem

def translate_getitem(tree):
    fn = _find_method(tree, "LazyEvaluatedKernelTensor", "_getitem")
    multi = None
    for st in fn.body:
        if isinstance(st, ast.If) and "num_outs_per_in_rows" in ast.unparse(st.test) and "!=" in ast.unparse(st.test):
            multi = st
    if multi is None:
        raise TranslateError("multi-output branch of _getitem not found")
    if multi.orelse:
        _fail(multi, "unexpected else branch")
    env = Env()
    env.bind("num_outs_per_in_rows", "tr", "int")
    env.bind("num_outs_per_in_cols", "tc", "int")
    out = {}
    out["multiBranch"] = tr_expr(multi.test, env)[0]
    body = [s for s in multi.body if not (isinstance(s, ast.Expr) and isinstance(s.value, ast.Constant))]
    if len(body) != 7:
        _fail(multi, f"multi-output branch has {len(body)} statements, expected 7")
    s_nonslice, s_rows, s_cols, s_step, s_mod, s_rowidx, s_colidx = body
    for s in (s_nonslice, s_step, s_mod):
        if not (isinstance(s, ast.If) and not s.orelse and len(s.body) == 1 and is_fallback_return(s.body[0])):
            _fail(s, "expected `if …: return self.evaluate_kernel()._getitem(row_index, col_index, *batch_indices)`")
    out["fallbackNonSlice"] = as_bool(*tr_expr(s_nonslice.test, env))
    r = tuple_assign(s_rows, ["row_start", "row_end", "row_step"])
    c = tuple_assign(s_cols, ["col_start", "col_end", "col_step"])
    tys = ["int", "int", "opt"]
    for nm, e, ty in zip(["rowStart", "rowEnd", "rowStep"], r, tys):
        a, t = tr_expr(e, env)
        if t != ty:
            _fail(e, f"{nm}: expected {ty}, got {t}")
        out[nm] = a
    for nm, e, ty in zip(["colStart", "colEnd", "colStep"], c, tys):
        a, t = tr_expr(e, env)
        if t != ty:
            _fail(e, f"{nm}: expected {ty}, got {t}")
        out[nm] = a
    for py, lean, ty in [("row_start", "rowStart", "int"), ("row_end", "rowEnd", "int"), ("row_step", "rowStep", "opt"),
                         ("col_start", "colStart", "int"), ("col_end", "colEnd", "int"), ("col_step", "colStep", "opt")]:
        env.bind(py, lean, ty)
    out["fallbackStep"] = as_bool(*tr_expr(s_step.test, env))
    out["fallbackMod"] = as_bool(*tr_expr(s_mod.test, env))
    ra = slice_assign(s_rowidx, "row_index")
    ca = slice_assign(s_colidx, "col_index")
    for nm, e in [("newRowStart", ra[0]), ("newRowStop", ra[1]), ("newColStart", ca[0]), ("newColStop", ca[1])]:
        a, t = tr_expr(e, env)
        if t != "int":
            _fail(e, f"{nm}: expected int")
        out[nm] = a
    for nm, e in [("newRowStep", ra[2]), ("newColStep", ca[2])]:
        if not (isinstance(e, ast.Constant) and e.value is None):
            _fail(e, f"{nm}: expected None")
    out["_src"] = {k: ast.unparse(v) for k, v in
                   [("multiBranch", multi.test), ("fallbackNonSlice", s_nonslice.test), ("rows", s_rows.value),
                    ("cols", s_cols.value), ("fallbackStep", s_step.test), ("fallbackMod", s_mod.test),
                    ("row_index", s_rowidx.value), ("col_index", s_colidx.value)]}
    return out


# ------------------------------------------------------------------ Kernel.__getitem__ / expand_batch buffers

def buffer_loop_touches_active_dims(fn):
    """False when there is no loop over named_buffers or when it starts with
    `if buffr_name == "active_dims": continue`; True when the loop has no such guard."""
    loops = [n for n in ast.walk(fn) if isinstance(n, ast.For) and "named_buffers" in ast.unparse(n.iter)]
    if not loops:
        return False
    if len(loops) > 1:
        _fail(fn, "more than one loop over named_buffers")
    lp = loops[0]
    if ast.unparse(lp.iter) != "self.named_buffers(recurse=False)" or not isinstance(lp.target, ast.Tuple):
        _fail(lp, "buffer loop outside vocabulary")
    name_var = ast.unparse(lp.target.elts[0])
    guards = [s for s in lp.body if isinstance(s, ast.If) and "active_dims" in ast.unparse(s.test)]
    mentions = "active_dims" in ast.unparse(lp)
    if not guards:
        if mentions:
            _fail(lp, "buffer loop mentions active_dims in an unknown way")
        return True
    g = lp.body[0]
    ok = (g is guards[0] and len(guards) == 1 and not g.orelse and len(g.body) == 1 and isinstance(g.body[0], ast.Continue)
          and ast.unparse(g.test) in (f"{name_var} == 'active_dims'", f"'active_dims' == {name_var}"))
    if not ok:
        _fail(guards[0], "active_dims guard outside vocabulary (expected first statement "
                         "`if <name> == \"active_dims\": continue`)")
    return False


def translate_kernel(tree):
    gi = _find_method(tree, "Kernel", "__getitem__")
    eb = _find_method(tree, "Kernel", "expand_batch")
    return {"getitemIndexesActiveDims": buffer_loop_touches_active_dims(gi),
            "expandBatchExpandsActiveDims": buffer_loop_touches_active_dims(eb)}


# ------------------------------------------------------------------ emit

HEADER = """/-
GENERATED by harness/translate/g3_lazy_index.py from
  gpytorch/lazy/lazy_evaluated_kernel_tensor.py (LazyEvaluatedKernelTensor._getitem, multi-output branch)
  gpytorch/kernels/kernel.py (Kernel.__getitem__, Kernel.expand_batch: buffer loops)
Do not edit: regenerated from $VERIF_REPO on every ./check C06.
-/
namespace Gen.LazyIndex

/-- Python `a or b` for an optional int `a`: `b` when `a` is `None` **or 0**. -/
def pyOr (a : Option Int) (b : Int) : Int :=
  match a with
  | none => b
  | some v => if v = 0 then b else v

/-- `a if a is not None else b` -/
def pyIfNotNone (a : Option Int) (b : Int) : Int := a.getD b

def truthy (v : Int) : Bool := v != 0
def truthyOpt (v : Option Int) : Bool := match v with | none => false | some v => v != 0

/-- a Python slice object: (start, stop, step) -/
abbrev Sl := Option Int × Option Int × Option Int
"""


def emit(g, k):
    s = g["_src"]
    L = [HEADER]

    def d(name, args, ty, body, src):
        L.append(f"/-- `{src}` -/")
        L.append(f"def {name} {args} : {ty} := {body}\n")
    d("multiBranch", "(tr tc : Int)", "Bool", g["multiBranch"], s["multiBranch"])
    d("fallbackNonSlice", "(rowIsSlice colIsSlice : Bool)", "Bool", g["fallbackNonSlice"], s["fallbackNonSlice"])
    L.append(f"-- row_start, row_end, row_step = {s['rows']}")
    d("rowStart", "(rowSl : Sl) (nRows : Int)", "Int", g["rowStart"], "row_start")
    d("rowEnd", "(rowSl : Sl) (nRows : Int)", "Int", g["rowEnd"], "row_end")
    d("rowStep", "(rowSl : Sl)", "Option Int", g["rowStep"], "row_step")
    L.append(f"-- col_start, col_end, col_step = {s['cols']}")
    d("colStart", "(colSl : Sl) (nCols : Int)", "Int", g["colStart"], "col_start")
    d("colEnd", "(colSl : Sl) (nCols : Int)", "Int", g["colEnd"], "col_end")
    d("colStep", "(colSl : Sl)", "Option Int", g["colStep"], "col_step")
    d("fallbackStep", "(rowStep colStep : Option Int)", "Bool", g["fallbackStep"], s["fallbackStep"])
    d("fallbackMod", "(rowStart colStart rowEnd colEnd tr tc : Int)", "Bool", g["fallbackMod"], s["fallbackMod"])
    L.append(f"-- row_index = {s['row_index']}")
    d("newRowStart", "(rowStart tr : Int)", "Int", g["newRowStart"], "row_index.start")
    d("newRowStop", "(rowEnd tr : Int)", "Int", g["newRowStop"], "row_index.stop")
    L.append(f"-- col_index = {s['col_index']}")
    d("newColStart", "(colStart tc : Int)", "Int", g["newColStart"], "col_index.start")
    d("newColStop", "(colEnd tc : Int)", "Int", g["newColStop"], "col_index.stop")
    L.append("""/-- The multi-output branch as a whole (the control-flow skeleton is checked by the translator):
`none` = fall back to `evaluate_kernel()._getitem`, `some ((a, b), (c, d))` = continue with
`row_index = slice(a, b, None)`, `col_index = slice(c, d, None)` applied to the points of `x1` / `x2`. -/
def divide (rowSl colSl : Sl) (rowIsSlice colIsSlice : Bool) (nRows nCols tr tc : Int) :
    Option ((Int × Int) × (Int × Int)) :=
  if fallbackNonSlice rowIsSlice colIsSlice then none else
  let rs := rowStart rowSl nRows
  let re := rowEnd rowSl nRows
  let cs := colStart colSl nCols
  let ce := colEnd colSl nCols
  if fallbackStep (rowStep rowSl) (colStep colSl) then none else
  if fallbackMod rs cs re ce tr tc then none else
  some ((newRowStart rs tr, newRowStop re tr), (newColStart cs tc, newColStop ce tc))
""")
    L.append("/-- does the buffer loop of `Kernel.__getitem__` index the `active_dims` buffer? -/")
    L.append(f"def getitemIndexesActiveDims : Bool := {'true' if k['getitemIndexesActiveDims'] else 'false'}\n")
    L.append("/-- does the buffer loop of `Kernel.expand_batch` expand the `active_dims` buffer? -/")
    L.append(f"def expandBatchExpandsActiveDims : Bool := {'true' if k['expandBatchExpandsActiveDims'] else 'false'}\n")
    L.append("end Gen.LazyIndex")
    return "\n".join(L) + "\n"


def _write(path, text):
    old = open(path).read() if os.path.exists(path) else None
    if old == text:
        return False
    with open(path, "w") as fh:
        fh.write(text)
    return True


def generate(repo, out_path):
    t1 = ast.parse(open(os.path.join(repo, "gpytorch/lazy/lazy_evaluated_kernel_tensor.py")).read())
    t2 = ast.parse(open(os.path.join(repo, "gpytorch/kernels/kernel.py")).read())
    g = translate_getitem(t1)
    k = translate_kernel(t2)
    changed = _write(out_path, emit(g, k))
    return g, k, changed


if __name__ == "__main__":
    import sys
    repo = sys.argv[1] if len(sys.argv) > 1 else "/repo"
    out = sys.argv[2] if len(sys.argv) > 2 else os.path.join(os.path.dirname(__file__), "../../lean/GPVerif/Gen/LazyIndex.lean")
    g, k, changed = generate(repo, os.path.abspath(out))
    print({kk: v for kk, v in g.items() if kk != "_src"}, k, "changed=", changed)

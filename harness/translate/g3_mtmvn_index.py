"""G3 (C11 part): Python-AST -> Lean translator for the index arithmetic of
`gpytorch/distributions/multitask_multivariate_normal.py`.

Emits `lean/GPVerif/Gen/MTIndex.lean` with

* the module-level helpers called by `__getitem__` (`_normalize_index`, `_normalize_slice`, ... ) as Lean
  functions over `Int` / `PySlice` / `NSlice` / `TVal`,
* the layout assignment (`row_idx, col_idx, num_rows, num_cols` as functions of `self._interleaved`),
* one definition per dispatch branch of `__getitem__` (the integer expression of the flat covariance
  positions it selects) and the dispatch itself,
* the `arange` index grids of `to_data_independent_dist`,
* the view / transpose / reshape chains of `mean`, `variance`, `rsample`, `get_base_samples`, `log_prob`, `__init__`
  as index maps between the n x t matrix and the stored flat vector,
* which block operator / layout flag each of the three constructors uses.

Vocabulary (anything else raises `TranslateError` = broken tie):
  integer expressions  + - * unary-, int constants, names, `.start/.stop/.step` of normalised slices,
                       `min`/`max`, conditional expressions, comparisons, `x is None`, `isinstance(x, int|slice)`,
                       `and`/`or`/`not`, chained `a == b == slice(None, None, None)`
  statements           assignment, tuple assignment from `s.indices(d)` / `torch.meshgrid(a, b, indexing="ij")`,
                       `if/elif/else` (merged as conditional expressions, or a `match` on `is None`), `return`, `raise`
  tensor idioms        `torch.arange(d)[s]`, `torch.as_tensor(x)`, `torch.where(c, a, b)`, elementwise arithmetic
                       of <= 2 tensors with ints, `meshgrid(ij)` + elementwise expression + `.reshape(-1)`,
                       `if x.dtype == torch.bool [or x.dim() > 1]: raise` (guard, no integer content)
  covariance selection `self.lazy_covariance_matrix[batch_idx]`, `[batch_idx + (s, s)]`, `[batch_idx + (i,)][..., i]`,
                       `DiagLinearOperator(self.lazy_covariance_matrix.diagonal()[batch_idx + (e,)])`
  view sites           `x.view(shape)`, `.transpose(-1, -2)`, `.contiguous()`, `.reshape(*x.shape[:-2], -1)`, shapes built from
                       `self._output_shape`, `x.shape`, `[:-2]`, `[:-3:-1]`, `+`, under `if [not] self._interleaved:`
  index tuple          (the preamble of `__getitem__` and its top-level dispatch, translated into `getitemIdx` / `getitemFull`)
                       `if not isinstance(idx, tuple): idx = (idx,)`, `... in x`, `x.index(...)`, `len(x)`, `self.mean.dim()`,
                       tuple slices `x[a:]` / `x[:b]`, `x + y`, `(slice(None),) * k`, tuple displays of `slice(None)` / `...`,
                       `x[-1]` / `x[-2]`, `raise` (= no result), `if/elif/else` re-assigning existing names,
                       `new_mean = self.mean[idx]` (the point from which the tuple holds no `Ellipsis`)
  constructors         `from_batch_mvn`: int assignments / conditional expressions / `if …: raise` over `task_dim`,
                       `len(batch_mvn.batch_shape)`, `batch_mvn.mean.dim()`; `batch_mvn.mean.permute(*range(a, b), …, e)`;
                       `Block*LinearOperator(batch_mvn.lazy_covariance_matrix, block_dim=e)`
                       `from_independent_mvns`: `torch.stack([mvn.mean for mvn in mvns], d)`,
                       `CatLinearOperator(*[mvn.lazy_covariance_matrix.unsqueeze(u) for mvn in mvns], dim=c, output_device=…)`,
                       `Block*LinearOperator(covar_blocks_lazy, block_dim=b)`
                       `from_repeated_mvn`: `cls.from_batch_mvn(mvn.expand(torch.Size([…]) + mvn.batch_shape), task_dim=k)`
                       `to_data_independent_dist`: `full_covar[..., data_indices + task_indices.unsqueeze(d1), data_indices + task_indices.unsqueeze(d2)]`
                       `rsample`: `base_samples.view(*sample_shape, *self.loc.shape)`
  results              `MultivariateNormal(mean=new_mean, covariance_matrix=new_cov)`,
                       `MultitaskMultivariateNormal(mean=new_mean, covariance_matrix=new_cov, interleaved=..., validate_args=False)`
"""
import ast
import os

REL = "gpytorch/distributions/multitask_multivariate_normal.py"


class TranslateError(Exception):
    pass


def bad(node, why):
    src = ast.unparse(node) if isinstance(node, ast.AST) else str(node)
    raise TranslateError(f"{REL}:{getattr(node, 'lineno', '?')}: outside the G3 vocabulary ({why}): {src[:160]}")


LEAN_RESERVED = {"prefix", "suffix", "infix", "infixl", "infixr", "postfix", "notation", "end", "open", "from", "at", "do",
                 "then", "else", "fun", "let", "have", "show", "match", "with", "in", "if", "def", "theorem", "namespace",
                 "section", "variable", "universe", "instance", "class", "structure", "where", "deriving", "import", "local",
                 "macro", "syntax", "by", "Type", "Prop", "Sort", "mutual", "private", "protected", "export", "using"}


def lean_ident(name):
    """a Python local name as a Lean identifier"""
    return name + "_" if name in LEAN_RESERVED else name


def camel(name):
    parts = [p for p in name.strip("_").split("_") if p]
    return parts[0] + "".join(p.capitalize() for p in parts[1:])


# ----------------------------------------------------------------------------------------------- terms
# A value is (lean_text, type).  Types: Int OptInt Bool PySlice NSlice Idx TVal Vec OptPos Opaque
# Partial computations are threaded through Option.bind by `Block` (list of pending binders).

class Block:
    """Straight-line prefix `let`/`bind` lines followed by a final term."""

    def __init__(self):
        self.lines = []      # ("let", name, text) | ("bind", name, text)
        self.counter = {}

    def fresh(self, base):
        k = self.counter.get(base, 0)
        self.counter[base] = k + 1
        return base if k == 0 else f"{base}_{k}"

    def let(self, base, text):
        self.lines.append(("let", base, text))
        return base

    def bind(self, base, text):
        self.lines.append(("bind", base, text))
        return base

    def render(self, final, ind):
        pad = " " * ind
        out = []
        for kind, name, text in self.lines:
            if kind == "let":
                out.append(f"{pad}let {name} := {text};")
            else:
                out.append(f"{pad}Option.bind ({text}) fun {name} =>")
        out.append(indent_term(final, ind))
        return "\n".join(out)


def indent_term(text, ind):
    pad = " " * ind
    return "\n".join(pad + l if l else l for l in text.split("\n"))


class Fn:
    """A translated module-level helper."""

    def __init__(self, pyname, lean_name, params, ret_type, body, partial):
        self.pyname, self.lean_name, self.params, self.ret_type, self.body, self.partial = \
            pyname, lean_name, params, ret_type, body, partial

    def emit(self):
        lt = {"Int": "Int", "PySlice": "PySlice", "NSlice": "NSlice", "Idx": "Idx", "TVal": "TVal", "Vec": "List Int"}
        ps = " ".join(f"({n} : {lt[t]})" for n, t in self.params)
        rt = lt[self.ret_type]
        if self.partial:
            rt = f"Option {rt}" if " " not in rt else f"Option ({rt})"
        return f"/-- `{self.pyname}` -/\ndef {self.lean_name} {ps} : {rt} :=\n{self.body}\n"


class Translator:
    def __init__(self, repo):
        self.path = os.path.join(repo, REL)
        self.tree = ast.parse(open(self.path).read())
        self.funcs = {n.name: n for n in self.tree.body if isinstance(n, ast.FunctionDef)}
        cls = [n for n in self.tree.body if isinstance(n, ast.ClassDef) and n.name == "MultitaskMultivariateNormal"]
        if len(cls) != 1:
            raise TranslateError("class MultitaskMultivariateNormal not found")
        self.methods = {n.name: n for n in cls[0].body if isinstance(n, ast.FunctionDef)}
        self.helpers = {}     # (pyname, argtypes) -> Fn
        self.helper_order = []
        self.branches = []    # dict(name, test, pats, body)
        self.notes = {}

    # ------------------------------------------------------------------ integer / boolean expressions
    def iexpr(self, node, env):
        """Integer-valued expression -> lean text.  env: name -> (text, type)."""
        if isinstance(node, ast.Constant) and isinstance(node.value, int) and not isinstance(node.value, bool):
            return str(node.value) if node.value >= 0 else f"({node.value})"
        if isinstance(node, ast.Name):
            if node.id not in env:
                bad(node, "unknown name")
            text, ty = env[node.id]
            if ty != "Int":
                bad(node, f"expected an int, `{node.id}` has type {ty}")
            return text
        if isinstance(node, ast.Attribute) and isinstance(node.value, ast.Name) and node.attr in ("start", "stop", "step"):
            if node.value.id not in env:
                bad(node, "unknown name")
            text, ty = env[node.value.id]
            if ty != "NSlice":
                bad(node, f"`.{node.attr}` of a value of type {ty} used as int")
            return f"{text}.{node.attr}"
        if isinstance(node, ast.BinOp) and isinstance(node.op, (ast.Add, ast.Sub, ast.Mult)):
            op = {ast.Add: "+", ast.Sub: "-", ast.Mult: "*"}[type(node.op)]
            return f"({self.iexpr(node.left, env)} {op} {self.iexpr(node.right, env)})"
        if isinstance(node, ast.UnaryOp) and isinstance(node.op, ast.USub):
            return f"(-{self.iexpr(node.operand, env)})"
        if isinstance(node, ast.Call) and isinstance(node.func, ast.Name) and node.func.id in ("min", "max") \
                and len(node.args) == 2 and not node.keywords:
            return f"({node.func.id} {self.iexpr(node.args[0], env)} {self.iexpr(node.args[1], env)})"
        if isinstance(node, ast.IfExp):
            return f"(if {self.bexpr(node.test, env)} then {self.iexpr(node.body, env)} else {self.iexpr(node.orelse, env)})"
        if isinstance(node, ast.Call) and isinstance(node.func, ast.Name) and node.func.id in self.funcs:
            text, ty, partial = self.call_helper(node, env)
            if ty != "Int" or partial:
                bad(node, "helper does not return a plain int")
            return text
        bad(node, "integer expression")

    CMP = {ast.Lt: "<", ast.LtE: "≤", ast.Gt: ">", ast.GtE: "≥", ast.Eq: "=", ast.NotEq: "≠"}

    def bexpr(self, node, env):
        """Condition over ints / Idx -> lean Prop/Bool text (decidable)."""
        if isinstance(node, ast.BoolOp):
            op = " ∧ " if isinstance(node.op, ast.And) else " ∨ "
            return "(" + op.join(self.bexpr(v, env) for v in node.values) + ")"
        if isinstance(node, ast.UnaryOp) and isinstance(node.op, ast.Not):
            return f"(¬ {self.bexpr(node.operand, env)})"
        if isinstance(node, ast.Call) and isinstance(node.func, ast.Name) and node.func.id == "isinstance" \
                and len(node.args) == 2 and isinstance(node.args[0], ast.Name) and isinstance(node.args[1], ast.Name):
            v, cls = node.args[0].id, node.args[1].id
            if v not in env or env[v][1] != "Idx" or cls not in ("int", "slice"):
                bad(node, "isinstance on something that is not a dynamic index / unknown class")
            return f"{env[v][0]}.{'isInt' if cls == 'int' else 'isSlice'} = true"
        if isinstance(node, ast.Compare):
            # chained equality with the full slice
            if all(isinstance(o, ast.Eq) for o in node.ops) and _is_full_slice(node.comparators[-1]):
                names = [node.left] + node.comparators[:-1]
                parts = []
                for nm in names:
                    if not (isinstance(nm, ast.Name) and nm.id in env and env[nm.id][1] == "Idx"):
                        bad(node, "comparison with slice(None, None, None) of a non-index value")
                    parts.append(f"{env[nm.id][0]}.isFull = true")
                return "(" + " ∧ ".join(parts) + ")"
            if len(node.ops) == 1 and type(node.ops[0]) in self.CMP:
                return f"({self.iexpr(node.left, env)} {self.CMP[type(node.ops[0])]} {self.iexpr(node.comparators[0], env)})"
        bad(node, "condition")

    # ------------------------------------------------------------------ elementwise tensor expressions
    def elementwise(self, node, env, tvars):
        """Expression over ints and the tensor variables `tvars` (each stands for one entry) -> lean Int text."""
        if isinstance(node, ast.Name) and node.id in tvars:
            return node.id
        if isinstance(node, ast.Name) or isinstance(node, ast.Constant):
            return self.iexpr(node, env)
        if isinstance(node, ast.BinOp) and isinstance(node.op, (ast.Add, ast.Sub, ast.Mult)):
            op = {ast.Add: "+", ast.Sub: "-", ast.Mult: "*"}[type(node.op)]
            return f"({self.elementwise(node.left, env, tvars)} {op} {self.elementwise(node.right, env, tvars)})"
        if isinstance(node, ast.UnaryOp) and isinstance(node.op, ast.USub):
            return f"(-{self.elementwise(node.operand, env, tvars)})"
        if _is_call(node, "torch.where") and len(node.args) == 3 and not node.keywords:
            c, a, b = node.args
            if not (isinstance(c, ast.Compare) and len(c.ops) == 1 and type(c.ops[0]) in self.CMP):
                bad(node, "torch.where condition")
            cond = f"{self.elementwise(c.left, env, tvars)} {self.CMP[type(c.ops[0])]} {self.elementwise(c.comparators[0], env, tvars)}"
            return f"(if {cond} then {self.elementwise(a, env, tvars)} else {self.elementwise(b, env, tvars)})"
        bad(node, "elementwise tensor expression")

    def tensor_names(self, node, env):
        out = []

        def visit(n):
            if isinstance(n, ast.Name) and n.id in env and env[n.id][1] in ("TVal", "Idx", "Vec", "Grid0", "Grid1") \
                    and n.id not in out:
                out.append(n.id)
            for c in ast.iter_child_nodes(n):
                visit(c)
        visit(node)
        return out

    def as_tval(self, name, env, blk):
        """Make sure env[name] is a TVal (python int / tensor operands of tensor arithmetic)."""
        text, ty = env[name]
        if ty == "TVal":
            return text
        if ty == "Vec":
            return f"(TVal.vec {text})"
        if ty == "Idx":
            v = blk.bind(name, f"{text}.toTVal?")
            env[name] = (v, "TVal")
            return v
        bad(name, f"cannot use a value of type {ty} as tensor")

    def tensor_assign(self, node, env, blk):
        """RHS that produces a tensor -> (text, type)."""
        # torch.arange(d)[s]
        if isinstance(node, ast.Subscript) and _is_call(node.value, "torch.arange") and len(node.value.args) == 1 \
                and not node.value.keywords and isinstance(node.slice, ast.Name):
            s = node.slice.id
            if s not in env or env[s][1] != "PySlice":
                bad(node, "torch.arange(d)[x] where x is not known to be a slice")
            return f"(TVal.vec (arangeSlice {self.iexpr(node.value.args[0], env)} {env[s][0]}))", "TVal"
        # torch.as_tensor(x)
        if _is_call(node, "torch.as_tensor") and len(node.args) == 1 and not node.keywords and isinstance(node.args[0], ast.Name):
            x = node.args[0].id
            if x not in env:
                bad(node, "unknown name")
            if env[x][1] == "Idx":
                v = blk.bind(x, f"{env[x][0]}.toTVal?")
                return v, "TVal"
            if env[x][1] == "TVal":
                return env[x][0], "TVal"
            bad(node, "torch.as_tensor of a non-index value")
        # (elementwise expression of the meshgrid outputs).reshape(-1)
        if isinstance(node, ast.Call) and isinstance(node.func, ast.Attribute) and node.func.attr == "reshape" \
                and len(node.args) == 1 and ast.unparse(node.args[0]) == "-1" and not node.keywords:
            inner = node.func.value
            names = self.tensor_names(inner, env)
            g0 = [n for n in names if env[n][1] == "Grid0"]
            g1 = [n for n in names if env[n][1] == "Grid1"]
            if len(names) != 2 or len(g0) != 1 or len(g1) != 1:
                bad(node, "reshape(-1) of something that is not an expression of the two meshgrid outputs")
            (a, _), (b, _) = env[g0[0]], env[g1[0]]
            body = self.elementwise(inner, env, [g0[0], g1[0]])
            return f"(meshFlat (fun {g0[0]} {g1[0]} => {body}) {a} {b})", "Vec"
        # call of a helper returning a tensor
        if isinstance(node, ast.Call) and isinstance(node.func, ast.Name) and node.func.id in self.funcs:
            text, ty, partial = self.call_helper(node, env)
            if partial:
                text = blk.bind(blk.fresh("v"), text)
            return text, ty
        # elementwise arithmetic of <= 2 tensors
        names = self.tensor_names(node, env)
        if 1 <= len(names) <= 2 and all(env[n][1] in ("TVal", "Idx", "Vec") for n in names):
            tv = [self.as_tval(n, env, blk) for n in names]
            body = self.elementwise(node, env, names)
            if len(names) == 1:
                return f"(TVal.map (fun {names[0]} => {body}) {tv[0]})", "TVal"
            v = blk.bind(blk.fresh("w"), f"TVal.zip (fun {names[0]} {names[1]} => {body}) {tv[0]} {tv[1]}")
            return v, "TVal"
        bad(node, "tensor expression")

    # ------------------------------------------------------------------ helpers (module-level functions)
    def call_helper(self, node, env):
        fn = self.funcs[node.func.id]
        if node.keywords or len(node.args) != len(fn.args.args):
            bad(node, "helper call with keywords / wrong arity")
        args, types = [], []
        for a in node.args:
            if isinstance(a, ast.Name) and a.id in env and env[a.id][1] in ("PySlice", "Idx", "TVal", "NSlice", "Vec"):
                args.append(env[a.id][0])
                types.append(env[a.id][1])
            else:
                args.append(self.iexpr(a, env))
                types.append("Int")
        key = (fn.name, tuple(types))
        if key not in self.helpers:
            self.helpers[key] = self.translate_helper(fn, types)
            self.helper_order.append(key)
        h = self.helpers[key]
        return f"({h.lean_name} {' '.join(args)})", h.ret_type, h.partial

    def translate_helper(self, fn, types):
        if fn.args.vararg or fn.args.kwarg or fn.args.kwonlyargs or fn.args.defaults:
            bad(fn, "helper signature")
        params = [(a.arg, t) for a, t in zip(fn.args.args, types)]
        env = {n: (n, t) for n, t in params}
        lean_name = camel(fn.name)
        if any(h.pyname == fn.name for h in self.helpers.values()):
            lean_name += "_" + "_".join(types)
        st = {"partial": False}
        term, rty = self.fn_block(fn.body, env, st)
        return Fn(fn.name, lean_name, params, rty, indent_term(term, 2), st["partial"])

    def fn_block(self, stmts, env, st):
        """Translate a statement list that must end in `return` on every path -> (term text, return type)."""
        blk = Block()
        env = dict(env)
        for k, s in enumerate(stmts):
            if isinstance(s, ast.Expr) and isinstance(s.value, ast.Constant) and isinstance(s.value.value, str):
                continue
            if isinstance(s, ast.Return):
                text, ty = self.value(s.value, env, blk)
                if blk.lines and any(kind == "bind" for kind, _, _ in blk.lines):
                    st["partial"] = True
                    text = f"some {text}"
                st.setdefault("rty", ty)
                if st["rty"] != ty:
                    bad(s, "return types differ between paths")
                return blk.render(text, 0), ty
            if isinstance(s, ast.If):
                if _is_bool_guard(s):
                    st["bool_guard"] = True
                    continue
                if _returns(s.body) or _returns(s.orelse):
                    # continuation-passing: the rest of the block follows whichever branch does not return
                    rest = stmts[k + 1:]
                    a, ta = self.fn_block(s.body + ([] if _returns(s.body) else rest), env, st)
                    b, tb = self.fn_block((s.orelse if s.orelse else []) + ([] if _returns(s.orelse) else rest), env, st)
                    if ta != tb:
                        bad(s, "return types differ between branches")
                    cond = self.bexpr(s.test, env)
                    return blk.render(f"if {cond} then\n{indent_term(a, 2)}\nelse\n{indent_term(b, 2)}", 0), ta
                self.merge_if(s, env, blk)
                continue
            if isinstance(s, ast.Assign):
                self.assign(s, env, blk)
                continue
            bad(s, "statement in helper")
        bad(stmts[-1] if stmts else "<empty>", "helper path without return")

    # ------------------------------------------------------------------ generic values / assignment
    def value(self, node, env, blk):
        """Any supported RHS -> (text, type)."""
        if isinstance(node, ast.Name) and node.id in env and env[node.id][1] != "Int":
            return env[node.id]
        if isinstance(node, ast.Attribute) and isinstance(node.value, ast.Name) and node.value.id in env \
                and env[node.value.id][1] == "PySlice" and node.attr in ("start", "stop", "step"):
            return f"{env[node.value.id][0]}.{node.attr}", "OptInt"
        if _is_call(node, "slice") and len(node.args) == 3 and not node.keywords:
            a, b, c = (self.iexpr(x, env) for x in node.args)
            return f"(NSlice.mk {a} {b} {c})", "NSlice"
        if isinstance(node, ast.Call) and isinstance(node.func, ast.Name) and node.func.id in self.funcs:
            text, ty, partial = self.call_helper(node, env)
            if partial:
                text = blk.bind(blk.fresh("v"), text)
            return text, ty
        try:
            return self.iexpr(node, env), "Int"
        except TranslateError:
            pass
        return self.tensor_assign(node, env, blk)

    def assign(self, s, env, blk):
        if len(s.targets) != 1:
            bad(s, "multiple assignment targets")
        tgt = s.targets[0]
        if isinstance(tgt, ast.Tuple):
            names = [e.id if isinstance(e, ast.Name) else bad(s, "tuple target") for e in tgt.elts]
            # start, stop, step = s.indices(d)
            v = s.value
            if isinstance(v, ast.Call) and isinstance(v.func, ast.Attribute) and v.func.attr == "indices" \
                    and isinstance(v.func.value, ast.Name) and len(v.args) == 1 and not v.keywords and len(names) == 3:
                sl = v.func.value.id
                if sl not in env or env[sl][1] != "PySlice":
                    bad(s, ".indices of a non-slice")
                t = blk.let(blk.fresh("ind"), f"PySlice.indices {env[sl][0]} {self.iexpr(v.args[0], env)}")
                for nm, fld in zip(names, ("start", "stop", "step")):
                    env[nm] = (f"{t}.{fld}", "Int")
                return set(names)
            # row_grid, col_grid = torch.meshgrid(a, b, indexing="ij")
            if _is_call(v, "torch.meshgrid") and len(v.args) == 2 and len(names) == 2 \
                    and [(k.arg, ast.unparse(k.value)) for k in v.keywords] == [("indexing", "'ij'")] \
                    and all(isinstance(a, ast.Name) for a in v.args):
                for nm, a, gty in zip(names, v.args, ("Grid0", "Grid1")):
                    if a.id not in env:
                        bad(s, "unknown name")
                    env[nm] = (self.as_tval(a.id, env, blk), gty)
                return set(names)
            bad(s, "tuple assignment")
        if not isinstance(tgt, ast.Name):
            bad(s, "assignment target")
        text, ty = self.value(s.value, env, blk)
        if ty in ("Grid0", "Grid1"):
            bad(s, "alias of a meshgrid output")
        if ty == "OptInt":
            env[tgt.id] = (text, ty)   # no let: stays an expression until matched on
            return {tgt.id}
        nm = blk.let(tgt.id, text) if not text.isidentifier() or text != tgt.id else text
        env[tgt.id] = (nm, ty)
        return {tgt.id}

    def merge_if(self, s, env, blk):
        """`if` without return: every variable assigned in a branch becomes a conditional expression."""
        test = s.test
        # --- `x is None`
        if isinstance(test, ast.Compare) and len(test.ops) == 1 and isinstance(test.ops[0], ast.Is) \
                and isinstance(test.comparators[0], ast.Constant) and test.comparators[0].value is None \
                and isinstance(test.left, ast.Name):
            x = test.left.id
            if x not in env or env[x][1] != "OptInt":
                bad(s, "`is None` on a value that is not an optional int")
            env_none, env_some = dict(env), dict(env)
            env_none.pop(x)
            env_some[x] = (x, "Int")
            b1, b2 = Block(), Block()
            changed = sorted(self.straight(s.body, env_none, b1) | self.straight(s.orelse, env_some, b2) | {x})
            for k in changed:
                if k not in env_none or k not in env_some:
                    bad(s, f"`{k}` is not defined on both paths")
                (ta, tya), (tb, tyb) = env_none[k], env_some[k]
                if tya != tyb or tya != "Int":
                    bad(s, f"`{k}` has different / non-int types on the two paths")
                ta, tb = b1.render(ta, 0).replace("\n", " "), b2.render(tb, 0).replace("\n", " ")
                nm = blk.let(k, f"(match {env[x][0]} with | none => {ta} | some {x} => {tb})")
                env[k] = (nm, "Int")
            return set(changed)
        # --- isinstance(x, slice) on a dynamic index: refine inside the branch
        if _is_call(test, "isinstance") and isinstance(test.args[0], ast.Name) and isinstance(test.args[1], ast.Name) \
                and test.args[1].id == "slice" and test.args[0].id in env and env[test.args[0].id][1] == "Idx":
            x = test.args[0].id
            env_a, env_b = dict(env), dict(env)
            env_a[x] = ("s", "PySlice")
            env_b[x] = ("other", "Idx")
            b1, b2 = Block(), Block()
            changed = sorted(self.straight(s.body, env_a, b1) | self.straight(s.orelse, env_b, b2))
            if changed != [x]:
                bad(s, f"branches of `if isinstance({x}, slice)` assign {changed}, expected only `{x}`")
            (ta, tya), (tb, tyb) = env_a[x], env_b[x]
            if tya != "TVal":
                bad(s, "slice branch does not produce a tensor")
            if tyb == "Idx":      # untouched dynamic value used as a tensor later
                b2 = Block()
                tb = self.as_tval(x, env_b, b2)
                tyb = "TVal"
            if tyb != "TVal":
                bad(s, "non-slice branch does not produce a tensor")
            ra = b1.render(f"some {ta}", 6)
            rb = b2.render(f"some {tb}", 6)
            nm = blk.bind(x, f"match {env[x][0]} with\n    | .slice s =>\n{ra}\n    | other =>\n{rb}")
            env[x] = (nm, "TVal")
            return {x}
        # --- plain integer condition
        cond = self.bexpr(test, env)
        env_a, env_b = dict(env), dict(env)
        b1, b2 = Block(), Block()
        changed = sorted(self.straight(s.body, env_a, b1) | self.straight(s.orelse, env_b, b2))
        for k in changed:
            if k not in env_a or k not in env_b:
                bad(s, f"`{k}` is not defined on both paths")
            (ta, tya), (tb, tyb) = env_a[k], env_b[k]
            if tya != tyb or tya not in ("Int", "Idx"):
                bad(s, f"`{k}` has different / unsupported types on the two paths")
            ta, tb = b1.render(ta, 0).replace("\n", " "), b2.render(tb, 0).replace("\n", " ")
            nm = blk.let(k, f"(if {cond} then {ta} else {tb})")
            env[k] = (nm, tya)
        return set(changed)

    def straight(self, stmts, env, blk):
        """Execute assignments / nested ifs; returns the set of names assigned."""
        assigned = set()
        for s in stmts:
            if isinstance(s, ast.Assign):
                assigned |= self.assign(s, env, blk)
            elif isinstance(s, ast.If) and not _returns(s.body) and not _returns(s.orelse):
                if _is_bool_guard(s):
                    continue
                assigned |= self.merge_if(s, env, blk)
            elif isinstance(s, ast.Pass):
                pass
            else:
                bad(s, "statement inside a merged if")
        return assigned

    # ------------------------------------------------------------------ __getitem__
    SEL = "self.lazy_covariance_matrix"

    def covariance_selection(self, node, env, blk):
        """RHS of `new_cov = ...` -> lean text of type Option (List Int) (flat positions, rows == columns)."""
        u = ast.unparse(node)
        if u == f"{self.SEL}[batch_idx]":
            return "some (applyPySlice N PySlice.full)"
        # DiagLinearOperator(self.lazy_covariance_matrix.diagonal()[batch_idx + (e,)])
        if _is_call(node, "DiagLinearOperator") and len(node.args) == 1 and not node.keywords:
            inner = node.args[0]
            if isinstance(inner, ast.Subscript) and ast.unparse(inner.value) == f"{self.SEL}.diagonal()":
                e = _batch_plus_tuple(inner.slice, 1)
                if e is not None:
                    return f"indexInt N {self.iexpr(e[0], env)}"
        if isinstance(node, ast.Subscript) and ast.unparse(node.value) == self.SEL:
            e = _batch_plus_tuple(node.slice, 2)
            if e is not None and all(isinstance(x, ast.Name) for x in e):
                if e[0].id != e[1].id:
                    bad(node, "row and column selections differ")
                if e[0].id in env and env[e[0].id][1] == "NSlice":
                    return f"some (applySlice N {env[e[0].id][0]})"
        # self.lazy_covariance_matrix[batch_idx + (i,)][..., i]
        if isinstance(node, ast.Subscript) and isinstance(node.value, ast.Subscript) \
                and ast.unparse(node.value.value) == self.SEL:
            e = _batch_plus_tuple(node.value.slice, 1)
            s2 = node.slice
            if e is not None and isinstance(e[0], ast.Name) and isinstance(s2, ast.Tuple) and len(s2.elts) == 2 \
                    and isinstance(s2.elts[0], ast.Constant) and s2.elts[0].value is Ellipsis \
                    and isinstance(s2.elts[1], ast.Name) and s2.elts[1].id == e[0].id and e[0].id in env:
                text, ty = env[e[0].id]
                if ty == "Vec":
                    return f"indexTensor N {text}"
                if ty == "TVal":
                    return f"indexTensor N {text}.toList"
        bad(node, "covariance selection")

    def _batch_name(self, node, env):
        """a name holding a tuple of plain index components (batch_idx, idx) -> lean text"""
        if isinstance(node, ast.Name) and node.id in env and env[node.id][1] == "IdxList":
            return env[node.id][0]
        bad(node, "batch part of a covariance selection")

    def _batch_plus(self, node, k, env):
        """`B + (e1, ..., ek)` with B a tuple of plain components -> (lean text of B, [e1..ek]) or None"""
        if isinstance(node, ast.BinOp) and isinstance(node.op, ast.Add) and isinstance(node.right, ast.Tuple) \
                and len(node.right.elts) == k:
            return self._batch_name(node.left, env), node.right.elts
        return None

    def covariance_selection_sel(self, node, env, blk):
        """RHS of `new_cov = ...` (or the `covariance_matrix=` argument) -> lean text of type CovSel: the batch
        components as written plus the event selection."""
        # self.lazy_covariance_matrix[B]
        if isinstance(node, ast.Subscript) and ast.unparse(node.value) == self.SEL and isinstance(node.slice, ast.Name):
            return f"(CovSel.mk {self._batch_name(node.slice, env)} EvSel.full)"
        # DiagLinearOperator(self.lazy_covariance_matrix.diagonal()[B + (e,)])
        if _is_call(node, "DiagLinearOperator") and len(node.args) == 1 and not node.keywords:
            inner = node.args[0]
            if isinstance(inner, ast.Subscript) and ast.unparse(inner.value) == f"{self.SEL}.diagonal()":
                be = self._batch_plus(inner.slice, 1, env)
                if be is not None:
                    return f"(CovSel.mk {be[0]} (EvSel.diag {self.iexpr(be[1][0], env)}))"
        # self.lazy_covariance_matrix[B + (s, s)]
        if isinstance(node, ast.Subscript) and ast.unparse(node.value) == self.SEL:
            be = self._batch_plus(node.slice, 2, env)
            if be is not None and all(isinstance(x, ast.Name) for x in be[1]):
                a, b = be[1]
                if a.id != b.id:
                    bad(node, "row and column selections differ")
                if a.id in env and env[a.id][1] == "NSlice":
                    return f"(CovSel.mk {be[0]} (EvSel.slice2 {env[a.id][0]}))"
        # self.lazy_covariance_matrix[B + (i,)][..., i]
        if isinstance(node, ast.Subscript) and isinstance(node.value, ast.Subscript) \
                and ast.unparse(node.value.value) == self.SEL:
            be = self._batch_plus(node.value.slice, 1, env)
            s2 = node.slice
            if be is not None and isinstance(be[1][0], ast.Name) and isinstance(s2, ast.Tuple) and len(s2.elts) == 2 \
                    and isinstance(s2.elts[0], ast.Constant) and s2.elts[0].value is Ellipsis \
                    and isinstance(s2.elts[1], ast.Name) and s2.elts[1].id == be[1][0].id and be[1][0].id in env:
                text, ty = env[be[1][0].id]
                if ty == "Vec":
                    return f"(CovSel.mk {be[0]} (EvSel.tensor {text}))"
                if ty == "TVal":
                    return f"(CovSel.mk {be[0]} (EvSel.tensor {text}.toList))"
        bad(node, "covariance selection")

    def result(self, node, env):
        """`return Cls(mean=new_mean, covariance_matrix=new_cov, ...)` -> lean text of the OutKind."""
        if not (isinstance(node, ast.Call) and isinstance(node.func, ast.Name) and not node.args):
            bad(node, "return value")
        kw = {k.arg: k.value for k in node.keywords}
        if ast.unparse(kw.get("mean", ast.Constant(0))) != "new_mean" \
                or (ast.unparse(kw.get("covariance_matrix", ast.Constant(0))) != "new_cov" and "new_cov" in env):
            bad(node, "result not built from new_mean / new_cov")
        extra = set(kw) - {"mean", "covariance_matrix", "interleaved", "validate_args"}
        if extra:
            bad(node, f"unexpected keyword {sorted(extra)}")
        if node.func.id == "MultivariateNormal":
            if "interleaved" in kw:
                bad(node, "interleaved= on a MultivariateNormal")
            return "OutKind.mvn"
        if node.func.id == "MultitaskMultivariateNormal":
            if "interleaved" not in kw:
                return f"(OutKind.mt {self.init_default_interleaved()})"
            v = ast.unparse(kw["interleaved"])
            if v == "self._interleaved":
                return "(OutKind.mt inter)"
            if v in ("True", "False"):
                return f"(OutKind.mt {v.lower()})"
            bad(node, "interleaved= value")
        bad(node, "result class")

    def init_default_interleaved(self):
        init = self.methods["__init__"]
        names = [a.arg for a in init.args.args]
        if "interleaved" not in names:
            bad(init, "__init__ has no interleaved parameter")
        d = init.args.defaults[names.index("interleaved") - (len(names) - len(init.args.defaults))]
        if not (isinstance(d, ast.Constant) and isinstance(d.value, bool)):
            bad(init, "default of interleaved")
        return "true" if d.value else "false"

    BRANCH_NAMES = {
        "isinstance(row_idx, int) and isinstance(col_idx, int)": ("intInt", "int", "int"),
        "isinstance(row_idx, int) and isinstance(col_idx, slice)": ("intSlice", "int", "slice"),
        "isinstance(row_idx, slice) and isinstance(col_idx, int)": ("sliceInt", "slice", "int"),
        "isinstance(row_idx, slice) and isinstance(col_idx, slice) and (row_idx == col_idx == slice(None, None, None))":
            ("fullSlices", "slice", "slice"),
        "isinstance(row_idx, slice) or isinstance(col_idx, slice)": ("mesh", None, None),
        None: ("pairs", None, None),
    }

    # ------------------------------------------------------------------ the index tuple: preamble and top-level dispatch
    # names have type Expr (what the user wrote), Tup (List BIdx: may hold Ellipsis), IdxList (List Idx) or Int

    def ttuple(self, node, env):
        """tuple-valued expression -> (lean text, Tup | IdxList)"""
        if isinstance(node, ast.Name):
            if node.id in env and env[node.id][1] in ("Tup", "IdxList"):
                return env[node.id]
            bad(node, "not a tuple")
        if isinstance(node, ast.Tuple):
            elts = []
            for e in node.elts:
                if _is_call(e, "slice") and [ast.unparse(a) for a in e.args] in (["None"], ["None", "None", "None"]) and not e.keywords:
                    elts.append("BIdx.full")
                elif isinstance(e, ast.Constant) and e.value is Ellipsis:
                    elts.append("BIdx.ellipsis")
                else:
                    bad(e, "tuple display element")
            return "[" + ", ".join(elts) + "]", "Tup"
        if isinstance(node, ast.BinOp) and isinstance(node.op, ast.Add):
            (a, ta), (b, tb) = self.ttuple(node.left, env), self.ttuple(node.right, env)
            if ta != tb:
                bad(node, "concatenation of tuples of different kinds")
            return f"({a} ++ {b})", ta
        if isinstance(node, ast.BinOp) and isinstance(node.op, ast.Mult):
            a, ta = self.ttuple(node.left, env)
            return f"(pyRepeat {a} {self.tint(node.right, env)})", ta
        if isinstance(node, ast.Subscript) and isinstance(node.slice, ast.Slice) and node.slice.step is None:
            a, ta = self.ttuple(node.value, env)
            lo, hi = node.slice.lower, node.slice.upper
            if lo is not None and hi is None:
                return f"(pyDrop {a} {self.tint(lo, env)})", ta
            if lo is None and hi is not None:
                return f"(pyTake {a} {self.tint(hi, env)})", ta
        bad(node, "tuple expression")

    def tint(self, node, env):
        """integer expression over tuple lengths / the rank of the mean -> lean Int text"""
        if isinstance(node, ast.Constant) and isinstance(node.value, int) and not isinstance(node.value, bool):
            return str(node.value) if node.value >= 0 else f"({node.value})"
        if isinstance(node, ast.Name):
            if node.id in env and env[node.id][1] == "Int":
                return env[node.id][0]
            bad(node, "not an int")
        if _is_call(node, "len") and len(node.args) == 1 and not node.keywords:
            return f"(({self.ttuple(node.args[0], env)[0]}).length : Int)"
        if ast.unparse(node) in ("self.mean.dim()", "self.mean.ndimension()", "self.mean.ndim"):
            return "dim"
        if isinstance(node, ast.BinOp) and isinstance(node.op, (ast.Add, ast.Sub, ast.Mult)):
            op = {ast.Add: "+", ast.Sub: "-", ast.Mult: "*"}[type(node.op)]
            return f"({self.tint(node.left, env)} {op} {self.tint(node.right, env)})"
        if isinstance(node, ast.UnaryOp) and isinstance(node.op, ast.USub):
            return f"(-{self.tint(node.operand, env)})"
        bad(node, "integer expression over the index tuple")

    def tcond(self, node, env):
        if isinstance(node, ast.BoolOp):
            op = " ∧ " if isinstance(node.op, ast.And) else " ∨ "
            return "(" + op.join(self.tcond(v, env) for v in node.values) + ")"
        if isinstance(node, ast.UnaryOp) and isinstance(node.op, ast.Not):
            return f"(¬ {self.tcond(node.operand, env)})"
        if isinstance(node, ast.Compare) and len(node.ops) == 1:
            if isinstance(node.ops[0], ast.In) and isinstance(node.left, ast.Constant) and node.left.value is Ellipsis:
                a, ta = self.ttuple(node.comparators[0], env)
                if ta != "Tup":
                    bad(node, "`... in x` on a tuple that cannot hold an Ellipsis")
                return f"(BIdx.ellipsis ∈ {a})"
            if type(node.ops[0]) in self.CMP:
                return f"({self.tint(node.left, env)} {self.CMP[type(node.ops[0])]} {self.tint(node.comparators[0], env)})"
        bad(node, "condition over the index tuple")

    def _assigned(self, stmts):
        out = []
        for s in stmts:
            if isinstance(s, ast.Assign):
                for tg in s.targets:
                    if isinstance(tg, ast.Name) and tg.id not in out:
                        out.append(tg.id)
            elif isinstance(s, ast.If):
                for nm in self._assigned(s.body) + self._assigned(s.orelse):
                    if nm not in out:
                        out.append(nm)
        return out

    def tstmts(self, stmts, env, k):
        """statement list over the index tuple in continuation style -> lean text of an `Option`; `raise` = `none`,
        `k(env)` is the text that follows the list."""
        env = dict(env)
        lines = []
        for s in stmts:
            if isinstance(s, ast.Expr) and isinstance(s.value, ast.Constant) and isinstance(s.value.value, str):
                continue
            if isinstance(s, ast.Raise):
                lines.append("none")
                return "\n".join(lines)
            if isinstance(s, ast.Assign) and len(s.targets) == 1 and isinstance(s.targets[0], ast.Name):
                nm, v = s.targets[0].id, s.value
                if isinstance(v, ast.Call) and isinstance(v.func, ast.Attribute) and v.func.attr == "index" \
                        and len(v.args) == 1 and isinstance(v.args[0], ast.Constant) and v.args[0].value is Ellipsis \
                        and not v.keywords:
                    a, ta = self.ttuple(v.func.value, env)
                    if ta != "Tup":
                        bad(s, "`.index(...)` on a tuple that cannot hold an Ellipsis")
                    lines.append(f"Option.bind (pyIndexOf? {a} BIdx.ellipsis) fun {lean_ident(nm)} =>")
                    env[nm] = (lean_ident(nm), "Int")
                    continue
                try:
                    txt, ty = self.ttuple(v, env)
                except TranslateError:
                    txt, ty = self.tint(v, env), "Int"
                lines.append(f"let {lean_ident(nm)} := {txt};")
                env[nm] = (lean_ident(nm), ty)
                continue
            if isinstance(s, ast.If):
                # `if not isinstance(idx, tuple): idx = (idx,)`
                u = ast.unparse(s.test)
                if u.startswith("not isinstance(") and u.endswith(", tuple)") and not s.orelse and len(s.body) == 1:
                    x = s.test.operand.args[0]
                    if isinstance(x, ast.Name) and x.id in env and env[x.id][1] == "Expr" \
                            and ast.unparse(s.body[0]) == f"{x.id} = ({x.id},)":
                        lines.append(f"let {x.id} := (match {env[x.id][0]} with\n  | .bare x => [x]\n  | .tuple l => l);")
                        env[x.id] = (x.id, "Tup")
                        continue
                    bad(s, "tuple normalisation")
                if not s.orelse and len(s.body) == 1 and isinstance(s.body[0], ast.Raise):
                    lines.append(f"if {self.tcond(s.test, env)} then none else")    # guard
                    continue
                live = [nm for nm in self._assigned([s]) if nm in env]
                if not live:
                    bad(s, "if-statement that re-assigns nothing known")
                types = {nm: env[nm][1] for nm in live}

                def yld(e2, live=live, types=types, s=s):
                    for nm in live:
                        if e2[nm][1] != types[nm]:
                            bad(s, f"`{nm}` changes its kind inside the if-statement")
                    vals = [e2[nm][0] for nm in live]
                    return "some " + (vals[0] if len(vals) == 1 else "(" + ", ".join(vals) + ")")
                a = self.tstmts(s.body, env, yld)
                b = self.tstmts(s.orelse, env, yld)
                pat = lean_ident(live[0]) if len(live) == 1 else "(" + ", ".join(lean_ident(x) for x in live) + ")"
                lines.append(f"Option.bind (if {self.tcond(s.test, env)} then\n{indent_term(a, 4)}\n  else\n{indent_term(b, 4)}) fun {pat} =>")
                for nm in live:
                    env[nm] = (lean_ident(nm), types[nm])
                continue
            bad(s, "statement over the index tuple")
        lines.append(k(env))
        return "\n".join(lines)

    def getitem(self):
        fn = self.methods.get("__getitem__")
        if fn is None:
            raise TranslateError("__getitem__ not found")
        # locate:  if len(idx) <= self.mean.dim() - 2: ... elif len(idx) > self.mean.dim(): raise ... else: BLOCK
        top = [s for s in fn.body if isinstance(s, ast.If) and ast.unparse(s.test) == "len(idx) <= self.mean.dim() - 2"]
        if len(top) != 1:
            bad(fn, "cannot find the `len(idx) <= self.mean.dim() - 2` dispatch")
        top = top[0]
        self.notes["batch_only_branch"] = ast.unparse(top.body[-1])
        if not (len(top.body) == 1 and isinstance(top.body[0], ast.Return)
                and "covariance_matrix=self.lazy_covariance_matrix[idx]" in ast.unparse(top.body[0])
                and "interleaved=self._interleaved" in ast.unparse(top.body[0])):
            bad(top.body[0], "batch-only branch")
        if not (len(top.orelse) == 1 and isinstance(top.orelse[0], ast.If)
                and ast.unparse(top.orelse[0].test) == "len(idx) > self.mean.dim()"
                and isinstance(top.orelse[0].body[0], ast.Raise)):
            bad(top, "too-many-dimensions branch")
        block = top.orelse[0].orelse
        if not block or not (isinstance(block[0], ast.Assign) and ast.unparse(block[0].targets[0]) == "batch_idx"):
            bad(block[0] if block else top, "expected the assignment of `batch_idx`")   # its value is translated below (ttuple)
        # ---- layout assignment
        lay = block[1]
        if not (isinstance(lay, ast.If) and ast.unparse(lay.test) == "self._interleaved"):
            bad(lay, "expected `if self._interleaved:` layout assignment")
        atoms = {"idx[-2]": ("pointIdx", "Idx"), "idx[-1]": ("taskIdx", "Idx"),
                 "self._output_shape[-2]": ("n", "Int"), "self._output_shape[-1]": ("t", "Int")}
        want = ["row_idx", "col_idx", "num_rows", "num_cols"]

        def layout_branch(stmts):
            got = {}
            for s in stmts:
                if not (isinstance(s, ast.Assign) and len(s.targets) == 1 and isinstance(s.targets[0], ast.Name)
                        and ast.unparse(s.value) in atoms):
                    bad(s, "layout assignment")
                got[s.targets[0].id] = atoms[ast.unparse(s.value)]
            if sorted(got) != sorted(want):
                bad(lay, f"layout assigns {sorted(got)}")
            return got
        la, lb = layout_branch(lay.body), layout_branch(lay.orelse)
        for v in want:
            if la[v][1] != lb[v][1] or la[v][1] != ("Idx" if v.endswith("idx") else "Int"):
                bad(lay, f"`{v}` gets values of the wrong kind")
        self.layout = {v: (la[v][0], lb[v][0]) for v in want}
        # ---- dispatch chain
        if len(block) != 3 or not isinstance(block[2], ast.If):
            bad(block[2] if len(block) > 2 else lay, "expected a single if/elif dispatch after the layout assignment")
        node = block[2]
        while True:
            self.branch(ast.unparse(node.test), node.test, node.body)
            if len(node.orelse) == 1 and isinstance(node.orelse[0], ast.If):
                node = node.orelse[0]
                continue
            if not node.orelse:
                bad(node, "dispatch chain without final else")
            self.branch(None, None, node.orelse)
            break
        names = [b["name"] for b in self.branches]
        if len(set(names)) != len(names):
            raise TranslateError(f"duplicate dispatch branches {names}")
        # ---- the index tuple: preamble (everything before `new_mean = self.mean[idx]`) and the top-level dispatch
        if [a.arg for a in fn.args.args] != ["self", "idx"] or fn.args.vararg or fn.args.kwarg:
            bad(fn, "__getitem__ signature")
        stmts = [s for s in fn.body
                 if not (isinstance(s, ast.Expr) and isinstance(s.value, ast.Constant) and isinstance(s.value.value, str))]
        k = [i for i, s in enumerate(stmts) if ast.unparse(s) == "new_mean = self.mean[idx]"]
        if len(k) != 1 or k[0] + 2 != len(stmts) or stmts[k[0] + 1] is not top:
            bad(fn, "expected `new_mean = self.mean[idx]` immediately before the final dispatch")

        def cast(env):
            if env["idx"][1] != "Tup":
                bad(fn, "the index is not a tuple when the mean is indexed")
            return f"BIdx.comps? {env['idx'][0]}"
        self.getitem_idx = self.tstmts(stmts[:k[0]], {"idx": ("e", "Expr")}, cast)
        envt = {"idx": ("idx", "IdxList")}
        ret = top.body[0].value
        kw = {x.arg: x.value for x in ret.keywords} if isinstance(ret, ast.Call) else {}
        if "covariance_matrix" not in kw:
            bad(ret, "batch-only result without covariance_matrix=")
        batch_only = f"some ({self.result(ret, {})}, {self.covariance_selection_sel(kw['covariance_matrix'], envt, None)})"
        if not (isinstance(block[0], ast.Assign) and ast.unparse(block[0].targets[0]) == "batch_idx"):
            bad(block[0], "batch_idx assignment")
        batch_txt, bty = self.ttuple(block[0].value, envt)
        if bty != "IdxList":
            bad(block[0], "batch_idx is not a tuple of plain components")
        lay = lambda v: f"(layout_{v} inter n t pointIdx taskIdx)"
        self.getitem_full = "\n".join([
            f"if {self.tcond(top.test, envt)} then",
            f"  {batch_only}",
            f"else if {self.tcond(top.orelse[0].test, envt)} then",
            "  none",
            "else",
            f"  let batch_idx := {batch_txt};",
            "  Option.bind (pyGet? idx (-2)) fun pointIdx =>",
            "  Option.bind (pyGet? idx (-1)) fun taskIdx =>",
            f"  getitemRCB inter (n * t) {lay('num_rows')} {lay('num_cols')} batch_idx {lay('row_idx')} {lay('col_idx')}"])

    def branch(self, key, test, body):
        if key not in self.BRANCH_NAMES:
            bad(test, "unknown dispatch test")
        name, rpat, cpat = self.BRANCH_NAMES[key]
        base = {"row_idx": ("row_idx", "Idx"), "col_idx": ("col_idx", "Idx"),
                "num_rows": ("num_rows", "Int"), "num_cols": ("num_cols", "Int")}
        test_text = self.bexpr(test, base) if test is not None else None
        ty = {"int": "Int", "slice": "PySlice", None: "Idx"}
        bodies = {}
        # two renderings of the same statements: "pos" = the flat event positions selected (batch part dropped),
        # "sel" = the covariance selection as written, batch components included (`CovSel`)
        for mode in ("pos", "sel"):
            env = dict(base)
            env["row_idx"] = ("row_idx", ty[rpat])
            env["col_idx"] = ("col_idx", ty[cpat])
            if mode == "sel":
                env["batch_idx"] = ("batch_idx", "IdxList")
            blk = Block()
            final = None
            for s in body:
                if isinstance(s, ast.Expr) and isinstance(s.value, ast.Constant):
                    continue
                if isinstance(s, ast.Assign) and len(s.targets) == 1 and isinstance(s.targets[0], ast.Name) \
                        and s.targets[0].id == "new_cov":
                    if mode == "pos":
                        sel = self.covariance_selection(s.value, env, blk)
                        env["new_cov"] = (blk.bind("new_cov", sel), "Pos")
                    else:
                        sel = self.covariance_selection_sel(s.value, env, blk)
                        env["new_cov"] = (blk.let("new_cov", sel), "Sel")
                    continue
                if isinstance(s, ast.Assign):
                    self.assign(s, env, blk)
                    continue
                if isinstance(s, ast.If) and not _returns(s.body) and not _returns(s.orelse):
                    self.merge_if(s, env, blk)
                    continue
                if isinstance(s, ast.Return):
                    if "new_cov" not in env:
                        bad(s, "return before new_cov")
                    final = f"some ({self.result(s.value, env)}, {env['new_cov'][0]})"
                    break
                bad(s, "statement in dispatch branch")
            if final is None:
                bad(body[-1], "dispatch branch without return")
            bodies[mode] = blk.render(final, 2)
        lt = {"Int": "Int", "PySlice": "PySlice", "Idx": "Idx"}
        self.branches.append({"name": name, "test": test_text, "rpat": rpat, "cpat": cpat,
                              "sig": f"(inter : Bool) (N num_rows num_cols : Int) (row_idx : {lt[ty[rpat]]}) (col_idx : {lt[ty[cpat]]})",
                              "sigB": f"(inter : Bool) (N num_rows num_cols : Int) (batch_idx : List Idx) "
                                      f"(row_idx : {lt[ty[rpat]]}) (col_idx : {lt[ty[cpat]]})",
                              "body": bodies["pos"], "bodyB": bodies["sel"], "src": key or "else"})

    # ------------------------------------------------------------------ to_data_independent_dist
    def data_independent(self):
        fn = self.methods.get("to_data_independent_dist")
        if fn is None:
            raise TranslateError("to_data_independent_dist not found")
        lay = [s for s in fn.body if isinstance(s, ast.If) and ast.unparse(s.test) == "self._interleaved"]
        if len(lay) != 1:
            bad(fn, "layout branch of to_data_independent_dist")
        env = {"num_data": ("n", "Int"), "num_tasks": ("t", "Int")}
        if "num_data, num_tasks = self.mean.shape[-2:]" not in [ast.unparse(s) for s in fn.body]:
            bad(fn, "expected `num_data, num_tasks = self.mean.shape[-2:]`")

        def grid(stmts):
            got = {}
            for s in stmts:
                if not (isinstance(s, ast.Assign) and len(s.targets) == 1 and isinstance(s.targets[0], ast.Name)):
                    bad(s, "index grid assignment")
                v = s.value
                view = None
                if isinstance(v, ast.Call) and isinstance(v.func, ast.Attribute) and v.func.attr == "view":
                    view = ast.unparse(ast.Tuple(elts=v.args, ctx=ast.Load()))
                    v = v.func.value
                if not _is_call(v, "torch.arange") or any(k.arg != "device" for k in v.keywords):
                    bad(s, "index grid is not a torch.arange")
                a = [self.iexpr(x, env) for x in v.args]
                if len(a) == 1:
                    a = ["0", a[0], "1"]
                elif len(a) == 2:
                    a = a + ["1"]
                elif len(a) != 3:
                    bad(s, "torch.arange arity")
                got[s.targets[0].id] = (a, view)
            if sorted(got) != ["data_indices", "task_indices"]:
                bad(lay[0], f"index grids assign {sorted(got)}")
            if got["data_indices"][1] != "(-1, 1, 1)" or got["task_indices"][1] is not None:
                bad(lay[0], "index grid shapes (expected data_indices.view(-1, 1, 1), flat task_indices)")
            return got
        ga, gb = grid(lay[0].body), grid(lay[0].orelse)
        sel = [s for s in fn.body if isinstance(s, ast.Assign) and ast.unparse(s.targets[0]) == "task_covars"]
        sv = sel[0].value if len(sel) == 1 else None
        if not (isinstance(sv, ast.Subscript) and ast.unparse(sv.value) == "full_covar" and isinstance(sv.slice, ast.Tuple)
                and len(sv.slice.elts) == 3 and isinstance(sv.slice.elts[0], ast.Constant) and sv.slice.elts[0].value is Ellipsis):
            bad(sel[0] if sel else fn, "task_covars selection (full_covar[..., rows, columns])")

        def axis(e):
            """`data_indices + task_indices.unsqueeze(d)`: data_indices has shape (n, 1, 1); the 1-d task_indices follows the
            LAST axis of the (n, t, t) result for d in {-2, 0} (shape (1, t)) and the middle one for d in {-1, 1} (shape (t, 1))"""
            if not (isinstance(e, ast.BinOp) and isinstance(e.op, ast.Add) and ast.unparse(e.left) == "data_indices"
                    and isinstance(e.right, ast.Call) and ast.unparse(e.right.func) == "task_indices.unsqueeze"
                    and len(e.right.args) == 1 and not e.right.keywords):
                bad(e, "index grid expression (data_indices + task_indices.unsqueeze(d))")
            d = ast.unparse(e.right.args[0])
            if d in ("-2", "0"):
                return "y"
            if d in ("-1", "1"):
                return "x"
            bad(e, "unsqueeze dimension of a 1-d tensor")
        self.di_axes = (axis(sv.slice.elts[1]), axis(sv.slice.elts[2]))
        self.grids = {k: (ga[k][0], gb[k][0]) for k in ("data_indices", "task_indices")}

    # ------------------------------------------------------------------ view / transpose sites
    # values: ("flat", leanterm) — a vector over the n·t outputs;  ("mat", leanterm, rows, cols) — a matrix whose
    # last two dimensions are rows × cols (each "n" or "t"); leading batch / sample dimensions are carried along
    # unchanged by every operation in the vocabulary and are not represented.

    def shape_last2(self, node, venv):
        """last two dimensions denoted by a shape expression -> (rows, cols)"""
        if isinstance(node, ast.Name) and node.id in venv and venv[node.id][0] == "shape":
            return venv[node.id][1]
        u = ast.unparse(node)
        if u == "self._output_shape":
            return ("n", "t")
        if isinstance(node, ast.Attribute) and node.attr == "shape" and isinstance(node.value, ast.Name) \
                and node.value.id in venv and venv[node.value.id][0] == "mat":
            return (venv[node.value.id][2], venv[node.value.id][3])
        if isinstance(node, ast.BinOp) and isinstance(node.op, ast.Add):
            return self.shape_last2(node.right, venv)
        if isinstance(node, ast.Subscript) and ast.unparse(node.slice) == ":-3:-1":
            r, c = self.shape_last2(node.value, venv)
            return (c, r)
        bad(node, "shape expression")

    def view_args_last2(self, call, venv):
        if len(call.args) == 1 and not isinstance(call.args[0], ast.Starred):
            return self.shape_last2(call.args[0], venv)
        if call.args and all(isinstance(a, ast.Starred) for a in call.args):
            return self.shape_last2(call.args[-1].value, venv)
        bad(call, "view arguments")

    def vexpr(self, node, venv):
        """tensor expression built from view / transpose / contiguous / reshape(..., -1)"""
        if isinstance(node, ast.Name):
            if node.id not in venv or venv[node.id][0] not in ("flat", "mat"):
                bad(node, "unknown tensor")
            return venv[node.id]
        if isinstance(node, ast.Call) and isinstance(node.func, ast.Attribute):
            base = self.vexpr(node.func.value, venv)
            m = node.func.attr
            if m == "contiguous" and not node.args and not node.keywords:
                return base
            if m == "transpose" and [ast.unparse(a) for a in node.args] in (["-1", "-2"], ["-2", "-1"]) and not node.keywords:
                if base[0] != "mat":
                    bad(node, "transpose of a flat vector")
                return ("mat", f"(transpose2 {base[1]})", base[3], base[2])
            if m == "view" and not node.keywords:
                r, c = self.view_args_last2(node, venv)
                if base[0] == "flat":
                    return ("mat", f"(view2 {c} {base[1]})", r, c)
                return ("mat", f"(view2 {c} (reshapeFlat {base[3]} {base[1]}))", r, c)
            if m == "reshape" and not node.keywords and len(node.args) == 2 and isinstance(node.args[0], ast.Starred) \
                    and ast.unparse(node.args[1]) == "-1" and ast.unparse(node.args[0].value).endswith(".shape[:-2]"):
                if base[0] != "mat":
                    bad(node, "reshape(..., -1) of a flat vector")
                return ("flat", f"(reshapeFlat {base[3]} {base[1]})")
        bad(node, "view/transpose expression")

    def view_path(self, stmts, venv, inter, want):
        """Execute `stmts` with self._interleaved fixed; returns the value returned / handed to super()."""
        venv = dict(venv)
        for s in stmts:
            if isinstance(s, ast.Expr) and isinstance(s.value, ast.Constant):
                continue
            if isinstance(s, ast.If) and ast.unparse(s.test) in ("not self._interleaved", "self._interleaved"):
                taken = (not inter) if ast.unparse(s.test).startswith("not") else inter
                r = self.view_path(s.body if taken else s.orelse, venv, inter, want)
                if isinstance(r, tuple):
                    return r
                venv = r
                continue
            if isinstance(s, ast.Assign) and len(s.targets) == 1 and isinstance(s.targets[0], ast.Name):
                nm = s.targets[0].id
                if nm == "new_shape":
                    venv[nm] = ("shape", self.shape_last2(s.value, venv))
                else:
                    venv[nm] = self.vexpr(s.value, venv)
                continue
            if isinstance(s, ast.Return):
                v = s.value
                if want == "flat":   # return super().log_prob(<flat expr>)
                    if not (isinstance(v, ast.Call) and ast.unparse(v.func) == "super().log_prob" and len(v.args) == 1):
                        bad(s, "expected `return super().log_prob(...)`")
                    v = v.args[0]
                return self.vexpr(v, venv)
            bad(s, "statement in a view/transpose method")
        return venv

    def views(self):
        out = {}
        # (method, flat source variable = super() result, Lean name)
        for meth, src, lean in (("mean", "mean", "meanView"), ("variance", "var", "varianceView"),
                                ("rsample", "samples", "rsampleView"), ("get_base_samples", "base_samples", "baseSamplesView")):
            fn = self.methods.get(meth)
            if fn is None:
                raise TranslateError(f"{meth} not found")
            k = [i for i, s in enumerate(fn.body) if isinstance(s, ast.Assign) and ast.unparse(s.targets[0]) == src
                 and ast.unparse(s.value).startswith("super()")]
            if len(k) != 1:
                bad(fn, f"expected one `{src} = super()...` in {meth}")
            paths = []
            for inter in (True, False):
                r = self.view_path(fn.body[k[0] + 1:], {src: ("flat", "loc")}, inter, "mat")
                if not (isinstance(r, tuple) and r[0] == "mat"):
                    bad(fn, f"{meth} does not return a matrix view")
                if (r[2], r[3]) != ("n", "t"):
                    bad(fn, f"{meth} returns a {r[2]} x {r[3]} view, expected n x t")
                paths.append(r[1])
            out[lean] = ("mat", paths)
        # rsample: the base-sample matrix handed to the base class (`base_samples.view(*sample_shape, *self.loc.shape)`)
        fn = self.methods.get("rsample")
        guards = [s for s in fn.body if isinstance(s, ast.If) and ast.unparse(s.test) == "base_samples is not None"]
        if len(guards) != 1:
            bad(fn, "expected one `if base_samples is not None:` in rsample")
        asg = [s for s in guards[0].body if isinstance(s, ast.Assign) and ast.unparse(s.targets[0]) == "base_samples"]
        if len(asg) != 1:
            bad(guards[0], "expected one re-shaping of base_samples")
        v = asg[0].value
        if not (isinstance(v, ast.Call) and ast.unparse(v.func) == "base_samples.view" and not v.keywords
                and [ast.unparse(a) for a in v.args] == ["*sample_shape", "*self.loc.shape"]):
            bad(asg[0], "base_samples re-shaping (expected a view onto the shape of the flat loc)")
        # an n x t matrix viewed as a flat vector of n·t entries: row-major, whatever the layout
        out["baseSamplesArg"] = ("flat", ["(reshapeFlat t base)", "(reshapeFlat t base)"])
        # log_prob: matrix -> flat vector handed to the base class
        fn = self.methods.get("log_prob")
        if fn is None or [a.arg for a in fn.args.args] != ["self", "value"]:
            bad(fn, "log_prob signature")
        paths = []
        for inter in (True, False):
            r = self.view_path(fn.body, {"value": ("mat", "value", "n", "t")}, inter, "flat")
            if not (isinstance(r, tuple) and r[0] == "flat"):
                bad(fn, "log_prob does not hand a flat vector to super().log_prob")
            paths.append(r[1])
        out["logProbArg"] = ("flat", paths)
        # __init__: mean matrix -> stored flat vector
        init = self.methods["__init__"]
        lay = [s for s in init.body if isinstance(s, ast.If) and ast.unparse(s.test) == "self._interleaved"]
        if len(lay) != 1:
            bad(init, "layout branch of __init__")
        paths = []
        for inter in (True, False):
            venv = self.view_path([lay[0]], {"mean": ("mat", "mean", "n", "t")}, inter, "mat")
            if isinstance(venv, tuple) or "mean_mvn" not in venv or venv["mean_mvn"][0] != "flat":
                bad(lay[0], "__init__ does not flatten the mean into mean_mvn")
            paths.append(venv["mean_mvn"][1])
        out["ctorLoc"] = ("flat", paths)
        self.view_defs = out

    # ------------------------------------------------------------------ constructors
    def constructors(self):
        ops = {"BlockInterleavedLinearOperator": "BlockOp.interleavedBlocks", "BlockDiagLinearOperator": "BlockOp.diagBlocks"}
        out = {}
        # from_batch_mvn
        fn = self.methods.get("from_batch_mvn")
        calls = [n for n in ast.walk(fn) if isinstance(n, ast.Call) and isinstance(n.func, ast.Name) and n.func.id == "cls"]
        if len(calls) != 1 or len([x for x in ast.walk(fn) if isinstance(x, ast.Return)]) != 1:
            bad(fn, "expected one cls(...) call and one return path in from_batch_mvn")
        kw = {k.arg: k.value for k in calls[0].keywords}
        cov = kw.get("covariance_matrix")
        if not (isinstance(cov, ast.Call) and isinstance(cov.func, ast.Name) and cov.func.id in ops
                and ast.unparse(cov.args[0]) == "batch_mvn.lazy_covariance_matrix"
                and [k.arg for k in cov.keywords] == ["block_dim"]):
            bad(calls[0], "from_batch_mvn covariance")
        self.from_batch_plan(fn, calls[0], kw, cov)
        inter = ast.unparse(kw["interleaved"]).lower() if "interleaved" in kw else self.init_default_interleaved()
        out["fromBatchMvn"] = (ops[cov.func.id], inter)
        # from_independent_mvns
        fn = self.methods.get("from_independent_mvns")
        stk = [s for s in fn.body if isinstance(s, ast.Assign) and ast.unparse(s.targets[0]) == "mean"]
        if len(stk) != 1 or not (_is_call(stk[0].value, "torch.stack") and len(stk[0].value.args) == 2
                                 and ast.unparse(stk[0].value.args[0]) == "[mvn.mean for mvn in mvns]" and not stk[0].value.keywords):
            bad(fn, "from_independent_mvns mean (a stack of the task means)")
        stack_dim = self.cint(stk[0].value.args[1], {}, {})
        blocks = [s for s in fn.body if isinstance(s, ast.Assign) and ast.unparse(s.targets[0]) == "covar_lazy"]
        if len(blocks) != 1 or not (isinstance(blocks[0].value, ast.Call) and isinstance(blocks[0].value.func, ast.Name)
                                    and blocks[0].value.func.id in ops
                                    and ast.unparse(blocks[0].value.args[0]) == "covar_blocks_lazy"
                                    and [k.arg for k in blocks[0].value.keywords] == ["block_dim"]):
            bad(fn, "from_independent_mvns block operator")
        block_dim = self.cint(blocks[0].value.keywords[0].value, {}, {})
        cat = [s for s in fn.body if isinstance(s, ast.Assign) and ast.unparse(s.targets[0]) == "covar_blocks_lazy"]
        cv = cat[0].value if len(cat) == 1 else None
        if not (cv is not None and _is_call(cv, "CatLinearOperator") and len(cv.args) == 1 and isinstance(cv.args[0], ast.Starred)
                and isinstance(cv.args[0].value, ast.ListComp) and ast.unparse(cv.args[0].value.generators[0]).strip() == "for mvn in mvns"
                and sorted(k.arg for k in cv.keywords) == ["dim", "output_device"]):
            bad(fn, "from_independent_mvns block stacking (CatLinearOperator over the tasks)")
        elt = cv.args[0].value.elt
        if not (isinstance(elt, ast.Call) and ast.unparse(elt.func) == "mvn.lazy_covariance_matrix.unsqueeze"
                and len(elt.args) == 1 and not elt.keywords):
            bad(elt, "from_independent_mvns block stacking (unsqueezed task covariances)")
        unsq_dim = self.cint(elt.args[0], {}, {})
        cat_dim = self.cint([k.value for k in cv.keywords if k.arg == "dim"][0], {}, {})
        self.indep_plan = (stack_dim, unsq_dim, cat_dim, block_dim)
        ret = fn.body[-1]
        if not (isinstance(ret, ast.Return) and isinstance(ret.value, ast.Call) and ast.unparse(ret.value.func) == "cls"):
            bad(ret, "from_independent_mvns result")
        nret = [x for x in ast.walk(fn) if isinstance(x, ast.Return)]
        ncls = [x for x in ast.walk(fn) if isinstance(x, ast.Call) and ast.unparse(x.func).startswith("cls")]
        if len(nret) != 1 or len(ncls) != 1:
            bad(nret[0] if len(nret) > 1 else fn, "from_independent_mvns has more than one construction / return path")
        kw = {k.arg: ast.unparse(k.value) for k in ret.value.keywords}
        if kw.get("mean") != "mean" or kw.get("covariance_matrix") != "covar_lazy":
            bad(ret, "from_independent_mvns result arguments")
        inter = kw["interleaved"].lower() if "interleaved" in kw else self.init_default_interleaved()
        if inter not in ("true", "false"):
            bad(ret, "interleaved flag")
        out["fromIndependentMvns"] = (ops[blocks[0].value.func.id], inter)
        # from_repeated_mvn delegates
        fn = self.methods.get("from_repeated_mvn")
        ret = fn.body[-1]
        rv = ret.value if isinstance(ret, ast.Return) else None
        if not (isinstance(rv, ast.Call) and ast.unparse(rv.func) == "cls.from_batch_mvn" and len(rv.args) == 1
                and [k.arg for k in rv.keywords] == ["task_dim"] and isinstance(rv.args[0], ast.Call)
                and ast.unparse(rv.args[0].func) == "mvn.expand" and len(rv.args[0].args) == 1 and not rv.args[0].keywords):
            bad(ret, "from_repeated_mvn (expected delegation to from_batch_mvn on an expanded copy)")
        self.repeated_plan = (self.shape_list(rv.args[0].args[0]), self.cint(rv.keywords[0].value, {}, {}))
        out["fromRepeatedMvn"] = out["fromBatchMvn"]
        self.ctors = out

    # ---- integer expressions of the constructors: names, ints, + - *, conditional expressions; `atoms` maps source text to parameters
    def cint(self, node, env, atoms):
        u = ast.unparse(node)
        if u in atoms:
            return atoms[u]
        if isinstance(node, ast.Constant) and isinstance(node.value, int) and not isinstance(node.value, bool):
            return str(node.value) if node.value >= 0 else f"({node.value})"
        if isinstance(node, ast.Name):
            if node.id in env:
                return env[node.id]
            bad(node, "unknown name")
        if isinstance(node, ast.UnaryOp) and isinstance(node.op, ast.USub):
            return f"(-{self.cint(node.operand, env, atoms)})"
        if isinstance(node, ast.BinOp) and isinstance(node.op, (ast.Add, ast.Sub, ast.Mult)):
            op = {ast.Add: "+", ast.Sub: "-", ast.Mult: "*"}[type(node.op)]
            return f"({self.cint(node.left, env, atoms)} {op} {self.cint(node.right, env, atoms)})"
        if isinstance(node, ast.IfExp):
            return (f"(if {self.ccond(node.test, env, atoms)} then {self.cint(node.body, env, atoms)} "
                    f"else {self.cint(node.orelse, env, atoms)})")
        bad(node, "integer expression in a constructor")

    def ccond(self, node, env, atoms):
        if isinstance(node, ast.BoolOp):
            op = " ∧ " if isinstance(node.op, ast.And) else " ∨ "
            return "(" + op.join(self.ccond(v, env, atoms) for v in node.values) + ")"
        if isinstance(node, ast.UnaryOp) and isinstance(node.op, ast.Not):
            return f"(¬ {self.ccond(node.operand, env, atoms)})"
        if isinstance(node, ast.Compare) and len(node.ops) == 1 and type(node.ops[0]) in self.CMP:
            return f"({self.cint(node.left, env, atoms)} {self.CMP[type(node.ops[0])]} {self.cint(node.comparators[0], env, atoms)})"
        bad(node, "condition in a constructor")

    def shape_list(self, node):
        """`torch.Size([a, ...]) + x.batch_shape` style shape expressions -> lean List Int text over `num_tasks`, `batch_shape`"""
        if isinstance(node, ast.BinOp) and isinstance(node.op, ast.Add):
            return f"({self.shape_list(node.left)} ++ {self.shape_list(node.right)})"
        if _is_call(node, "torch.Size") and len(node.args) == 1 and isinstance(node.args[0], (ast.List, ast.Tuple)):
            return "[" + ", ".join(self.cint(e, {"num_tasks": "num_tasks"}, {}) for e in node.args[0].elts) + "]"
        if ast.unparse(node) == "mvn.batch_shape":
            return "batch_shape"
        bad(node, "shape expression of from_repeated_mvn")

    def from_batch_plan(self, fn, call, kw, cov):
        """`from_batch_mvn`: normalisation / validation of task_dim, permutation of the mean, block dimension"""
        atoms = {"len(batch_mvn.batch_shape)": "nbatch", "batch_mvn.mean.dim()": "meanDim", "batch_mvn.mean.ndimension()": "meanDim"}
        env = {"task_dim": "task_dim"}
        lines = []
        for s in fn.body:
            if isinstance(s, ast.Expr) and isinstance(s.value, ast.Constant) and isinstance(s.value.value, str):
                continue
            if isinstance(s, ast.Assign) and len(s.targets) == 1 and isinstance(s.targets[0], ast.Name) and s.targets[0].id != "res":
                nm = s.targets[0].id
                lines.append(f"let {lean_ident(nm)} := {self.cint(s.value, env, atoms)};")
                env[nm] = lean_ident(nm)
                continue
            if isinstance(s, ast.If) and not s.orelse and len(s.body) == 1 and isinstance(s.body[0], ast.Raise):
                lines.append(f"if {self.ccond(s.test, env, atoms)} then none else")
                continue
            if (isinstance(s, ast.Assign) and ast.unparse(s.targets[0]) == "res") or isinstance(s, ast.Return):
                if isinstance(s, ast.Return) and ast.unparse(s.value) == "res":
                    continue
                if call is not (s.value):
                    bad(s, "from_batch_mvn result")
                m = kw.get("mean")
                if not (isinstance(m, ast.Call) and ast.unparse(m.func) == "batch_mvn.mean.permute" and not m.keywords):
                    bad(call, "from_batch_mvn mean (a permutation of the batch mean)")
                parts = []
                for a in m.args:
                    if isinstance(a, ast.Starred) and _is_call(a.value, "range") and len(a.value.args) == 2:
                        parts.append(f"pyRange {self.cint(a.value.args[0], env, atoms)} {self.cint(a.value.args[1], env, atoms)}")
                    elif isinstance(a, ast.Starred):
                        bad(a, "permutation argument")
                    else:
                        parts.append(f"[{self.cint(a, env, atoms)}]")
                blockdim = self.cint(cov.keywords[0].value, env, atoms)
                lines.append(f"some ({' ++ '.join(parts)}, {blockdim})")
                self.batch_plan = "\n".join(lines)
                self.batch_plan_done = True
                continue
            bad(s, "statement in from_batch_mvn")
        if not getattr(self, "batch_plan_done", False):
            bad(fn, "from_batch_mvn builds no result")

    # ------------------------------------------------------------------ emit
    def emit(self):
        L = []
        L.append("/-")
        L.append(f"GENERATED by harness/translate/g3_mtmvn_index.py from {REL} — do not edit.")
        L.append("Regenerated from $VERIF_REPO's working tree on every `./check C11`.")
        L.append("-/")
        L.append("import GPVerif.Model.MTIndex")
        L.append("import GPVerif.Model.MTBatch")
        L.append("import GPVerif.Model.MTCtor")
        L.append("")
        L.append("set_option linter.unusedVariables false")
        L.append("")
        L.append("namespace Gen.MTIndex")
        L.append("open _root_.MTIndex")
        L.append("")
        for key in self.helper_order:
            L.append(self.helpers[key].emit())
        L.append("/-! layout assignment of `__getitem__` (`if self._interleaved:`) -/")
        for v in ("row_idx", "col_idx", "num_rows", "num_cols"):
            a, b = self.layout[v]
            ty = "Idx" if v.endswith("idx") else "Int"
            L.append(f"def layout_{v} (inter : Bool) (n t : Int) (pointIdx taskIdx : Idx) : {ty} := if inter then {a} else {b}")
        L.append("")
        L.append("/-! one definition per dispatch branch: result kind and the flat covariance positions selected -/")
        for b in self.branches:
            L.append(f"/-- branch `{b['src']}` -/")
            L.append(f"def branch_{b['name']} {b['sig']} : Option (OutKind × List Int) :=")
            L.append(b["body"])
            L.append("")
        L.append("/-- the dispatch of `__getitem__` in (row, col) coordinates -/")
        L.append("def getitemRC (inter : Bool) (N num_rows num_cols : Int) (row_idx col_idx : Idx) : Option (OutKind × List Int) :=")
        pat = {"int": ".int", "slice": ".slice"}
        for i, b in enumerate(self.branches):
            call = f"branch_{b['name']} inter N num_rows num_cols"
            if b["rpat"] is None and b["cpat"] is None:
                rhs = f"{call} row_idx col_idx"
            else:
                rhs = (f"(match row_idx, col_idx with\n    | {pat[b['rpat']]} r, {pat[b['cpat']]} c => {call} r c\n"
                       f"    | _, _ => none)")
            if b["test"] is not None:
                L.append(f"  {'if' if i == 0 else 'else if'} {b['test']} then\n    {rhs}")
            else:
                L.append(f"  else\n    {rhs}")
        L.append("")
        L.append("/-! the same branches with the covariance selection kept as written: batch components + event selection -/")
        for b in self.branches:
            L.append(f"/-- branch `{b['src']}` -/")
            L.append(f"def branchB_{b['name']} {b['sigB']} : Option (OutKind × CovSel) :=")
            L.append(b["bodyB"])
            L.append("")
        L.append("/-- the dispatch of `__getitem__` in (row, col) coordinates, batch components carried along -/")
        L.append("def getitemRCB (inter : Bool) (N num_rows num_cols : Int) (batch_idx : List Idx) (row_idx col_idx : Idx) : Option (OutKind × CovSel) :=")
        for i, b in enumerate(self.branches):
            call = f"branchB_{b['name']} inter N num_rows num_cols batch_idx"
            if b["rpat"] is None and b["cpat"] is None:
                rhs = f"{call} row_idx col_idx"
            else:
                rhs = (f"(match row_idx, col_idx with\n    | {pat[b['rpat']]} r, {pat[b['cpat']]} c => {call} r c\n"
                       f"    | _, _ => none)")
            if b["test"] is not None:
                L.append(f"  {'if' if i == 0 else 'else if'} {b['test']} then\n    {rhs}")
            else:
                L.append(f"  else\n    {rhs}")
        L.append("")
        L.append("/-- the preamble of `__getitem__`: tuple normalisation, ellipsis expansion, appended task slice; the tuple "
                 "that indexes the mean (`dim` = `self.mean.dim()`; `none` = an `IndexError` is raised) -/")
        L.append("def getitemIdx (dim : Int) (e : IdxExpr) : Option (List Idx) :=")
        L.append(indent_term(self.getitem_idx, 2))
        L.append("")
        L.append("/-- `__getitem__` after the preamble: batch-only branch, too-many-indices, layout assignment + dispatch -/")
        L.append("def getitemDispatch (inter : Bool) (dim n t : Int) (idx : List Idx) : Option (OutKind × CovSel) :=")
        L.append(indent_term(self.getitem_full, 2))
        L.append("")
        L.append("/-- the whole `__getitem__`: result class and covariance selection -/")
        L.append("def getitemFull (inter : Bool) (dim n t : Int) (e : IdxExpr) : Option (OutKind × CovSel) :=")
        L.append("  Option.bind (getitemIdx dim e) fun idx => getitemDispatch inter dim n t idx")
        L.append("")
        L.append("/-- `d[pointIdx, taskIdx]` for `n` points, `t` tasks: layout assignment followed by the dispatch -/")
        L.append("def getitem (inter : Bool) (n t : Int) (pointIdx taskIdx : Idx) : Option (OutKind × List Int) :=")
        L.append("  getitemRC inter (n * t) (layout_num_rows inter n t pointIdx taskIdx) (layout_num_cols inter n t pointIdx taskIdx)")
        L.append("    (layout_row_idx inter n t pointIdx taskIdx) (layout_col_idx inter n t pointIdx taskIdx)")
        L.append("")
        L.append("/-! `to_data_independent_dist`: entry (a, b) of the block of point i is "
                 "covariance[data_indices[i] + task_indices[a], data_indices[i] + task_indices[b]] -/")
        for k, nm in (("data_indices", "dataIndices"), ("task_indices", "taskIndices")):
            a, b = self.grids[k]
            L.append(f"def {nm} (inter : Bool) (n t : Int) : List Int := "
                     f"if inter then arange {' '.join(a)} else arange {' '.join(b)}")
        L.append("")
        ra, ca = self.di_axes
        L.append("/-! `to_data_independent_dist`: entry (i, x, y) of the result is covariance[data_indices[i] + task_indices[diRowTask x y], "
                 "data_indices[i] + task_indices[diColTask x y]] (which result axis each `unsqueeze` makes the task index follow) -/")
        L.append(f"def diRowTask (x y : Int) : Int := {ra}")
        L.append(f"def diColTask (x y : Int) : Int := {ca}")
        L.append("")
        L.append("/-! view / transpose pairs: `mean`, `variance`, `rsample` (result), `get_base_samples` read the stored flat "
                 "vector `loc` as an n × t matrix; `__init__` (ctorLoc) and `log_prob` (logProbArg) flatten an n × t matrix -/")
        for nm in ("meanView", "varianceView", "rsampleView", "baseSamplesView"):
            a, b = self.view_defs[nm][1]
            L.append(f"def {nm} {{α : Type}} (inter : Bool) (n t : Int) (loc : Int → α) : Int → Int → α :=\n"
                     f"  if inter then {a} else {b}")
        for nm, arg in (("ctorLoc", "mean"), ("logProbArg", "value"), ("baseSamplesArg", "base")):
            a, b = self.view_defs[nm][1]
            L.append(f"def {nm} {{α : Type}} (inter : Bool) (n t : Int) ({arg} : Int → Int → α) : Int → α :=\n"
                     f"  if inter then {a} else {b}")
        L.append("")
        L.append("/-! constructors: block operator wrapped around the per-task covariances, and the layout flag passed on -/")
        for nm in ("fromBatchMvn", "fromIndependentMvns", "fromRepeatedMvn"):
            op, inter = self.ctors[nm]
            L.append(f"def {nm} : BlockOp × Bool := ({op}, {inter})")
        L.append("")
        L.append("/-- `from_batch_mvn`: (permutation applied to the batch mean, block dimension of the covariance) for a batch "
                 "MVN with `nbatch` batch dimensions whose mean has `meanDim` dimensions; `none` = `ValueError` -/")
        L.append("def fromBatchMvnPlan (nbatch meanDim task_dim : Int) : Option (List Int × Int) :=")
        L.append(indent_term(self.batch_plan, 2))
        sd, ud, cd, bd = self.indep_plan
        L.append("/-- `from_independent_mvns`: dimension of `torch.stack` of the means, of `unsqueeze` and `CatLinearOperator` of the "
                 "task covariances, and the block dimension -/")
        L.append(f"def fromIndependentPlan : Int × Int × Int × Int := ({sd}, {ud}, {cd}, {bd})")
        shp, td = self.repeated_plan
        L.append("/-- `from_repeated_mvn`: the shape the MVN is expanded to, and the task dimension handed to `from_batch_mvn` -/")
        L.append(f"def fromRepeatedShape (num_tasks : Int) (batch_shape : List Int) : List Int := {shp}")
        L.append(f"def fromRepeatedTaskDim : Int := {td}")
        L.append("")
        L.append("/-- names of the dispatch branches, in source order -/")
        L.append("def branchNames : List String := [" + ", ".join(f'"{b["name"]}"' for b in self.branches) + "]")
        L.append("")
        L.append("end Gen.MTIndex")
        return "\n".join(L) + "\n"

    def run(self):
        self.getitem()
        self.data_independent()
        self.views()
        self.constructors()
        return self.emit()


# ----------------------------------------------------------------------------------------------- ast helpers

def _is_call(node, dotted):
    return isinstance(node, ast.Call) and ast.unparse(node.func) == dotted


def _is_full_slice(node):
    return _is_call(node, "slice") and [ast.unparse(a) for a in node.args] == ["None", "None", "None"]


def _returns(stmts):
    """Every path through `stmts` ends in return/raise."""
    if not stmts:
        return False
    last = stmts[-1]
    if isinstance(last, (ast.Return, ast.Raise)):
        return True
    if isinstance(last, ast.If):
        return _returns(last.body) and _returns(last.orelse)
    return False


def _is_bool_guard(s):
    """`if x.dtype == torch.bool [or x.dim() > 1]: raise ...` — rejects boolean masks / index tensors with more
    than one dimension.  The Lean model only has integer tensors of dimension <= 1, for which the guard is false,
    so it carries no integer content; any other guard is outside the vocabulary."""
    if not (isinstance(s, ast.If) and not s.orelse and len(s.body) == 1 and isinstance(s.body[0], ast.Raise)):
        return False
    atoms = s.test.values if isinstance(s.test, ast.BoolOp) and isinstance(s.test.op, ast.Or) else [s.test]
    ok = []
    for a in atoms:
        u = ast.unparse(a)
        ok.append(isinstance(a, ast.Compare) and (
            (u.endswith(".dtype == torch.bool")) or
            any(u.endswith(suf) for suf in (".dim() > 1", ".dim() >= 2", ".ndim > 1", ".ndim >= 2", ".ndimension() > 1"))))
    return all(ok)


def _batch_plus_tuple(node, k):
    """`batch_idx + (e1, ..., ek)` -> [e1..ek] or None."""
    if isinstance(node, ast.BinOp) and isinstance(node.op, ast.Add) and ast.unparse(node.left) == "batch_idx" \
            and isinstance(node.right, ast.Tuple) and len(node.right.elts) == k:
        return node.right.elts
    return None


def _write(path, text):
    old = open(path).read() if os.path.exists(path) else None
    if old != text:
        os.makedirs(os.path.dirname(path), exist_ok=True)
        with open(path, "w") as fh:
            fh.write(text)
    return old != text


def generate(repo, out_path):
    tr = Translator(repo)
    text = tr.run()
    changed = _write(out_path, text)
    return tr, changed


if __name__ == "__main__":
    import sys
    repo = sys.argv[1] if len(sys.argv) > 1 else os.environ.get("VERIF_REPO", "/repo")
    out = sys.argv[2] if len(sys.argv) > 2 else os.path.join(os.path.dirname(os.path.abspath(__file__)),
                                                             "../../lean/GPVerif/Gen/MTIndex.lean")
    if out == "-":
        print(Translator(repo).run())
    else:
        tr, changed = generate(repo, os.path.abspath(out))
        print(f"branches={[b['name'] for b in tr.branches]} helpers={[h.lean_name for h in tr.helpers.values()]} changed={changed}")

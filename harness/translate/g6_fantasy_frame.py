"""G6 — Python-AST -> Lean translator for the detach / deepcopy / restore protocol of the fantasy methods (C04).

Reads `$VERIF_REPO/gpytorch/models/exact_gp.py` (`ExactGP.get_fantasy_model`) and
`gpytorch/likelihoods/gaussian_likelihood.py` (`FixedNoiseGaussianLikelihood.get_fantasy_likelihood`) and emits
`GPVerif/Gen/FantasyFrame.lean`: for each method the ordered list of *writes to attributes of `self`* (the source
object) as `Fantasy.Frame.Op`s:

    old_x = self.a          ->  .save  slot(old_x) attr(a)
    self.a = None           ->  .clear attr(a)
    v = deepcopy(self)      ->  .copy
    self.a = old_x          ->  .restore attr(a) slot(old_x)

Statements that do not write to `self` are not part of the frame model and are skipped.  Any other statement
that writes to / deletes an attribute of `self` (or calls `setattr/delattr/self.__dict__…`) is outside the
vocabulary and raises `TranslateError` (a broken tie, never silently skipped).
"""
import ast
import os


class TranslateError(Exception):
    pass


METHODS = [
    # (lean name, file, class, method)
    ("getFantasyModel", "gpytorch/models/exact_gp.py", "ExactGP", "get_fantasy_model"),
    ("fixedNoiseFantasyLikelihood", "gpytorch/likelihoods/gaussian_likelihood.py", "FixedNoiseGaussianLikelihood",
     "get_fantasy_likelihood"),
    ("dirichletFantasyLikelihood", "gpytorch/likelihoods/gaussian_likelihood.py", "DirichletClassificationLikelihood",
     "get_fantasy_likelihood"),
]


def _is_self_attr(node):
    return isinstance(node, ast.Attribute) and isinstance(node.value, ast.Name) and node.value.id == "self"


def _find_method(tree, cls, meth, path):
    for node in tree.body:
        if isinstance(node, ast.ClassDef) and node.name == cls:
            for it in node.body:
                if isinstance(it, ast.FunctionDef) and it.name == meth:
                    return it
    raise TranslateError(f"{path}: {cls}.{meth} not found")


def _flat_statements(fn):
    """All simple statements of the method in source order as (stmt, top) pairs; `top` is False inside
    if/for/while/with/except bodies.  A top-level `try: … finally: …` without handlers keeps its statements at top
    level and is bracketed by the markers "tryBegin" / "finallyBegin" / "tryEnd"."""
    out = []

    def walk(stmts, top, in_try):
        for s in stmts:
            if isinstance(s, ast.Try) and top and not in_try and not s.handlers and not s.orelse and s.finalbody:
                out.append(("tryBegin", True))
                walk(s.body, True, True)
                out.append(("finallyBegin", True))
                walk(s.finalbody, True, True)
                out.append(("tryEnd", True))
            elif isinstance(s, (ast.If, ast.For, ast.While, ast.With, ast.Try)):
                for fld in ("body", "orelse", "finalbody"):
                    walk(getattr(s, fld, []) or [], False, in_try)
                for h in getattr(s, "handlers", []) or []:
                    walk(h.body, False, in_try)
            else:
                out.append((s, top))
    walk(fn.body, True, False)
    return out


def translate_method(repo, lean_name, rel, cls, meth):
    path = os.path.join(repo, rel)
    tree = ast.parse(open(path).read(), filename=path)
    fn = _find_method(tree, cls, meth, path)
    attrs, slots, ops = [], [], []

    def aid(n):
        if n not in attrs:
            attrs.append(n)
        return attrs.index(n)

    def sid(n):
        if n not in slots:
            slots.append(n)
        return slots.index(n)

    for s, top in _flat_statements(fn):
        if isinstance(s, str):
            ops.append("." + s)
            continue
        where = f"{rel}:{s.lineno}"
        # forbidden ways of touching self that the vocabulary cannot express
        for sub in ast.walk(s):
            if isinstance(sub, ast.Call) and isinstance(sub.func, ast.Name) and sub.func.id in ("setattr", "delattr"):
                if sub.args and isinstance(sub.args[0], ast.Name) and sub.args[0].id == "self":
                    raise TranslateError(f"{where}: {sub.func.id}(self, …) is outside the frame vocabulary")
            if isinstance(sub, ast.Attribute) and _is_self_attr(sub.value) and sub.value.attr == "__dict__":
                raise TranslateError(f"{where}: self.__dict__ access is outside the frame vocabulary")
        if isinstance(s, ast.Delete):
            if any(_is_self_attr(t) for t in s.targets):
                raise TranslateError(f"{where}: `del self.x` is outside the frame vocabulary")
            continue
        if isinstance(s, ast.AugAssign):
            if _is_self_attr(s.target):
                raise TranslateError(f"{where}: augmented assignment to self.{s.target.attr}")
            continue
        if isinstance(s, ast.AnnAssign):
            targets, value = [s.target], s.value
        elif isinstance(s, ast.Assign):
            targets, value = s.targets, s.value
        else:
            continue
        if len(targets) != 1:
            if any(_is_self_attr(t) for t in targets):
                raise TranslateError(f"{where}: chained assignment to an attribute of self")
            continue
        tgt = targets[0]
        if isinstance(tgt, (ast.Tuple, ast.List)):
            if any(_is_self_attr(t) for t in ast.walk(tgt)):
                raise TranslateError(f"{where}: tuple assignment to an attribute of self")
            continue
        if _is_self_attr(tgt):
            if not top:
                raise TranslateError(f"{where}: conditional write to self.{tgt.attr}")
            if isinstance(value, ast.Constant) and value.value is None:
                ops.append(f".clear {aid(tgt.attr)}")
            elif isinstance(value, ast.Name) and value.id in slots:
                ops.append(f".restore {aid(tgt.attr)} {sid(value.id)}")
            else:
                raise TranslateError(f"{where}: write `self.{tgt.attr} = {ast.unparse(value)}` is neither "
                                     f"`= None` nor the restore of a saved local")
        elif isinstance(tgt, ast.Name):
            if _is_self_attr(value):
                # a local remembering an attribute of self; only recorded (as save) — harmless if never restored
                if not top:
                    continue
                ops.append(f".save {sid(tgt.id)} {aid(value.attr)}")
            elif (isinstance(value, ast.Call) and isinstance(value.func, ast.Name) and value.func.id == "deepcopy"
                  and len(value.args) == 1 and isinstance(value.args[0], ast.Name) and value.args[0].id == "self"):
                if not top:
                    raise TranslateError(f"{where}: conditional deepcopy(self)")
                ops.append(".copy")
            elif tgt.id in slots:
                raise TranslateError(f"{where}: saved local `{tgt.id}` is overwritten")
    ops = _prune_empty_try(ops)
    if ops.count(".copy") != 1:
        raise TranslateError(f"{rel}: {cls}.{meth}: expected exactly one deepcopy(self), found {ops.count('.copy')}")
    k = ops.index(".copy")
    detached = sorted({int(o.split()[1]) for o in ops[:k] if o.startswith(".clear")})
    return {"name": lean_name, "attrs": attrs, "slots": slots, "ops": ops, "detached": detached,
            "where": f"{rel}: {cls}.{meth}"}


def _prune_empty_try(ops):
    out, i = [], 0
    while i < len(ops):
        if ops[i] == ".tryBegin":
            j = ops.index(".tryEnd", i)
            inner = [o for o in ops[i + 1:j] if o != ".finallyBegin"]
            if not inner:
                i = j + 1
                continue
        out.append(ops[i])
        i += 1
    return out


def emit(descs):
    out = ["/-  GENERATED by harness/translate/g6_fantasy_frame.py from $VERIF_REPO — do not edit.  -/",
           "import GPVerif.Model.Fantasy", "", "namespace Gen.FantasyFrame", "open Fantasy.Frame", ""]
    for d in descs:
        out.append(f"/-- {d['where']}")
        out.append("attributes: " + ", ".join(f"{i} {a}" for i, a in enumerate(d["attrs"])))
        out.append("locals: " + ", ".join(f"{i} {a}" for i, a in enumerate(d["slots"])) + " -/")
        out.append(f"def {d['name']}Ops : List Op :=\n  [" + ", ".join(d["ops"]) + "]")
        out.append(f"def {d['name']}Detached : List Nat := [" + ", ".join(map(str, d["detached"])) + "]")
        out.append("")
    out.append("end Gen.FantasyFrame")
    return "\n".join(out) + "\n"


def generate(repo, out_path):
    descs = [translate_method(repo, *m) for m in METHODS]
    text = emit(descs)
    old = open(out_path).read() if os.path.exists(out_path) else None
    if old != text:
        os.makedirs(os.path.dirname(out_path), exist_ok=True)
        with open(out_path, "w") as fh:
            fh.write(text)
    return descs, old != text


if __name__ == "__main__":
    import sys
    repo = sys.argv[1] if len(sys.argv) > 1 else "/repo"
    out = sys.argv[2] if len(sys.argv) > 2 else os.path.join(os.path.dirname(__file__),
                                                             "../../lean/GPVerif/Gen/FantasyFrame.lean")
    descs, changed = generate(repo, os.path.abspath(out))
    for d in descs:
        print(d["name"], d["attrs"], d["ops"], "changed=" + str(changed))

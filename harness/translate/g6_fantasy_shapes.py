"""G6 (shape part) — Python-AST -> Lean translator for the *batch-shape choreography* of the fantasy methods (C04).

Reads from `$VERIF_REPO`

  gpytorch/models/exact_gp.py                       ExactGP.get_fantasy_model
  gpytorch/models/exact_prediction_strategies.py    DefaultPredictionStrategy.get_fantasy_strategy (inlined at its call)
  gpytorch/likelihoods/gaussian_likelihood.py       FixedNoiseGaussianLikelihood.get_fantasy_likelihood

and writes `lean/GPVerif/Gen/FantasyShapes.lean`: the statements of the three methods, in source order, as `FShapes.Op`
lists (`lean/GPVerif/Model/FantasyShapes.lean`) over the symbolic shapes `Choreo.SE` of `Model/ChoreoIR.lean`.

What is translated (everything that touches batch dimensions):
  * shape variables (`x.shape[:-k]`, `len(...)`, `a, b = len(s), len(t)`), their conditional re-binding
    (`if len(a) > len(b): b = a`), the `raise` guards (rank condition, `try: torch.broadcast_shapes`),
  * `expand(S + x.shape[-k:])`, `expand(S + x.shape)`, `expand(*y.shape[:-k], x.shape[-k])`, `view(*S, -1)`,
    `BatchRepeatLinearOperator(x, S + torch.Size([1] * n))`, `x.shape[:1]`,
  * every torch / linear_operator primitive that acts on the trailing dimensions of each batch element, with the rule by
    which it combines batch dimensions: broadcasting (`-`, `matmul`, `cholesky_solve`, the mat-vec `einsum` with its
    `prefix` idiom, slices `[..., a:, b:]`, `transpose(-2, -1)`, `unsqueeze(-1)`, `squeeze(-1)`, `psd_safe_cholesky`,
    `to_dense`, the prior `super().__call__`, the likelihood call), equality (`torch.cat(dim=-k)`), `cat_rows`,
  * rank tests (`if tbdim == ibdim + 1`, `if full_inputs[0].dim() <= full_targets.dim()`) whose bodies re-bind a variable
    in place.

What is abstracted (stated, trusted): lists of input tensors are one member; the multitask `isinstance` branches take the
single-task side (as `g7_fantasy_algebra`); the detach / deepcopy / restore statements belong to `g6_fantasy_frame`;
`settings.detach_test_caches` must give the same operation on both branches; the element-level meaning of a primitive is a
name (`FShapes.Prim`), its algebra is `g7_fantasy_algebra`'s business.  Anything else raises `TranslateError`.
"""
import ast
import copy
import os


class TranslateError(Exception):
    pass


def _fail(node, why):
    raise TranslateError(f"{why}: line {getattr(node, 'lineno', '?')}: {ast.unparse(node)[:160]}")


PRIM = {"ensure2d": 0, "priorMean": 3, "priorCovar": 4, "sliceMeanF": 5, "sliceFF": 6, "sliceFT": 7, "likCovar": 8,
        "rootInvDecomp": 9, "mT": 10, "matmul": 11, "sub": 12, "matvec": 13, "unsqLast": 14, "chol": 15, "cholSolve": 16,
        "sqLast": 17, "catRows": 18, "root": 19, "invRoot": 20, "toDense": 21}
PRIM_NAME = {v: k for k, v in PRIM.items()}


def prim_cat(k):
    return 100 + k


REG = {"trainX": 0, "trainY": 1, "xf": 2, "yf": 3, "theta": 4, "ltt": 5, "meanCache": 6, "kw": 7,
       "outTrainX": 10, "outTrainY": 11, "sTrainX": 12, "sMean": 13, "sCovar": 14, "sLabels": 15, "sRoot": 16,
       "sInvRoot": 17, "outMeanCache": 18, "outCovarCache": 19}
FIRST_LOCAL = 20
MT = "MultitaskMultivariateNormal"


def _int(node):
    if isinstance(node, ast.Constant) and isinstance(node.value, int) and not isinstance(node.value, bool):
        return node.value
    if isinstance(node, ast.UnaryOp) and isinstance(node.op, ast.USub) and isinstance(node.operand, ast.Constant) \
            and isinstance(node.operand.value, int):
        return -node.operand.value
    return None


def _method(repo, rel, cls, name):
    tree = ast.parse(open(os.path.join(repo, rel)).read())
    for n in tree.body:
        if isinstance(n, ast.ClassDef) and n.name == cls:
            for m in n.body:
                if isinstance(m, ast.FunctionDef) and m.name == name:
                    return m
    raise TranslateError(f"{rel}: {cls}.{name} not found")


# ------------------------------------------------------------------ translation state

class State:
    def __init__(self):
        self.ops = []
        self.next_t = FIRST_LOCAL
        self.shape_names = []      # shape register i <- python name (for the table in the generated file)
        self.nat_names = []
        self.bool_names = []
        self.reg_names = {}        # tensor register -> python text
        self.guard = None          # (bool register, value) while inside a rank-tested `if`
        self.pre = None            # hoisted pure ops while inside a guard

    def new_t(self, label):
        r = self.next_t
        self.next_t += 1
        self.reg_names[r] = label
        return r

    def new_s(self, label):
        self.shape_names.append(label)
        return len(self.shape_names) - 1

    def new_n(self, label):
        self.nat_names.append(label)
        return len(self.nat_names) - 1

    def new_b(self, label):
        self.bool_names.append(label)
        return len(self.bool_names) - 1

    def emit(self, op, node=None, pure=False):
        if self.guard is not None:
            if pure:
                self.pre.append(op)
                return
            if not inplace_ok(op):
                _fail(node or ast.Constant(0), f"statement under a rank test is not an in-place batch operation ({op})")
            op = ("when", self.guard[0], self.guard[1], op)
        self.ops.append(op)


def se_ok(se):
    return se[0] in ("arg", "self") or (se[0] == "cat" and se_ok(se[1]) and se_ok(se[2]))


def ne_ok(ne):
    return ne[0] in ("rankS", "nat") or (ne[0] == "dimT" and ne[2] == 0) or (ne[0] == "lit" and ne[1] == 0) \
        or (ne[0] == "add" and ne_ok(ne[1]) and ne_ok(ne[2]))


def inplace_ok(op):
    h = op[0]
    if h == "shapeSet":
        return se_ok(op[2])
    if h == "shapeFront":
        return True
    if h == "natSet":
        return ne_ok(op[2])
    if h == "expand":
        return op[1] == op[2] and se_ok(op[3])
    if h == "repeatB":
        return op[1] == op[2] and se_ok(op[3])
    return False


class Scope:
    """python names -> bindings.  Bindings:
    ("ten", reg, k)  tensor (k trailing element dimensions)      ("tlist", reg, k)  list of such tensors (one member)
    ("shape", i)     shape variable                              ("nat", i) / ("int", c)  integer variable / constant
    ("dist", mean, covar)  MultivariateNormal                    ("kwargs", reg | None)
    ("repshape", shape i, nat i)  `S + torch.Size([1] * n)`      ("obj", tag)  other recognised objects"""

    def __init__(self, st, kind):
        self.st = st
        self.kind = kind          # "model" | "strategy" | "lik"
        self.vars = {}
        self.var_reg = {}         # python variable -> its tensor register (re-assignments are in place)

    def reg_for(self, name):
        if name not in self.var_reg:
            self.var_reg[name] = self.st.new_t(f"{self.kind}:{name}")
        return self.var_reg[name]


# ------------------------------------------------------------------ expressions

def self_attr(node):
    return isinstance(node, ast.Attribute) and isinstance(node.value, ast.Name) and node.value.id == "self"


def tensor_leaf(node, sc):
    """names / attributes that denote tensors, tensor lists, distributions"""
    src = ast.unparse(node)
    if isinstance(node, ast.Name):
        b = sc.vars.get(node.id)
        if b is None:
            _fail(node, "unbound name")
        return b
    if sc.kind == "model":
        if src == "self.train_inputs":
            return ("tlist", REG["trainX"], 2)
        if src == "self.train_targets":
            return ("ten", REG["trainY"], 1)
    if sc.kind == "strategy":
        if src == "self.mean_cache":
            return ("ten", REG["meanCache"], 1)
        if src == "self.lik_train_train_covar":
            return ("ten", REG["ltt"], 2)
    if isinstance(node, ast.Attribute):
        b = None
        try:
            b = tensor_leaf(node.value, sc)
        except TranslateError:
            b = None
        if b is not None and b[0] == "dist":
            if node.attr in ("mean", "loc"):
                return ("ten", b[1], 1)
            if node.attr in ("lazy_covariance_matrix", "covariance_matrix"):
                return ("ten", b[2], 2)
        if b is not None and b[0] == "obj" and b[1] == "noise_covar" and node.attr == "noise":
            return ("ten", 0, 1)
    if isinstance(node, ast.Subscript) and _int(node.slice) == 0:
        b = tensor_leaf(node.value, sc)
        if b[0] == "tlist":
            return ("ten", b[1], b[2])
    _fail(node, "not a recognised tensor expression")


def is_tensorish(node, sc):
    try:
        b = tensor_leaf(node, sc)
    except TranslateError:
        return None
    return b if b[0] in ("ten", "tlist") else None


def _int_in(node, sc):
    v = _int(node)
    if v is None and sc is not None and isinstance(node, ast.Name) and sc.vars.get(node.id, (None,))[0] == "int":
        v = sc.vars[node.id][1]
    return v


def elem_dims_of(node, who_src, k, sc=None):
    """`x.shape[-k:]` of the tensor whose python text is `who_src`"""
    return (isinstance(node, ast.Subscript) and ast.unparse(node.value) == f"{who_src}.shape"
            and isinstance(node.slice, ast.Slice) and node.slice.upper is None and node.slice.step is None
            and node.slice.lower is not None and _int_in(node.slice.lower, sc) == -k)


def batch_shape_of(node, sc):
    """`x.shape[:-k]` with k = element rank of x  ->  (register, k)"""
    if isinstance(node, ast.Subscript) and isinstance(node.value, ast.Attribute) and node.value.attr == "shape" \
            and isinstance(node.slice, ast.Slice) and node.slice.lower is None and node.slice.step is None:
        up = node.slice.upper
        k = _int(up)
        if k is None and isinstance(up, ast.Name) and sc.vars.get(up.id, (None,))[0] == "int":
            k = sc.vars[up.id][1]
        b = is_tensorish(node.value.value, sc)
        if b is not None and k is not None and -k == b[2]:
            return b[1], b[2]
    return None


def shape_expr(node, sc, cur_src=None, cur_k=None):
    """shape expression -> SE; `cur_src` = python text of the tensor being expanded (its `.shape` is `.self`)"""
    st = sc.st
    if isinstance(node, ast.Name):
        b = sc.vars.get(node.id)
        if b is not None and b[0] == "shape":
            return ("arg", b[1])
        _fail(node, "not a shape variable")
    bs = batch_shape_of(node, sc)
    if bs is not None:
        # batch shape of another tensor: a (pure) shape variable is introduced for it
        i = st.new_s(ast.unparse(node))
        st.emit(("shapeOf", i, bs[0]), node, pure=True)
        return ("arg", i)
    if isinstance(node, ast.BinOp) and isinstance(node.op, ast.Add):
        left = shape_expr(node.left, sc, cur_src, cur_k)
        if cur_src is not None and ast.unparse(node.right) == f"{cur_src}.shape":
            return ("cat", left, ("self",))
        return ("cat", left, shape_expr(node.right, sc, cur_src, cur_k))
    _fail(node, "shape expression outside vocabulary")


def expand_target(call, sc, src_text, k):
    """arguments of `x.expand(...)` -> SE of the *batch* part (the trailing `k` dimensions must be x's own)"""
    args = call.args
    if call.keywords:
        _fail(call, "expand with keywords")
    if len(args) == 1 and not isinstance(args[0], ast.Starred):
        a = args[0]
        # S + x.shape[-k:]   |   S + x.shape
        if isinstance(a, ast.BinOp) and isinstance(a.op, ast.Add):
            if elem_dims_of(a.right, src_text, k, sc):
                return shape_expr(a.left, sc)
            if ast.unparse(a.right) == f"{src_text}.shape":
                return ("cat", shape_expr(a.left, sc), ("self",))
        _fail(call, "expand target outside vocabulary (expected `S + x.shape[-k:]` or `S + x.shape`)")
    # expand(*S, x.shape[-1], …)
    if args and isinstance(args[0], ast.Starred) and len(args) == 1 + k:
        for j, a in enumerate(args[1:]):
            want = -(k - j)
            if not (isinstance(a, ast.Subscript) and ast.unparse(a.value) == f"{src_text}.shape" and _int(a.slice) == want):
                _fail(call, "expand keeps a trailing dimension that is not the tensor's own")
        return shape_expr(args[0].value, sc)
    _fail(call, "expand target outside vocabulary")


def nat_expr(node, sc):
    if isinstance(node, ast.Name):
        b = sc.vars.get(node.id)
        if b is not None and b[0] == "nat":
            return ("nat", b[1])
        if b is not None and b[0] == "int" and b[1] >= 0:
            return ("lit", b[1])
        _fail(node, "not an integer variable")
    v = _int(node)
    if v is not None and v >= 0:
        return ("lit", v)
    if isinstance(node, ast.BinOp) and isinstance(node.op, ast.Add):
        return ("add", nat_expr(node.left, sc), nat_expr(node.right, sc))
    if isinstance(node, ast.Call) and ast.unparse(node.func) == "len" and len(node.args) == 1:
        a = node.args[0]
        if isinstance(a, ast.Name) and sc.vars.get(a.id, (None,))[0] == "shape":
            return ("rankS", sc.vars[a.id][1])
        bs = batch_shape_of(a, sc)
        if bs is not None:
            return ("dimT", bs[0], 0)
        _fail(node, "len() of something that is not a shape")
    if isinstance(node, ast.Call) and isinstance(node.func, ast.Attribute) and node.func.attr in ("dim", "ndimension") \
            and not node.args:
        b = is_tensorish(node.func.value, sc)
        if b is not None and b[0] == "ten":
            return ("dimT", b[1], b[2])
    _fail(node, "integer expression outside vocabulary")


def cond_expr(node, sc):
    if isinstance(node, ast.BoolOp):
        out = cond_expr(node.values[0], sc)
        for v in node.values[1:]:
            out = ("or" if isinstance(node.op, ast.Or) else "and", out, cond_expr(v, sc))
        return out
    if isinstance(node, ast.UnaryOp) and isinstance(node.op, ast.Not):
        return ("not", cond_expr(node.operand, sc))
    if isinstance(node, ast.Compare) and len(node.ops) == 1:
        a, b = nat_expr(node.left, sc), nat_expr(node.comparators[0], sc)
        op = node.ops[0]
        if isinstance(op, ast.Eq):
            return ("eq", a, b)
        if isinstance(op, ast.NotEq):
            return ("not", ("eq", a, b))
        if isinstance(op, ast.Lt):
            return ("lt", a, b)
        if isinstance(op, ast.Gt):
            return ("lt", b, a)
        if isinstance(op, ast.LtE):
            return ("le", a, b)
        if isinstance(op, ast.GtE):
            return ("le", b, a)
    _fail(node, "condition outside vocabulary")


def is_rank_test(node, sc):
    try:
        sc2 = copy.copy(sc)
        st2 = copy.deepcopy(sc.st)
        sc2.st = st2
        cond_expr(node, sc2)
        return True
    except TranslateError:
        return False


def slice_prim(node, sc):
    """`full_mean[..., num_train:]`, `full_covar[..., num_train:, num_train:]`, `full_covar[..., num_train:, :num_train]`"""
    if not isinstance(node.slice, ast.Tuple):
        return None
    el = node.slice.elts
    if not (el and isinstance(el[0], ast.Constant) and el[0].value is Ellipsis):
        return None

    def kind(s):
        if not isinstance(s, ast.Slice) or s.step is not None:
            return None
        lo = ast.unparse(s.lower) if s.lower is not None else None
        up = ast.unparse(s.upper) if s.upper is not None else None
        if lo == "num_train" and up is None:
            return "from"
        if lo is None and up == "num_train":
            return "to"
        return None
    kinds = [kind(s) for s in el[1:]]
    if kinds == ["from"]:
        return "sliceMeanF", 1
    if kinds == ["from", "from"]:
        return "sliceFF", 2
    if kinds == ["from", "to"]:
        return "sliceFT", 2
    return None


def tensor_expr(node, sc, dst=None, label=None):
    """translate a tensor-valued expression; emits ops; returns (register, element rank)"""
    st = sc.st

    def out(lbl):
        return dst if dst is not None else st.new_t(lbl or label or ast.unparse(node)[:40])

    b = is_tensorish(node, sc)
    if b is not None and b[0] == "ten":
        if dst is not None and dst != b[1]:
            st.emit(("copy", dst, b[1]), node)
            return dst, b[2]
        return b[1], b[2]
    # x - y
    if isinstance(node, ast.BinOp) and isinstance(node.op, ast.Sub):
        a, ka = tensor_expr(node.left, sc)
        c, kc = tensor_expr(node.right, sc)
        if ka != kc:
            _fail(node, "subtraction of tensors with different element ranks")
        r = out("sub")
        st.emit(("nary", r, [a, c], "bcast", PRIM["sub"]), node)
        return r, ka
    if isinstance(node, ast.Subscript):
        sp = slice_prim(node, sc)
        if sp is not None:
            a, ka = tensor_expr(node.value, sc)
            if ka != sp[1]:
                _fail(node, "slice of a tensor with unexpected element rank")
            r = out(sp[0])
            st.emit(("nary", r, [a], "bcast", PRIM[sp[0]]), node)
            return r, ka
        _fail(node, "subscript outside vocabulary")
    if isinstance(node, ast.Call):
        fn = ast.unparse(node.func)
        kw = {k.arg: k.value for k in node.keywords}
        if fn == "to_dense" and len(node.args) == 1 and not kw:
            a, ka = tensor_expr(node.args[0], sc)
            r = out("to_dense")
            st.emit(("nary", r, [a], "bcast", PRIM["toDense"]), node)
            return r, ka
        if fn == "psd_safe_cholesky" and len(node.args) == 1 and not kw:
            a, ka = tensor_expr(node.args[0], sc)
            r = out("chol")
            st.emit(("nary", r, [a], "bcast", PRIM["chol"]), node)
            return r, 2
        if fn == "torch.cholesky_solve" and len(node.args) == 2 and not kw:
            a, ka = tensor_expr(node.args[0], sc)
            c, kc = tensor_expr(node.args[1], sc)
            if (ka, kc) != (2, 2):
                _fail(node, "cholesky_solve of non-matrices")
            r = out("cholesky_solve")
            st.emit(("nary", r, [a, c], "bcast", PRIM["cholSolve"]), node)
            return r, 2
        if fn == "torch.cat" and len(node.args) >= 1:
            seq = node.args[0]
            d = _int(kw["dim"]) if "dim" in kw else (_int(node.args[1]) if len(node.args) == 2 else None)
            if d is None and "dim" in kw and isinstance(kw["dim"], ast.Name) and sc.vars.get(kw["dim"].id, (0,))[0] == "int":
                d = sc.vars[kw["dim"].id][1]
            if not isinstance(seq, (ast.List, ast.Tuple)) or d is None or d >= 0:
                _fail(node, "torch.cat outside vocabulary (literal sequence and negative dim expected)")
            parts = [tensor_expr(e, sc) for e in seq.elts]
            ks = {k for _, k in parts}
            if len(ks) != 1 or -d > parts[0][1]:
                _fail(node, "torch.cat along a batch dimension / of mixed element ranks")
            r = out("cat")
            st.emit(("nary", r, [p for p, _ in parts], "equal", prim_cat(-d)), node)
            return r, parts[0][1]
        if fn == "torch.einsum":
            return einsum_expr(node, sc, out)
        if fn == "BatchRepeatLinearOperator" and len(node.args) == 2 and not kw:
            rs = node.args[1]
            b2 = sc.vars.get(rs.id) if isinstance(rs, ast.Name) else None
            if b2 is None or b2[0] != "repshape":
                _fail(node, "BatchRepeatLinearOperator with an unknown repeat shape")
            a, ka = tensor_expr(node.args[0], sc)
            r = out("batch_repeat")
            st.emit(("repeatB", r, a, ("arg", b2[1]), b2[2]), node)
            return r, ka
        if isinstance(node.func, ast.Attribute):
            m = node.func.attr
            recv = node.func.value
            # chains on linear operators: x.root_decomposition().root etc. are handled through Attribute below
            if m == "expand":
                a, ka = tensor_expr(recv, sc)
                se = expand_target(node, sc, ast.unparse(recv), ka)
                r = out("expand")
                st.emit(("expand", r, a, se), node)
                return r, ka
            if m == "unsqueeze" and len(node.args) == 1 and _int(node.args[0]) == -1 and not kw:
                a, ka = tensor_expr(recv, sc)
                r = out("unsqueeze")
                st.emit(("nary", r, [a], "bcast", PRIM["unsqLast"]), node)
                return r, ka + 1
            if m == "squeeze" and len(node.args) == 1 and _int(node.args[0]) == -1 and not kw:
                a, ka = tensor_expr(recv, sc)
                if ka < 2:
                    _fail(node, "squeeze(-1) would remove a batch dimension")
                r = out("squeeze")
                st.emit(("nary", r, [a], "bcast", PRIM["sqLast"]), node)
                return r, ka - 1
            if m == "transpose" and sorted(_int(x) for x in node.args) == [-2, -1] and not kw:
                a, ka = tensor_expr(recv, sc)
                if ka != 2:
                    _fail(node, "transpose of a non-matrix")
                r = out("mT")
                st.emit(("nary", r, [a], "bcast", PRIM["mT"]), node)
                return r, 2
            if m == "matmul" and len(node.args) == 1 and not kw:
                a, ka = tensor_expr(recv, sc)
                c, kc = tensor_expr(node.args[0], sc)
                if (ka, kc) != (2, 2):
                    _fail(node, "matmul of non-matrices")
                r = out("matmul")
                st.emit(("nary", r, [a, c], "bcast", PRIM["matmul"]), node)
                return r, 2
            if m == "view" and len(node.args) == 2 and isinstance(node.args[0], ast.Starred) and _int(node.args[1]) == -1 \
                    and not kw:
                a, ka = tensor_expr(recv, sc)
                if ka != 1:
                    _fail(node, "view(*S, -1) of a tensor that is not a batch of vectors")
                se = shape_expr(node.args[0].value, sc)
                r = out("view")
                st.emit(("viewB", r, a, se), node)
                return r, 1
            if m == "root_inv_decomposition" and not node.args and not kw:
                a, ka = tensor_expr(recv, sc)
                r = out("root_inv_decomposition")
                st.emit(("nary", r, [a], "bcast", PRIM["rootInvDecomp"]), node)
                return r, 2
            if m == "cat_rows" and len(node.args) == 2 and not kw:
                a, _ = tensor_expr(recv, sc)
                c, _ = tensor_expr(node.args[0], sc)
                e, _ = tensor_expr(node.args[1], sc)
                r = out("cat_rows")
                st.emit(("nary", r, [a, c, e], "catRows", PRIM["catRows"]), node)
                return r, 2
            if m in ("detach", "contiguous") and not node.args and not kw:
                return tensor_expr(recv, sc, dst, label)
            if m == "to_dense" and not node.args and not kw:
                a, ka = tensor_expr(recv, sc)
                r = out("to_dense")
                st.emit(("nary", r, [a], "bcast", PRIM["toDense"]), node)
                return r, ka
    if isinstance(node, ast.Attribute) and node.attr == "root" and isinstance(node.value, ast.Call) \
            and isinstance(node.value.func, ast.Attribute) and not node.value.args and not node.value.keywords:
        which = node.value.func.attr
        if which in ("root_decomposition", "root_inv_decomposition"):
            a, _ = tensor_expr(node.value.func.value, sc)
            r = out(which)
            st.emit(("nary", r, [a], "bcast", PRIM["root" if which == "root_decomposition" else "invRoot"]), node)
            return r, 2
    _fail(node, "tensor expression outside vocabulary")


def einsum_expr(node, sc, out):
    """`torch.einsum(prefix + "...yz,...z->" + prefix + "...y", [A, v])` with
    `prefix = string.ascii_lowercase[: max(A.dim() - v.dim() - 1, 0)]` is the batch-broadcasting mat-vec product"""
    if len(node.args) != 2 or node.keywords or not isinstance(node.args[1], (ast.List, ast.Tuple)) \
            or len(node.args[1].elts) != 2:
        _fail(node, "einsum outside vocabulary")
    A, v = node.args[1].elts
    spec = ast.unparse(node.args[0])
    if spec != "prefix + '...yz,...z->' + prefix + '...y'":
        _fail(node, "einsum equation outside vocabulary")
    b = sc.vars.get("prefix")
    if b is None or b[0] != "prefix" or b[1] != (ast.unparse(A), ast.unparse(v)):
        _fail(node, "einsum prefix is not the batch-prefix idiom of its own operands")
    a, ka = tensor_expr(A, sc)
    c, kc = tensor_expr(v, sc)
    if (ka, kc) != (2, 1):
        _fail(node, "einsum operands are not (matrix, vector)")
    r = out("matvec")
    sc.st.emit(("nary", r, [a, c], "bcast", PRIM["matvec"]), node)
    return r, 1


# ------------------------------------------------------------------ statements

def list_comp(node, sc, dst, label):
    """list comprehension over a list of tensors (one member modelled) -> (register, k)"""
    if len(node.generators) != 1 or node.generators[0].ifs:
        _fail(node, "comprehension outside vocabulary")
    g = node.generators[0]
    inner = copy.copy(sc)
    inner.vars = dict(sc.vars)
    it = g.iter
    if isinstance(g.target, ast.Name):
        b = is_tensorish(it, sc)
        if b is None or b[0] != "tlist":
            _fail(node, "comprehension over something that is not a tensor list")
        inner.vars[g.target.id] = ("ten", b[1], b[2])
    elif isinstance(g.target, ast.Tuple) and isinstance(it, ast.Call) and ast.unparse(it.func) in ("length_safe_zip", "zip") \
            and len(it.args) == len(g.target.elts):
        for t, a in zip(g.target.elts, it.args):
            b = is_tensorish(a, sc)
            if b is None or b[0] != "tlist" or not isinstance(t, ast.Name):
                _fail(node, "zip over something that is not a tensor list")
            inner.vars[t.id] = ("ten", b[1], b[2])
    else:
        _fail(node, "comprehension target outside vocabulary")
    elt = node.elt
    # i.unsqueeze(-1) if i.ndimension() == 1 else i
    if isinstance(elt, ast.IfExp):
        nm = g.target.id if isinstance(g.target, ast.Name) else None
        if nm is not None and ast.unparse(elt) == f"{nm}.unsqueeze(-1) if {nm}.ndimension() == 1 else {nm}":
            src = inner.vars[nm]
            sc.st.emit(("nary", dst, [src[1]], "bcast", PRIM["ensure2d"]), node)
            return dst, 2
        _fail(node, "conditional element outside vocabulary")
    r, k = tensor_expr(elt, inner, dst, label)
    return r, k


def assign_tensor(name, value, sc, node, fixed_dst=None):
    dst = fixed_dst if fixed_dst is not None else sc.reg_for(name)
    if isinstance(value, ast.ListComp):
        r, k = list_comp(value, sc, dst, name)
        sc.vars[name] = ("tlist", r, k)
    else:
        r, k = tensor_expr(value, sc, dst, name)
        sc.vars[name] = ("ten", r, k)
    return r, k


def run_guarded(sc, breg, val, stmts, handler):
    st = sc.st
    if st.guard is not None:
        _fail(stmts[0], "nested rank tests")
    st.guard, st.pre = (breg, val), []
    body_start = len(st.ops)
    try:
        for s in stmts:
            handler(s)
    finally:
        pre = st.pre
        st.guard, st.pre = None, None
    # hoist the pure shape reads in front of the guarded statements
    st.ops[body_start:body_start] = pre


def frame_stmt(s):
    """statements of the detach / deepcopy / restore protocol (translated by g6_fantasy_frame)"""
    src = ast.unparse(s)
    attrs = ("prediction_strategy", "train_inputs", "train_targets", "likelihood", "noise_covar")
    if isinstance(s, ast.Assign) and len(s.targets) == 1:
        t, v = s.targets[0], s.value
        if isinstance(t, ast.Name) and t.id.startswith("old_") and self_attr(v) and v.attr in attrs:
            return "save"
        if self_attr(t) and t.attr in attrs and ((isinstance(v, ast.Constant) and v.value is None)
                                                 or (isinstance(v, ast.Name) and v.id.startswith("old_"))):
            return "detach"
        if isinstance(t, ast.Name) and ast.unparse(v) == "deepcopy(self)":
            return "copy"
    if isinstance(s, ast.Try) and not s.handlers and not s.orelse and all(frame_stmt(x) for x in s.body + s.finalbody):
        return "try"
    return None


def tr_model(repo, st):
    fn = _method(repo, "gpytorch/models/exact_gp.py", "ExactGP", "get_fantasy_model")
    sc = Scope(st, "model")
    a = [x.arg for x in fn.args.args]
    if a != ["self", "inputs", "targets"] or fn.args.kwarg is None or fn.args.kwarg.arg != "kwargs":
        _fail(fn, "signature of get_fantasy_model changed")
    sc.vars["inputs"] = ("tlist", REG["xf"], 2)
    sc.vars["targets"] = ("ten", REG["yf"], 1)
    sc.vars["kwargs"] = ("kwargs", REG["kw"])
    st.reg_names.update({v: k for k, v in REG.items()})
    saved = {}
    seen = {"strategy": False, "ret": False, "out_x": False, "out_y": False}

    def stmt(s):
        src = ast.unparse(s)
        if isinstance(s, ast.Expr) and isinstance(s.value, ast.Constant):
            return
        if isinstance(s, ast.If) and ast.unparse(s.test) == "self.prediction_strategy is None" and not s.orelse \
                and all(isinstance(x, ast.Raise) for x in s.body):
            return
        if src == "if not isinstance(inputs, list):\n    inputs = [inputs]":
            return
        fk = frame_stmt(s)
        if fk is not None:
            if fk == "save":
                saved[s.targets[0].id] = s.value.attr
            return
        if isinstance(s, ast.Try) and src.replace('"', "'") == ("try:\n    fantasy_kwargs = {'noise': kwargs.pop('noise')}\n"
                                                               "except KeyError:\n    fantasy_kwargs = {}"):
            sc.vars["fantasy_kwargs"] = ("kwargs", REG["kw"])
            sc.vars["kwargs"] = ("kwargs", None)
            return
        # try: torch.broadcast_shapes(a, b) except RuntimeError: raise
        if isinstance(s, ast.Try) and len(s.body) == 1 and isinstance(s.body[0], ast.Expr) and len(s.handlers) == 1 \
                and not s.orelse and not s.finalbody and all(isinstance(x, ast.Raise) for x in s.handlers[0].body):
            c = s.body[0].value
            if isinstance(c, ast.Call) and ast.unparse(c.func) == "torch.broadcast_shapes" and len(c.args) == 2:
                x, y = (shape_expr(q, sc) for q in c.args)
                if x[0] != "arg" or y[0] != "arg":
                    _fail(s, "broadcast_shapes of something that is not a shape variable")
                st.emit(("guardBcast", x[1], y[1]), s)
                return
            _fail(s, "try statement outside vocabulary")
        if isinstance(s, ast.If):
            return if_stmt(s)
        if isinstance(s, ast.Return):
            if ast.unparse(s.value) != "new_model":
                _fail(s, "return value")
            seen["ret"] = True
            return
        if isinstance(s, ast.Assign) and len(s.targets) == 1:
            t, v = s.targets[0], s.value
            # a, b = len(s), len(t)
            if isinstance(t, ast.Tuple) and isinstance(v, ast.Tuple) and len(t.elts) == len(v.elts) \
                    and all(isinstance(x, ast.Name) for x in t.elts):
                for tn, vv in zip(t.elts, v.elts):
                    ne = nat_expr(vv, sc)
                    i = st.new_n(tn.id)
                    st.emit(("natSet", i, ne), s)
                    sc.vars[tn.id] = ("nat", i)
                return
            if isinstance(t, ast.Name):
                bs = batch_shape_of(v, sc)
                if bs is not None:
                    i = sc.vars[t.id][1] if sc.vars.get(t.id, (0,))[0] == "shape" else st.new_s(t.id)
                    st.emit(("shapeOf", i, bs[0]), s)
                    sc.vars[t.id] = ("shape", i)
                    return
                if isinstance(v, ast.Name) and sc.vars.get(v.id, (0,))[0] == "shape":
                    if sc.vars.get(t.id, (0,))[0] != "shape":
                        sc.vars[t.id] = ("shape", st.new_s(t.id))
                    st.emit(("shapeSet", sc.vars[t.id][1], ("arg", sc.vars[v.id][1])), s)
                    return
                if _int(v) is not None:
                    sc.vars[t.id] = ("int", _int(v))
                    return
                # the joint prior, evaluated with the model's own (or, since 975fbb8, the copied) mean / kernel modules:
                # either way the hyper-parameters of replica b
                if src in ("full_output = super().__call__(*full_inputs, **kwargs)",
                           "full_output = super(ExactGP, new_model).__call__(*full_inputs, **kwargs)"):
                    if sc.vars.get("kwargs") != ("kwargs", None):
                        _fail(s, "the prior is called with the fantasy noise still in kwargs")
                    fi = sc.vars["full_inputs"]
                    m, c = st.new_t("full_output.mean"), st.new_t("full_output.lazy_covariance_matrix")
                    st.emit(("nary", m, [REG["theta"], fi[1]], "bcast", PRIM["priorMean"]), s)
                    st.emit(("nary", c, [REG["theta"], fi[1]], "bcast", PRIM["priorCovar"]), s)
                    sc.vars["full_output"] = ("dist", m, c)
                    return
                assign_tensor(t.id, v, sc, s)
                return
            if isinstance(t, ast.Attribute) and isinstance(t.value, ast.Name) and t.value.id == "new_model":
                if t.attr == "likelihood":
                    if src != "new_model.likelihood = old_likelihood.get_fantasy_likelihood(**fantasy_kwargs)" \
                            or saved.get("old_likelihood") != "likelihood":
                        _fail(s, "fantasy likelihood construction changed")
                    return
                if t.attr == "prediction_strategy":
                    want = ("old_pred_strat.get_fantasy_strategy(inputs, targets, full_inputs, full_targets, full_output, "
                            "**fantasy_kwargs)")
                    if ast.unparse(v) != want or saved.get("old_pred_strat") != "prediction_strategy":
                        _fail(s, "call of get_fantasy_strategy changed")
                    tr_strategy(repo, st, sc)
                    seen["strategy"] = True
                    return
                if t.attr == "train_targets":
                    b = is_tensorish(v, sc)
                    if b is None or b[0] != "ten":
                        _fail(s, "train_targets of the new model")
                    st.emit(("copy", REG["outTrainY"], b[1]), s)
                    seen["out_y"] = True
                    return
                if t.attr == "train_inputs":
                    out_inputs(v, s)
                    return
        _fail(s, "statement outside vocabulary")

    def out_inputs(v, s):
        if isinstance(v, ast.ListComp):
            r, k = list_comp(v, sc, REG["outTrainX"], "new_model.train_inputs")
        else:
            b = is_tensorish(v, sc)
            if b is None:
                _fail(s, "train_inputs of the new model")
            st.emit(("copy", REG["outTrainX"], b[1]), s)
        seen["out_x"] = True

    def if_stmt(s):
        test = s.test
        src_t = ast.unparse(test)
        # multitask vs single task: take the single-task side
        inner = test.operand if isinstance(test, ast.UnaryOp) and isinstance(test.op, ast.Not) else test
        if isinstance(inner, ast.Call) and ast.unparse(inner.func) == "isinstance" and ast.unparse(inner.args[1]) == MT:
            side = s.body if inner is not test else s.orelse
            for x in side:
                stmt(x)
            return
        # if not (rank condition): raise
        if not s.orelse and all(isinstance(x, ast.Raise) for x in s.body):
            c = cond_expr(test, sc)
            c = c[1] if c[0] == "not" else ("not", c)
            st.emit(("guard", c), s)
            return
        if is_rank_test(test, sc):
            c = cond_expr(test, sc)
            b = st.new_b(src_t)
            # `X = <expand of Y>` / else `X = Y`: the alias first, then the guarded in-place expand
            if s.orelse:
                if not (len(s.body) == 1 and len(s.orelse) == 1 and isinstance(s.body[0], ast.Assign)
                        and isinstance(s.orelse[0], ast.Assign)
                        and ast.unparse(s.body[0].targets[0]) == ast.unparse(s.orelse[0].targets[0]) == "new_model.train_inputs"):
                    _fail(s, "if/else under a rank test outside vocabulary")
                alias = s.orelse[0].value
                ba = is_tensorish(alias, sc)
                if ba is None or ba[0] != "tlist":
                    _fail(s, "else branch is not a plain alias of a tensor list")
                st.emit(("copy", REG["outTrainX"], ba[1]), s)
                st.emit(("test", b, c), s)
                # the body must expand that same list
                body_v = s.body[0].value
                if not (isinstance(body_v, ast.ListComp) and ast.unparse(body_v.generators[0].iter) == ast.unparse(alias)):
                    _fail(s, "then branch does not transform the list the else branch aliases")
                scb = copy.copy(sc)
                scb.vars = dict(sc.vars)
                scb.vars[ast.unparse(alias)] = ("tlist", REG["outTrainX"], ba[2])
                run_guarded(sc, b, True, [body_v], lambda bv: list_comp(bv, scb, REG["outTrainX"], "new_model.train_inputs"))
                seen["out_x"] = True
                return
            st.emit(("test", b, c), s)
            run_guarded(sc, b, True, s.body, guarded_stmt)
            return
        _fail(s, "if statement outside vocabulary")

    def guarded_stmt(s):
        if isinstance(s, ast.Assign) and len(s.targets) == 1 and isinstance(s.targets[0], ast.Name) \
                and isinstance(s.value, ast.Name) and sc.vars.get(s.value.id, (0,))[0] == "shape" \
                and sc.vars.get(s.targets[0].id, (0,))[0] == "shape":
            st.emit(("shapeSet", sc.vars[s.targets[0].id][1], ("arg", sc.vars[s.value.id][1])), s)
            return
        _fail(s, "statement under a rank test outside vocabulary")

    for s in fn.body:
        stmt(s)
    if not all(seen.values()):
        raise TranslateError(f"get_fantasy_model: missing parts {[k for k, v in seen.items() if not v]}")


def tr_strategy(repo, st, caller):
    """`DefaultPredictionStrategy.get_fantasy_strategy`, inlined at its call"""
    fn = _method(repo, "gpytorch/models/exact_prediction_strategies.py", "DefaultPredictionStrategy", "get_fantasy_strategy")
    a = [x.arg for x in fn.args.args]
    if a != ["self", "inputs", "targets", "full_inputs", "full_targets", "full_output"] or fn.args.kwarg is None \
            or fn.args.kwarg.arg != "kwargs":
        _fail(fn, "signature of get_fantasy_strategy changed")
    sc = Scope(st, "strategy")
    assigned = {t.id for n in ast.walk(fn) if isinstance(n, ast.Assign) for t in n.targets if isinstance(t, ast.Name)}
    for p in a[1:]:
        b = caller.vars[p]
        if b[0] in ("ten", "tlist") and p in assigned:
            # the callee re-binds its own local name: the caller's value is not affected
            r = sc.reg_for(p)
            st.emit(("copy", r, b[1]), fn)
            b = (b[0], r, b[2])
        sc.vars[p] = b
    sc.vars["kwargs"] = caller.vars["fantasy_kwargs"]
    seen = {"strat": False, "mean_cache": False, "covar_cache": False, "ret": False}

    def stmt(s):
        src = ast.unparse(s)
        if isinstance(s, ast.Expr) and isinstance(s.value, ast.Constant):
            return
        if src in ("num_train = self.num_train", "self.fantasy_inputs = inputs", "self.fantasy_targets = targets"):
            return
        if src == "fant_likelihood = self.likelihood.get_fantasy_likelihood(**kwargs)":
            sc.vars["fant_likelihood"] = ("obj", "fant_likelihood")
            return
        if isinstance(s, ast.If):
            return if_stmt(s)
        if isinstance(s, ast.Return):
            if ast.unparse(s.value) != "fant_strat":
                _fail(s, "return value")
            seen["ret"] = True
            return
        if isinstance(s, ast.Expr) and isinstance(s.value, ast.Call) and ast.unparse(s.value.func) == "add_to_cache" \
                and len(s.value.args) == 3 and ast.unparse(s.value.args[0]) == "fant_strat":
            key = s.value.args[1].value if isinstance(s.value.args[1], ast.Constant) else None
            if key == "mean_cache":
                tensor_expr(s.value.args[2], sc, REG["outMeanCache"])
                seen["mean_cache"] = True
                return
            if key == "covar_cache":
                tensor_expr(s.value.args[2], sc, REG["outCovarCache"])
                seen["covar_cache"] = True
                return
            _fail(s, "add_to_cache with an unknown key")
        if isinstance(s, ast.Assign) and len(s.targets) == 1:
            t, v = s.targets[0], s.value
            if isinstance(t, ast.Tuple) and isinstance(v, ast.Tuple) and len(t.elts) == len(v.elts):
                for tn, vv in zip(t.elts, v.elts):
                    assign_tensor(tn.id, vv, sc, s)
                return
            if isinstance(t, ast.Name):
                bs = batch_shape_of(v, sc)
                if bs is not None:
                    i = st.new_s("strategy:" + t.id)
                    st.emit(("shapeOf", i, bs[0]), s)
                    sc.vars[t.id] = ("shape", i)
                    return
                # x.shape[:1]
                if isinstance(v, ast.Subscript) and isinstance(v.value, ast.Attribute) and v.value.attr == "shape" \
                        and isinstance(v.slice, ast.Slice) and v.slice.lower is None and v.slice.step is None \
                        and _int(v.slice.upper) is not None and _int(v.slice.upper) > 0:
                    b = is_tensorish(v.value.value, sc)
                    if b is None or b[0] != "ten":
                        _fail(s, "leading dimensions of an unknown tensor")
                    i = st.new_s("strategy:" + t.id)
                    st.emit(("shapeFront", i, b[1], _int(v.slice.upper)), s)
                    sc.vars[t.id] = ("shape", i)
                    return
                if t.id == "prefix":
                    want = "string.ascii_lowercase[:max({A}.dim() - {v}.dim() - 1, 0)]"
                    for A_, v_ in (("fant_train_covar", "self.mean_cache"),):
                        if ast.unparse(v) == want.format(A=A_, v=v_):
                            sc.vars["prefix"] = ("prefix", (A_, v_))
                            return
                    _fail(s, "einsum prefix idiom changed")
                if ast.unparse(v).startswith("len("):
                    ne = nat_expr(v, sc)
                    i = st.new_n("strategy:" + t.id)
                    st.emit(("natSet", i, ne), s)
                    sc.vars[t.id] = ("nat", i)
                    return
                # S + torch.Size([1] * n)
                if isinstance(v, ast.BinOp) and isinstance(v.op, ast.Add) and isinstance(v.left, ast.Name) \
                        and sc.vars.get(v.left.id, (0,))[0] == "shape" and isinstance(v.right, ast.Call) \
                        and ast.unparse(v.right.func) == "torch.Size" and len(v.right.args) == 1:
                    inner = v.right.args[0]
                    if isinstance(inner, ast.BinOp) and isinstance(inner.op, ast.Mult) and ast.unparse(inner.left) == "[1]" \
                            and isinstance(inner.right, ast.Name) and sc.vars.get(inner.right.id, (0,))[0] == "nat":
                        sc.vars[t.id] = ("repshape", sc.vars[v.left.id][1], sc.vars[inner.right.id][1])
                        return
                    _fail(s, "repeat shape outside vocabulary")
                if src == "mvn = self.train_prior_dist.__class__(fant_mean, fant_fant_covar)":
                    sc.vars["mvn"] = ("dist", sc.vars["fant_mean"][1], sc.vars["fant_fant_covar"][1])
                    return
                if src == "mvn_obs = fant_likelihood(mvn, inputs, **kwargs)":
                    mvn, inp, kw = sc.vars["mvn"], sc.vars["inputs"], sc.vars["kwargs"]
                    if kw[1] is None or sc.vars.get("fant_likelihood") is None:
                        _fail(s, "fantasy likelihood call without the fantasy kwargs")
                    c = st.new_t("mvn_obs.covariance_matrix")
                    st.emit(("nary", c, [mvn[2], REG["theta"], inp[1], kw[1]], "bcast", PRIM["likCovar"]), s)
                    sc.vars["mvn_obs"] = ("dist", mvn[1], c)
                    return
                if t.id == "fant_strat":
                    return new_strategy(v, s)
                assign_tensor(t.id, v, sc, s)
                return
        _fail(s, "statement outside vocabulary")

    def new_strategy(v, s):
        want = ("self.__class__(train_inputs=full_inputs, train_prior_dist=self.train_prior_dist.__class__(full_mean, "
                "full_covar), train_labels=full_targets, likelihood=fant_likelihood, root=new_root, inv_root=new_covar_cache)")
        if ast.unparse(v) != want:
            _fail(s, "construction of the fantasy strategy changed")
        for out, name in (("sTrainX", "full_inputs"), ("sMean", "full_mean"), ("sCovar", "full_covar"),
                          ("sLabels", "full_targets"), ("sRoot", "new_root"), ("sInvRoot", "new_covar_cache")):
            st.emit(("copy", REG[out], sc.vars[name][1]), s)
        seen["strat"] = True

    def if_stmt(s):
        test = s.test
        inner = test.operand if isinstance(test, ast.UnaryOp) and isinstance(test.op, ast.Not) else test
        if isinstance(inner, ast.Call) and ast.unparse(inner.func) == "isinstance" and ast.unparse(inner.args[1]) == MT:
            side = s.body if inner is not test else s.orelse
            for x in side:
                stmt(x)
            return
        if ast.unparse(test) == "settings.detach_test_caches.on()":
            # both branches must be the same operation (detach is not a shape operation)
            res = []
            for side in (s.body, s.orelse):
                st2 = copy.deepcopy(st)
                sc2 = copy.copy(sc)
                sc2.st, sc2.vars, sc2.var_reg = st2, dict(sc.vars), dict(sc.var_reg)
                n0 = len(st2.ops)
                for x in side:
                    _with(sc2, stmt_in, x)
                res.append(st2.ops[n0:])
            if res[0] != res[1]:
                _fail(s, "the branches of settings.detach_test_caches differ in a shape operation")
            for x in s.body:
                stmt(x)
            return
        if is_rank_test(test, sc) and not s.orelse:
            c = cond_expr(test, sc)
            b = st.new_b(ast.unparse(test))
            st.emit(("test", b, c), s)
            run_guarded(sc, b, True, s.body, stmt)
            return
        _fail(s, "if statement outside vocabulary")

    def stmt_in(sc2, x):
        # re-entrant variant used for the two-branch comparison
        nonlocal sc
        old = sc
        sc = sc2
        try:
            stmt(x)
        finally:
            sc = old

    def _with(sc2, f, x):
        f(sc2, x)

    for s in fn.body:
        stmt(s)
    if not all(seen.values()):
        raise TranslateError(f"get_fantasy_strategy: missing parts {[k for k, v in seen.items() if not v]}")


def tr_fixed_noise(repo):
    """`FixedNoiseGaussianLikelihood.get_fantasy_likelihood`: old noise (register 0), new noise (1) -> noise (10)"""
    fn = _method(repo, "gpytorch/likelihoods/gaussian_likelihood.py", "FixedNoiseGaussianLikelihood", "get_fantasy_likelihood")
    st = State()
    sc = Scope(st, "lik")
    st.reg_names.update({0: "self.noise_covar.noise", 1: "kwargs['noise']", 10: "fantasy_likelihood.noise_covar.noise"})
    done = {"out": False}

    def stmt(s):
        src = ast.unparse(s).replace('"', "'")
        if isinstance(s, ast.Expr) and isinstance(s.value, ast.Constant):
            return
        if isinstance(s, ast.If) and src.startswith("if 'noise' not in kwargs:") and all(isinstance(x, ast.Raise) for x in s.body):
            return
        fk = frame_stmt(s)
        if fk is not None:
            if fk == "save":
                sc.vars[s.targets[0].id] = ("obj", s.value.attr)
            return
        if isinstance(s, ast.Return):
            return
        if isinstance(s, ast.Assign) and len(s.targets) == 1:
            t, v = s.targets[0], s.value
            if isinstance(t, ast.Name):
                if src == "new_noise = kwargs.get('noise')":
                    sc.vars["new_noise"] = ("ten", 1, 1)
                    return
                assign_tensor(t.id, v, sc, s)
                return
            if ast.unparse(t) == "fantasy_liklihood.noise_covar" and isinstance(v, ast.Call) \
                    and ast.unparse(v.func) == "FixedGaussianNoise" and not v.args and len(v.keywords) == 1 \
                    and v.keywords[0].arg == "noise":
                tensor_expr(v.keywords[0].value, sc, 10)
                done["out"] = True
                return
        if isinstance(s, ast.If) and not s.orelse and is_rank_test(s.test, sc):
            c = cond_expr(s.test, sc)
            b = st.new_b(ast.unparse(s.test))
            st.emit(("test", b, c), s)
            run_guarded(sc, b, True, s.body, stmt)
            return
        _fail(s, "statement outside vocabulary")
    for s in fn.body:
        stmt(s)
    if not done["out"]:
        raise TranslateError("get_fantasy_likelihood: the fantasy noise is never built")
    return st


# ------------------------------------------------------------------ emit

def lean_se(se):
    if se[0] == "arg":
        return f"(.arg {se[1]})"
    if se[0] == "self":
        return ".self"
    return f"(.cat {lean_se(se[1])} {lean_se(se[2])})"


def lean_ne(ne):
    h = ne[0]
    if h == "add":
        return f"(.add {lean_ne(ne[1])} {lean_ne(ne[2])})"
    return "(." + " ".join(str(x) for x in ne) + ")"


def lean_cond(c):
    h = c[0]
    if h in ("eq", "lt", "le"):
        return f"(.{h} {lean_ne(c[1])} {lean_ne(c[2])})"
    if h == "not":
        return f"(.not {lean_cond(c[1])})"
    return f"(.{h} {lean_cond(c[1])} {lean_cond(c[2])})"


def lean_op(op):
    h = op[0]
    if h in ("shapeOf", "guardBcast", "copy"):
        return f".{h} {op[1]} {op[2]}"
    if h == "shapeSet":
        return f".shapeSet {op[1]} {lean_se(op[2])}"
    if h == "shapeFront":
        return f".shapeFront {op[1]} {op[2]} {op[3]}"
    if h == "natSet":
        return f".natSet {op[1]} {lean_ne(op[2])}"
    if h == "test":
        return f".test {op[1]} {lean_cond(op[2])}"
    if h == "guard":
        return f".guard {lean_cond(op[1])}"
    if h in ("expand", "viewB"):
        return f".{h} {op[1]} {op[2]} {lean_se(op[3])}"
    if h == "nary":
        return f".nary {op[1]} [{', '.join(str(a) for a in op[2])}] .{op[3]} {op[4]}"
    if h == "repeatB":
        return f".repeatB {op[1]} {op[2]} {lean_se(op[3])} {op[4]}"
    if h == "when":
        return f".when {op[1]} {'true' if op[2] else 'false'} ({lean_op(op[3])})"
    raise ValueError(op)


HEADER = """/-
GENERATED by harness/translate/g6_fantasy_shapes.py from $VERIF_REPO — do not edit.
The batch-shape choreography of `ExactGP.get_fantasy_model` with `DefaultPredictionStrategy.get_fantasy_strategy`
inlined at its call, and of `FixedNoiseGaussianLikelihood.get_fantasy_likelihood`, as `FShapes.Op` lists.
-/
import GPVerif.Model.FantasyShapes

namespace Gen.FantasyShapes
open FShapes Choreo
"""


def _oplist(name, ops, doc):
    body = ",\n   ".join(lean_op(o) for o in ops)
    return f"/-- {doc} -/\ndef {name} : List Op :=\n  [{body}]\n"


def _table(title, names):
    return f"{title}: " + "; ".join(f"{i} = `{n}`" for i, n in enumerate(names))


def emit(d):
    st, lk = d["state"], d["lik"]
    L = [HEADER]
    regs = "; ".join(f"{r} = `{n}`" for r, n in sorted(st.reg_names.items()))
    L.append("/-!\ntensor registers: " + regs + "\n\n" + _table("shape variables", st.shape_names) + "\n\n"
             + _table("integer variables", st.nat_names) + "\n\n" + _table("tests", st.bool_names) + "\n-/\n")
    L.append(_oplist("modelPre", d["pre"], "`get_fantasy_model` up to the call of `get_fantasy_strategy`"))
    L.append(_oplist("strategy", d["strategy"], "`get_fantasy_strategy` (parameters bound to the caller's values)"))
    L.append(_oplist("modelPost", d["post"], "`get_fantasy_model` after the call"))
    L.append("def fantasyProgram : List Op := modelPre ++ strategy ++ modelPost\n")
    L.append(f"def nShapes : Nat := {len(st.shape_names)}\n")
    L.append("/-!\n`get_fantasy_likelihood` — " + _table("shape variables", lk.shape_names) + "; "
             + _table("tests", lk.bool_names) + "\n-/\n")
    L.append(_oplist("fixedNoiseProgram", lk.ops, "`FixedNoiseGaussianLikelihood.get_fantasy_likelihood`: old noise, new noise"))
    L.append(f"def fixedNoiseNShapes : Nat := {len(lk.shape_names)}\n")
    L.append("end Gen.FantasyShapes")
    return "\n".join(L) + "\n"


def translate(repo):
    st = State()
    # split the op list at the inlined call
    marks = {}
    orig = tr_strategy

    def marked(repo_, st_, caller):
        marks["a"] = len(st_.ops)
        orig(repo_, st_, caller)
        marks["b"] = len(st_.ops)
    globals()["tr_strategy"] = marked
    try:
        tr_model(repo, st)
    finally:
        globals()["tr_strategy"] = orig
    lk = tr_fixed_noise(repo)
    ops = st.ops
    return {"state": st, "lik": lk, "pre": ops[:marks["a"]], "strategy": ops[marks["a"]:marks["b"]], "post": ops[marks["b"]:],
            "program": ops, "nShapes": len(st.shape_names), "fixedNoise": lk.ops, "fixedNoiseNShapes": len(lk.shape_names)}


def generate(repo, out_path):
    d = translate(repo)
    text = emit(d)
    old = open(out_path).read() if os.path.exists(out_path) else None
    if old != text:
        with open(out_path, "w") as fh:
            fh.write(text)
    return d, old != text


if __name__ == "__main__":
    import sys
    repo = sys.argv[1] if len(sys.argv) > 1 else "/repo"
    out = sys.argv[2] if len(sys.argv) > 2 else os.path.join(os.path.dirname(__file__), "../../lean/GPVerif/Gen/FantasyShapes.lean")
    d, changed = generate(repo, os.path.abspath(out))
    for o in d["program"]:
        print(lean_op(o))
    print("-- fixed noise")
    for o in d["fixedNoise"]:
        print(lean_op(o))
    print("changed =", changed)

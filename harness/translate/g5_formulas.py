"""G5 — symbolic executor for straight-line tensor code WITH in-place aliasing.

Source (from $VERIF_REPO's working tree):
  gpytorch/functions/rbf_covariance.py     RBFCovariance.forward (needs_grad in {F,T}) / backward
  gpytorch/functions/matern_covariance.py  MaternCovariance.forward (nu in {1/2,3/2,5/2} x needs_grad) / backward
  gpytorch/kernels/piecewise_polynomial_kernel.py   _fmax, _get_cov (q = 0..3)

Output: lean/GPVerif/Gen/Formulas.lean — one scalar expression per result and per saved-for-backward tensor,
as a Lean definition polymorphic in the scalar type (`Scalar α`, Model/Scalar.lean).

Semantics that is modelled (this is the point of the translator):
  * every tensor is an object with an identity and a *current* symbolic value;
  * `x.op_(…)` (trailing underscore) replaces the value of that object — every alias sees it — and returns
    the same object;  `x.op(…)`, `a + b`, … create a new object;  `.clone()` creates a new object with the
    same current value (breaks aliasing);
  * the value of a returned / saved tensor is read when `forward` returns (a later in-place op on an alias
    changes what is returned / saved);
  * Python-level control flow (`if needs_grad`, `nu == 1.5`, `lengthscale.size(-1) > 1`) is executed on the
    concrete configuration; a reached `raise` or any construct outside the vocabulary raises TranslateError
    (a broken tie, never silently skipped).
Per-pair abstraction: `x1`, `x2` stand for one row each, `mean` for the row `x1.mean(-2)`, the distance
callback is a parameter of the generated definition; kernel-sized tensors are scalars (one entry per pair).
"""
import ast
import os
from fractions import Fraction


class TranslateError(Exception):
    pass


# ----------------------------------------------------------------------------- symbolic values

class T:
    """A tensor object (identity matters).  kind: 'row' | 'pair' | 'param'."""
    __slots__ = ("kind", "val")

    def __init__(self, kind, val):
        self.kind, self.val = kind, val


class NatVar:
    """A Python int variable kept symbolic (j, q of the piecewise polynomial helpers)."""
    def __init__(self, expr):
        self.expr = expr  # ('nat', name) | ('natadd', a, b) | ('natlit', k)


class Marker:
    def __init__(self, name):
        self.name = name


class Ctx:
    def __init__(self, needs_input_grad, saved=None, attrs=None):
        self.needs_input_grad = tuple(needs_input_grad)
        self.saved = None
        self.saved_tensors = saved
        # plain attributes stashed on ctx (`ctx.name = tensor`): in forward the OBJECT is recorded (identity matters:
        # `ctx.covar_mat = covar_mat; return covar_mat` makes backward read the forward's output object, whatever the
        # caller did to it in place meanwhile); in backward the dict maps the name to the symbolic tensor it reads
        self.attrs = dict(attrs or {})


def const(x):
    if isinstance(x, bool):
        raise TranslateError("bool used as a number")
    if isinstance(x, int):
        return Fraction(x)
    if isinstance(x, float):
        return Fraction(*x.as_integer_ratio())
    if isinstance(x, Fraction):
        return x
    raise TranslateError(f"not a numeric constant: {x!r}")


def is_num(x):
    return isinstance(x, (int, float, Fraction)) and not isinstance(x, bool)


def sval(x):
    """scalar expression of an operand (tensor of kind pair/param, NatVar or number)."""
    if isinstance(x, T):
        if x.kind == "row":
            raise TranslateError("row tensor used where a per-pair scalar is expected")
        return x.val
    if isinstance(x, NatVar):
        return ("ofnat", x.expr)
    if isinstance(x, tuple) and x and x[0] == "sqrtc":
        return x
    if is_num(x):
        return ("const", const(x))
    raise TranslateError(f"unsupported operand {x!r}")


def kind_of(*xs):
    ks = {x.kind for x in xs if isinstance(x, T)}
    if "row" in ks:
        raise TranslateError("row tensor in scalar arithmetic")
    return "pair" if "pair" in ks else "param"


INPLACE = {"div_": "div", "mul_": "mul", "add_": "add", "sub_": "sub"}
PURE = {"div": "div", "mul": "mul", "add": "add", "sub": "sub"}


class Exec:
    def __init__(self, env):
        self.env = dict(env)
        self.ret = None
        self.done = False

    # ---- statements
    def run(self, body):
        for st in body:
            if self.done:
                return
            self.stmt(st)

    def stmt(self, st):
        if isinstance(st, ast.Expr) and isinstance(st.value, ast.Constant) and isinstance(st.value.value, str):
            return
        if isinstance(st, ast.Assign):
            tg = st.targets[0] if len(st.targets) == 1 else None
            if isinstance(tg, ast.Attribute) and isinstance(tg.value, ast.Name) and isinstance(self.env.get(tg.value.id), Ctx):
                v = self.ev(st.value)
                if not isinstance(v, T) or tg.attr in ("needs_input_grad", "saved_tensors"):
                    raise TranslateError(f"line {st.lineno}: `ctx.{tg.attr} = …` of a non-tensor is outside the vocabulary")
                self.env[tg.value.id].attrs[tg.attr] = v
                return
            if tg is None or not isinstance(tg, ast.Name):
                raise TranslateError(f"line {st.lineno}: only `name = expr` assignments are in the vocabulary")
            self.env[tg.id] = self.ev(st.value)
        elif isinstance(st, ast.If):
            c = self.ev(st.test)
            if not isinstance(c, bool):
                raise TranslateError(f"line {st.lineno}: branch condition is not concrete")
            self.run(st.body if c else st.orelse)
        elif isinstance(st, ast.Raise):
            raise TranslateError(f"line {st.lineno}: `raise` reached in the translated configuration")
        elif isinstance(st, ast.Expr):
            self.ev(st.value)
        elif isinstance(st, ast.Return):
            self.ret = self.ev(st.value) if st.value is not None else None
            self.done = True
        elif isinstance(st, ast.Pass):
            pass
        else:
            raise TranslateError(f"line {st.lineno}: statement {type(st).__name__} outside the vocabulary")

    # ---- expressions
    def ev(self, e):
        m = getattr(self, "ev_" + type(e).__name__, None)
        if m is None:
            raise TranslateError(f"line {getattr(e, 'lineno', '?')}: expression {type(e).__name__} outside the vocabulary")
        return m(e)

    def ev_Constant(self, e):
        return e.value

    def ev_Name(self, e):
        if e.id in self.env:
            return self.env[e.id]
        if e.id in ("any", "all"):
            return Marker(e.id)
        raise TranslateError(f"line {e.lineno}: unknown name {e.id}")

    def ev_Tuple(self, e):
        return tuple(self.ev(x) for x in e.elts)

    def ev_Attribute(self, e):
        o = self.ev(e.value)
        if isinstance(o, Ctx) and e.attr in ("needs_input_grad", "saved_tensors"):
            v = getattr(o, e.attr)
            if v is None:
                raise TranslateError(f"ctx.{e.attr} not available here")
            return v
        if isinstance(o, Ctx) and e.attr in o.attrs:
            return o.attrs[e.attr]
        if isinstance(o, T) and e.attr in ("dtype", "device"):
            return Marker(e.attr)
        raise TranslateError(f"line {e.lineno}: attribute .{e.attr} outside the vocabulary")

    def ev_Subscript(self, e):
        o = self.ev(e.value)
        if not isinstance(o, (tuple, list)):
            raise TranslateError(f"line {e.lineno}: subscript of a non-tuple")
        s = e.slice
        if isinstance(s, ast.Slice):
            lo = self.ev(s.lower) if s.lower is not None else None
            hi = self.ev(s.upper) if s.upper is not None else None
            if s.step is not None:
                raise TranslateError("slice step")
            return tuple(o[lo:hi])
        i = self.ev(s)
        if not isinstance(i, int):
            raise TranslateError("non-integer subscript")
        return o[i]

    def ev_UnaryOp(self, e):
        v = self.ev(e.operand)
        if isinstance(e.op, ast.USub):
            if is_num(v):
                return -const(v)
            return T(kind_of(v), ("neg", sval(v)))
        if isinstance(e.op, ast.Not) and isinstance(v, bool):
            return not v
        raise TranslateError(f"line {e.lineno}: unary operator outside the vocabulary")

    def ev_BoolOp(self, e):
        vs = [self.ev(x) for x in e.values]
        if not all(isinstance(v, bool) for v in vs):
            raise TranslateError("boolean operator on non-concrete values")
        return all(vs) if isinstance(e.op, ast.And) else any(vs)

    def ev_Compare(self, e):
        if len(e.ops) != 1:
            raise TranslateError("chained comparison")
        a, b = self.ev(e.left), self.ev(e.comparators[0])
        if not (is_num(a) and is_num(b)):
            raise TranslateError(f"line {e.lineno}: comparison of non-concrete values")
        a, b = const(a), const(b)
        op = e.ops[0]
        table = {ast.Eq: a == b, ast.NotEq: a != b, ast.Gt: a > b, ast.GtE: a >= b, ast.Lt: a < b, ast.LtE: a <= b}
        for k, v in table.items():
            if isinstance(op, k):
                return v
        raise TranslateError("comparison operator outside the vocabulary")

    def ev_IfExp(self, e):
        c = self.ev(e.test)
        if not isinstance(c, bool):
            raise TranslateError(f"line {e.lineno}: conditional expression on a non-concrete test")
        return self.ev(e.body if c else e.orelse)

    def ev_BinOp(self, e):
        a, b = self.ev(e.left), self.ev(e.right)
        return self.binop(e.op, a, b, e.lineno)

    def binop(self, op, a, b, lineno):
        name = {ast.Add: "add", ast.Sub: "sub", ast.Mult: "mul", ast.Div: "div", ast.Pow: "pow"}.get(type(op))
        if name is None:
            raise TranslateError(f"line {lineno}: operator {type(op).__name__} outside the vocabulary")
        if is_num(a) and is_num(b):
            a, b = const(a), const(b)
            if name == "pow":
                if b.denominator != 1:
                    raise TranslateError("non-integer constant power")
                return a ** int(b)
            return {"add": a + b, "sub": a - b, "mul": a * b, "div": a / b}[name]
        if isinstance(a, NatVar) and isinstance(b, NatVar) and name == "add":
            return NatVar(("natadd", a.expr, b.expr))
        if isinstance(a, NatVar) and isinstance(b, int) and not isinstance(b, bool) and name == "add" and b >= 0:
            return NatVar(("natadd", a.expr, ("natlit", b)))
        if isinstance(a, T) and a.kind == "row" or isinstance(b, T) and b.kind == "row":
            if name == "sub" and isinstance(a, T) and isinstance(b, T) and a.kind == b.kind == "row":
                return T("row", ("rsub", a.val, b.val))
            raise TranslateError(f"line {lineno}: row arithmetic other than row - row")
        if name == "pow":
            if not (isinstance(b, int) and not isinstance(b, bool) and b >= 0):
                raise TranslateError(f"line {lineno}: power with a non-literal exponent")
            return T(kind_of(a), ("npow", sval(a), ("natlit", b)))
        return T(kind_of(a, b), (name, sval(a), sval(b)))

    # ---- calls
    def ev_Call(self, e):
        f = e.func
        kw = {k.arg: k.value for k in e.keywords}
        if isinstance(f, ast.Name):
            fn = self.ev(f)
            if isinstance(fn, Marker) and fn.name in ("any", "all"):
                (arg,) = [self.ev(a) for a in e.args]
                if not (isinstance(arg, tuple) and all(isinstance(x, bool) for x in arg)):
                    raise TranslateError("any()/all() over non-concrete values")
                return any(arg) if fn.name == "any" else all(arg)
            if isinstance(fn, Marker) and fn.name.startswith("distfn:"):
                a, b = [self.ev(x) for x in e.args]
                if kw or not (isinstance(a, T) and isinstance(b, T) and a.kind == b.kind == "row"):
                    raise TranslateError(f"line {e.lineno}: distance callback expects two row tensors")
                return T("pair", ("dist", fn.name[7:], a.val, b.val))
            raise TranslateError(f"line {e.lineno}: call of {f.id} outside the vocabulary")
        if not isinstance(f, ast.Attribute):
            raise TranslateError(f"line {e.lineno}: call form outside the vocabulary")
        # module functions
        if isinstance(f.value, ast.Name) and f.value.id in ("math", "torch") and f.value.id not in self.env:
            mod, fn = f.value.id, f.attr
            args = [self.ev(a) for a in e.args]
            if mod == "math" and fn == "sqrt" and len(args) == 1 and is_num(args[0]):
                c = const(args[0])
                return ("sqrtc", c)
            if mod == "torch" and fn == "tensor" and len(args) == 1 and is_num(args[0]):
                return T("param", ("const", const(args[0])))   # dtype/device keywords are irrelevant to the value
            if mod == "torch" and fn == "max" and len(args) == 2 and not kw:
                return T(kind_of(*args), ("max", sval(args[0]), sval(args[1])))
            raise TranslateError(f"line {e.lineno}: {mod}.{fn} outside the vocabulary")
        obj = self.ev(f.value)
        meth = f.attr
        if isinstance(obj, Ctx):
            if meth == "save_for_backward":
                args = [self.ev(a) for a in e.args]
                if not all(isinstance(a, T) for a in args):
                    raise TranslateError("save_for_backward of a non-tensor")
                obj.saved = list(args)
                return None
            raise TranslateError(f"ctx.{meth} outside the vocabulary")
        if not isinstance(obj, T):
            raise TranslateError(f"line {e.lineno}: method .{meth} on a non-tensor")
        args = [self.ev(a) for a in e.args]
        if meth == "clone" and not args and not kw:
            return T(obj.kind, obj.val)
        if meth == "size" and args == [-1] and obj.kind == "param":
            return 1
        if meth == "mean" and obj.kind == "row":
            dim = args[0] if args else self.ev(kw.get("dim")) if "dim" in kw else None
            keep = self.ev(kw["keepdim"]) if "keepdim" in kw else False
            if dim != -2 or keep is not True or obj.val != ("row", "x1"):
                raise TranslateError(f"line {e.lineno}: only x1.mean(dim=-2, keepdim=True) is in the vocabulary")
            return T("row", ("row", "mean"))
        if obj.kind == "row":
            if meth == "div" and len(args) == 1 and isinstance(args[0], T) and args[0].kind == "param":
                return T("row", ("rdivs", obj.val, args[0].val))
            raise TranslateError(f"line {e.lineno}: row method .{meth} outside the vocabulary")
        if kw:
            raise TranslateError(f"line {e.lineno}: keyword arguments on .{meth}")
        if meth in INPLACE and len(args) == 1:
            kind_of(obj, args[0])
            obj.val = (INPLACE[meth], obj.val, sval(args[0]))
            return obj
        if meth in PURE and len(args) == 1:
            return T(kind_of(obj, args[0]), (PURE[meth], obj.val, sval(args[0])))
        if meth in ("neg_", "exp_") and not args:
            obj.val = (meth[:-1], obj.val)
            return obj
        if meth in ("neg", "exp") and not args:
            return T(obj.kind, (meth, obj.val))
        if meth in ("pow_", "pow") and len(args) == 1:
            n = args[0]
            if isinstance(n, NatVar):
                ne = n.expr
            elif isinstance(n, int) and not isinstance(n, bool) and n >= 0:
                ne = ("natlit", n)
            else:
                raise TranslateError(f"line {e.lineno}: .{meth} with a non-integer exponent")
            v = ("npow", obj.val, ne)
            if meth == "pow_":
                obj.val = v
                return obj
            return T(obj.kind, v)
        if meth == "square" and not args:
            return T(obj.kind, ("npow", obj.val, ("natlit", 2)))
        raise TranslateError(f"line {e.lineno}: tensor method .{meth} outside the vocabulary")


# ----------------------------------------------------------------------------- Lean emission

def lean_rat(q):
    q = Fraction(q)
    if q.denominator == 1:
        return f"({q.numerator} : Rat)" if q >= 0 else f"(-{-q.numerator} : Rat)"
    s = f"{abs(q.numerator)} / {q.denominator}"
    return f"({s} : Rat)" if q >= 0 else f"(-({s}) : Rat)"


def lean_nat(n):
    if n[0] == "nat":
        return n[1]
    if n[0] == "natlit":
        return str(n[1])
    return f"({lean_nat(n[1])} + {lean_nat(n[2])})"


def lean_row(r):
    if r[0] == "row":
        return r[1]
    if r[0] == "rsub":
        return f"(Scalar.rowSub {lean_row(r[1])} {lean_row(r[2])})"
    if r[0] == "rdivs":
        return f"(Scalar.rowDivS {lean_row(r[1])} {lean(r[2])})"
    raise TranslateError(f"row expression {r[0]}")


def lean(x):
    k = x[0]
    if k == "const":
        return f"(Scalar.lit {lean_rat(x[1])})"
    if k == "sqrtc":
        return f"(Scalar.sqrt (Scalar.lit {lean_rat(x[1])}))"
    if k == "var":
        return x[1]
    if k == "ofnat":
        return f"(Scalar.lit (({lean_nat(x[1])} : Nat) : Rat))"
    if k == "dist":
        return f"({x[1]} {lean_row(x[2])} {lean_row(x[3])})"
    if k in ("add", "sub", "mul", "div"):
        return f"({lean(x[1])} {dict(add='+', sub='-', mul='*', div='/')[k]} {lean(x[2])})"
    if k == "neg":
        return f"(-{lean(x[1])})"
    if k == "exp":
        return f"(Scalar.exp {lean(x[1])})"
    if k == "max":
        return f"(Scalar.max {lean(x[1])} {lean(x[2])})"
    if k == "npow":
        return f"(Scalar.npow {lean(x[1])} {lean_nat(x[2])})"
    raise TranslateError(f"expression node {k}")


# ----------------------------------------------------------------------------- drivers of the executor

def _find(tree, cls, fn):
    for n in tree.body:
        if isinstance(n, ast.ClassDef) and n.name == cls:
            for m in n.body:
                if isinstance(m, ast.FunctionDef) and m.name == fn:
                    return m
    raise TranslateError(f"{cls}.{fn} not found")


def _find_fn(tree, fn):
    for n in tree.body:
        if isinstance(n, ast.FunctionDef) and n.name == fn:
            return n
    raise TranslateError(f"function {fn} not found")


def _args(fn):
    if fn.args.vararg or fn.args.kwarg or fn.args.kwonlyargs:
        raise TranslateError(f"{fn.name}: signature outside the vocabulary")
    return [a.arg for a in fn.args.args]


LAST_CTX_ATTRS = []     # ctx-attribute report of every run_forward since the last reset (read by translate())


def run_forward(fn, expect_args, needs_grad, nu, distname):
    names = _args(fn)
    if names != expect_args:
        raise TranslateError(f"{fn.name} signature changed: {names} (expected {expect_args})")
    n_in = len(names) - 1
    nig = [False] * n_in
    nig[2] = needs_grad   # position of `lengthscale`
    ctx = Ctx(nig)
    env = {"ctx": ctx, "x1": T("row", ("row", "x1")), "x2": T("row", ("row", "x2")),
           "lengthscale": T("param", ("var", "lengthscale"))}
    if "nu" in names:
        env["nu"] = nu
    env[names[-1]] = Marker("distfn:" + distname)
    ex = Exec(env)
    ex.run(fn.body)
    if not isinstance(ex.ret, T) or ex.ret.kind != "pair":
        raise TranslateError(f"{fn.name}: does not return a kernel-sized tensor")
    saved = ctx.saved
    # ctx attributes: ("output", None) when the stashed object IS the returned tensor (saved-output aliasing: backward
    # reads whatever the caller has made of the result), else ("value", value when forward returns)
    info = {}
    for name, obj in ctx.attrs.items():
        if obj.kind != "pair":
            raise TranslateError(f"{fn.name}: ctx.{name} is not a kernel-sized tensor")
        info[name] = ("output", None) if obj is ex.ret else ("value", obj.val)
    LAST_CTX_ATTRS.append(info)
    if needs_grad:
        if not saved or len(saved) != 1 or saved[0].kind != "pair":
            raise TranslateError(f"{fn.name}: expected exactly one kernel-sized saved tensor when needs_grad")
        return ex.ret.val, saved[0].val          # values read when forward returns
    if saved:
        raise TranslateError(f"{fn.name}: saves tensors although no gradient is needed")
    return ex.ret.val, None


def ctx_attr_kinds(infos):
    """name -> 'output' | 'value' for the needs_grad forward runs of one Function (must agree between branches)"""
    kinds = {}
    for info in infos:
        for name, (k, _) in info.items():
            if kinds.setdefault(name, k) != k:
                raise TranslateError(f"ctx.{name} is the output object in one branch and another tensor in another")
    return kinds


def backward_params(kinds, expr):
    """extra parameters (beyond grad_output, saved) the backward expression reads"""
    used = set()

    def walk(x):
        if isinstance(x, tuple):
            if x and x[0] == "var":
                used.add(x[1])
            for y in x[1:]:
                walk(y)
    walk(expr)
    out = []
    for name, k in kinds.items():
        v = "output" if k == "output" else f"ctx_{name}"
        if v in used and v not in out:
            out.append(v)
    return out


def run_backward(fn, n_inputs, kinds=None):
    names = _args(fn)
    if names != ["ctx", "grad_output"]:
        raise TranslateError(f"backward signature changed: {names}")
    attrs = {name: T("pair", ("var", "output" if k == "output" else f"ctx_{name}")) for name, k in (kinds or {}).items()}
    ctx = Ctx([False] * n_inputs, saved=(T("pair", ("var", "saved")),), attrs=attrs)
    ex = Exec({"ctx": ctx, "grad_output": T("pair", ("var", "grad_output"))})
    ex.run(fn.body)
    r = ex.ret
    if not (isinstance(r, tuple) and len(r) == n_inputs):
        raise TranslateError("backward must return one entry per forward input")
    for i, v in enumerate(r):
        if i == 2:
            if not isinstance(v, T):
                raise TranslateError("backward returns no lengthscale gradient")
        elif v is not None:
            raise TranslateError(f"backward returns a gradient for input {i}")
    return r[2].val


def _emit_bwd(doc, name, g, kinds):
    """`backward` as a definition.  Unchanged two-argument form when it reads only `grad_output` and the saved tensor;
    when it also reads tensors stashed on `ctx` they become further parameters — `output` is the forward's RESULT
    OBJECT as it is at backward time (saved-output aliasing), so the signature states what the derivative claim
    depends on (the two-argument theorems of Props/C19 no longer type-check: a proof obligation, not a crash)."""
    extra = backward_params(kinds, g)
    if not extra:
        return f"/-- `{doc} -/\ndef {name} (grad_output saved : α) : α :=\n  {lean(g)}\n\n"
    note = "; ".join(("`output` = the tensor RETURNED by forward, read when backward runs (in-place edits of the result "
                      "are seen)") if v == "output" else f"`{v}` = `ctx.{v[4:]}` as stashed by forward" for v in extra)
    return (f"/-- `{doc} — reads beyond the saved tensor: {note} -/\n"
            f"def {name} (grad_output saved {' '.join(extra)} : α) : α :=\n  {lean(g)}\n\n")


HEADER = """/-
GENERATED by harness/translate/g5_formulas.py from $VERIF_REPO — do not edit.
Sources: gpytorch/functions/rbf_covariance.py, gpytorch/functions/matern_covariance.py,
         gpytorch/kernels/piecewise_polynomial_kernel.py (_fmax, _get_cov).
One scalar expression per result / saved-for-backward tensor of the hand-written autograd Functions, for one
pair of rows `x1 x2` (`mean` = the row `x1.mean(-2)`), the distance callback being a parameter.  In-place
tensor semantics (aliasing, `.clone()`) has been resolved by the symbolic executor.
-/
import GPVerif.Model.Scalar

set_option linter.unusedVariables false

namespace Gen.Formulas

variable {α : Type} [Add α] [Sub α] [Mul α] [Div α] [Neg α] [Scalar α]

"""

NU = {"12": Fraction(1, 2), "32": Fraction(3, 2), "52": Fraction(5, 2)}


def translate(repo):
    """Returns the Lean source text (raises TranslateError on any out-of-vocabulary construct)."""
    out = [HEADER]

    def src(rel):
        p = os.path.join(repo, rel)
        return ast.parse(open(p).read(), p)

    # ---- RBF
    t = src("gpytorch/functions/rbf_covariance.py")
    fwd, bwd = _find(t, "RBFCovariance", "forward"), _find(t, "RBFCovariance", "backward")
    sig = ["ctx", "x1", "x2", "lengthscale", "sq_dist_func"]
    del LAST_CTX_ATTRS[:]
    o, _ = run_forward(fwd, sig, False, None, "sqd")
    del LAST_CTX_ATTRS[:]        # only the needs_grad run feeds backward
    out.append("/-- `RBFCovariance.forward`, no gradient needed: the returned covariance entry -/\n"
               f"def rbfFwdNoGradOut (sqd : List α → List α → α) (x1 x2 : List α) (lengthscale : α) : α :=\n  {lean(o)}\n\n")
    o, s = run_forward(fwd, sig, True, None, "sqd")
    out.append("/-- `RBFCovariance.forward`, `needs_grad`: the returned covariance entry -/\n"
               f"def rbfFwdGradOut (sqd : List α → List α → α) (x1 x2 : List α) (lengthscale : α) : α :=\n  {lean(o)}\n\n")
    out.append("/-- `RBFCovariance.forward`, `needs_grad`: the tensor saved for backward (`d_output_d_input`) -/\n"
               f"def rbfFwdGradSaved (sqd : List α → List α → α) (x1 x2 : List α) (lengthscale : α) : α :=\n  {lean(s)}\n\n")
    for name, (k, v) in LAST_CTX_ATTRS[-1].items():
        if k == "value":
            out.append(f"/-- `RBFCovariance.forward`, `needs_grad`: the tensor stashed as `ctx.{name}` -/\n"
                       f"def rbfFwdGradCtx_{name} (sqd : List α → List α → α) (x1 x2 : List α) (lengthscale : α) : α :=\n"
                       f"  {lean(v)}\n\n")
    kinds = ctx_attr_kinds(LAST_CTX_ATTRS)
    g = run_backward(bwd, 4, kinds)
    out.append(_emit_bwd("RBFCovariance.backward`: the entry of `lengthscale_grad` (summed over pairs by autograd)",
                         "rbfBwd", g, kinds))

    # ---- Matern
    t = src("gpytorch/functions/matern_covariance.py")
    fwd, bwd = _find(t, "MaternCovariance", "forward"), _find(t, "MaternCovariance", "backward")
    sig = ["ctx", "x1", "x2", "lengthscale", "nu", "dist_func"]
    matern_infos = []
    for tag, nu in NU.items():
        o, _ = run_forward(fwd, sig, False, nu, "distf")
        del LAST_CTX_ATTRS[:]
        out.append(f"/-- `MaternCovariance.forward`, nu = {nu}, no gradient needed -/\n"
                   f"def matern{tag}FwdNoGradOut (distf : List α → List α → α) (x1 x2 mean : List α) (lengthscale : α) : α :=\n  {lean(o)}\n\n")
        o, s = run_forward(fwd, sig, True, nu, "distf")
        matern_infos += LAST_CTX_ATTRS
        for name, (k, v) in LAST_CTX_ATTRS[-1].items():
            if k == "value":
                out.append(f"/-- `MaternCovariance.forward`, nu = {nu}: the tensor stashed as `ctx.{name}` -/\n"
                           f"def matern{tag}FwdGradCtx_{name} (distf : List α → List α → α) (x1 x2 mean : List α) "
                           f"(lengthscale : α) : α :=\n  {lean(v)}\n\n")
        out.append(f"/-- `MaternCovariance.forward`, nu = {nu}, `needs_grad`: returned entry -/\n"
                   f"def matern{tag}FwdGradOut (distf : List α → List α → α) (x1 x2 mean : List α) (lengthscale : α) : α :=\n  {lean(o)}\n\n")
        out.append(f"/-- `MaternCovariance.forward`, nu = {nu}, `needs_grad`: saved `d_output_d_input` -/\n"
                   f"def matern{tag}FwdGradSaved (distf : List α → List α → α) (x1 x2 mean : List α) (lengthscale : α) : α :=\n  {lean(s)}\n\n")
    kinds = ctx_attr_kinds(matern_infos)
    g = run_backward(bwd, 5, kinds)
    out.append(_emit_bwd("MaternCovariance.backward`", "maternBwd", g, kinds))

    # ---- piecewise polynomial helpers
    t = src("gpytorch/kernels/piecewise_polynomial_kernel.py")
    fmax, getcov = _find_fn(t, "_fmax"), _find_fn(t, "_get_cov")
    if _args(fmax) != ["r", "j", "q"] or _args(getcov) != ["r", "j", "q"]:
        raise TranslateError("_fmax/_get_cov signature changed")
    ex = Exec({"r": T("pair", ("var", "r")), "j": NatVar(("nat", "j")), "q": NatVar(("nat", "q"))})
    ex.run(fmax.body)
    if not isinstance(ex.ret, T):
        raise TranslateError("_fmax does not return a tensor")
    out.append("/-- `_fmax(r, j, q)` of piecewise_polynomial_kernel.py -/\n"
               f"def ppFmax (r : α) (j q : Nat) : α :=\n  {lean(ex.ret.val)}\n\n")
    for q in range(4):
        ex = Exec({"r": T("pair", ("var", "r")), "j": NatVar(("nat", "j")), "q": q})
        ex.run(getcov.body)
        if not ex.done or ex.ret is None:
            raise TranslateError(f"_get_cov: no return for q = {q}")
        out.append(f"/-- `_get_cov(r, j, q)` for q = {q} -/\n"
                   f"def ppCov{q} (r : α) (j : Nat) : α :=\n  {lean(sval(ex.ret))}\n\n")
    out.append("end Gen.Formulas\n")
    return "".join(out)


def generate(repo, path):
    """Regenerate `path`; returns True when the text changed."""
    text = translate(repo)
    old = open(path).read() if os.path.exists(path) else None
    if old != text:
        with open(path, "w") as fh:
            fh.write(text)
    return old != text


if __name__ == "__main__":
    import sys
    print(translate(sys.argv[1] if len(sys.argv) > 1 else os.environ.get("VERIF_REPO", "/repo")))
